//! h2v — verification harness for hyperium/h2 (runs the REAL code, prints line-protocol traces).
//!
//!   h2v gen <profile> <seed> <cases>      write an op script to stdout
//!   h2v run                               execute the op script on stdin against the real code,
//!                                         one answer line per op line on stdout
mod codec;
mod comp;
mod conn;
mod conngen;
mod dbg;
mod e2e;
mod hs;
mod threads;
mod gen_pure;
mod pure;
mod util;

use std::io::{BufRead, Write};

fn main() {
    let args: Vec<String> = std::env::args().collect();
    // panics inside the code under test are results (caught per op), not noise on stderr
    std::panic::set_hook(Box::new(|info| {
        if std::env::var("H2V_PANIC_MSG").is_ok() {
            eprintln!("PANIC: {}", info);
        }
    }));
    match args.get(1).map(|s| s.as_str()) {
        Some("gen") => {
            let profile = args.get(2).expect("profile");
            let seed: u64 = args.get(3).and_then(|s| s.parse().ok()).unwrap_or(1);
            let cases: usize = args.get(4).and_then(|s| s.parse().ok()).unwrap_or(100);
            let out = std::io::stdout();
            let mut out = std::io::BufWriter::new(out.lock());
            let ok = if profile == "threads" {
                threads::generate(seed, cases, &mut out);
                true
            } else if profile == "server-preface" {
                hs::generate(seed, cases, &mut out);
                true
            } else if profile.starts_with("e2e-") {
                e2e::generate(profile, seed, cases, &mut out)
            } else if profile == "state-exhaustive" {
                comp::gen_state_exhaustive(&mut out);
                true
            } else if profile == "flow" {
                let mut rng = util::Rng::new(seed);
                comp::gen_flow(&mut rng, cases, &mut out);
                true
            } else if profile.starts_with("conn-") {
                let mut rng = util::Rng::new(seed);
                conngen::generate(profile, &mut rng, cases, &mut out)
            } else {
                gen_pure::generate(profile, seed, cases, &mut out)
            };
            if !ok {
                eprintln!("unknown profile {}", profile);
                std::process::exit(2);
            }
            out.flush().unwrap();
        }
        Some("run") => {
            let stdin = std::io::stdin();
            let out = std::io::stdout();
            let mut out = std::io::BufWriter::new(out.lock());
            let mut pure = pure::Pure::new();
            let mut cod = codec::CodecH::new(16384);
            let mut rd_items: Vec<String> = vec![];
            let mut cn = conn::ConnH::none();
            let mut cmp = comp::Comp::new();
            for line in stdin.lock().lines() {
                let line = line.unwrap();
                let t = line.trim();
                if t.is_empty() || t.starts_with('#') {
                    continue;
                }
                let ws: Vec<&str> = t.split(' ').filter(|w| !w.is_empty()).collect();
                let ans = std::panic::catch_unwind(std::panic::AssertUnwindSafe(|| {
                    if let Some(a) = pure.handle(&ws) {
                        return Some(a);
                    }
                    if ws[0] == "spec_rd_all" {
                        // everything the real reader produced since `rd_new`, whatever the chunking was
                        let v: Vec<&str> = rd_items.iter().map(|s| s.as_str()).filter(|s| *s != "-" && *s != "dead").collect();
                        return Some(if v.is_empty() { "-".to_string() } else { v.join(" ;; ") });
                    }
                    if ws[0].starts_with("cn_") {
                        return cn.handle(&ws);
                    }
                    if ws[0] == "thr_run" || ws[0] == "thr_idle" || ws[0] == "thr_ext" {
                        return threads::handle(&ws);
                    }
                    if ws[0] == "e2e_run" {
                        return e2e::handle(&ws);
                    }
                    if ws[0] == "hs_run" {
                        return hs::handle(&ws);
                    }
                    if ws[0].starts_with("fc_") || ws[0].starts_with("stt_") {
                        return cmp.handle(&ws);
                    }
                    let a = cod.handle(&ws)?;
                    if ws[0] == "rd_new" {
                        rd_items.clear();
                    } else if ws[0] == "rd_feed" || ws[0] == "rd_eof" {
                        rd_items.push(a.clone());
                    }
                    Some(a)
                }));
                let ans = match ans {
                    Ok(Some(a)) => a,
                    Ok(None) => "bad-op".to_string(),
                    Err(_) => {
                        if ws[0].starts_with("cn_") {
                            // the connection's mutexes may be poisoned: dropping its handles would panic again (inside
                            // a destructor: an abort). Leak them; the rest of the history runs against nothing.
                            let old = std::mem::replace(&mut cn, conn::ConnH::none());
                            std::mem::forget(old);
                        }
                        "panic".to_string()
                    }
                };
                writeln!(out, "{}", ans).unwrap();
            }
            out.flush().unwrap();
        }
        Some("dump") => {
            use std::future::Future;
            let io = codec::Io::default();
            let waker = codec::noop_waker();
            let mut cx = std::task::Context::from_waker(&waker);
            let mut hs = Box::pin(h2::client::Builder::new().handshake::<_, bytes::Bytes>(io.clone()));
            let (mut sr, mut conn) = match hs.as_mut().poll(&mut cx) {
                std::task::Poll::Ready(Ok(x)) => x,
                _ => panic!(),
            };
            let req = http::Request::builder().method("POST").uri("http://a/b").body(()).unwrap();
            let (_rf, mut ss) = sr.send_request(req, false).unwrap();
            ss.reserve_capacity(100);
            ss.send_data(bytes::Bytes::from(vec![0u8; 50]), false).unwrap();
            let _ = std::pin::Pin::new(&mut conn).poll(&mut cx);
            println!("{:#?}", conn);
        }
        _ => {
            eprintln!("usage: h2v gen <profile> <seed> <cases> | h2v run < ops");
            std::process::exit(2);
        }
    }
}
