//! Generator of connection-level histories. It runs the real connection in lockstep (through the
//! same interpreter `conn::ConnH` that `h2v run` uses) so that it knows which handles are alive,
//! which stream ids were assigned and what the endpoint has put on the wire; it then plays a
//! (mostly) protocol-abiding peer. The emitted script replays deterministically with `h2v run`.

use crate::codec::wire;
use crate::conn::ConnH;
use crate::util::{hex, Rng};
use std::collections::{BTreeMap, BTreeSet};
use std::io::Write;

#[derive(Default, Clone)]
struct PeerStream {
    /// what the peer may still send on this stream (our advertised window as the peer sees it)
    credit: i64,
    headers_seen: bool,   // our HEADERS reached the wire (client role) / peer opened it (server role)
    peer_closed: bool,    // peer sent END_STREAM or RST
    we_closed: bool,      // we sent END_STREAM or RST
    responded: bool,      // client role: peer sent final response HEADERS
    we_reset: bool,       // we sent RST_STREAM
    we_reset_code: u32,
    recv_dropped: bool,   // the application dropped (or never took) the receive handle: h2 discards the data (F3)
    odd_head: bool,       // the peer's head was unusual (content-length, 204, malformed): not a stream for C09's DATA entries
    peer_reset: bool,     // the peer sent RST_STREAM
    promised: bool,       // client role: a stream the peer has promised (PUSH_PROMISE); `responded` = the pushed response began
    cl_left: Option<i64>, // the peer's head announced a content-length: what is left of it (negative: surplus sent)
}

struct G<'a> {
    rng: &'a mut Rng,
    out: &'a mut dyn Write,
    cn: ConnH,
    role: &'static str,
    nslots: usize,
    slot_sid: Vec<u32>,
    streams: BTreeMap<u32, PeerStream>,
    conn_credit: i64,
    our_iws: i64,              // the initial stream window we advertised and the peer acknowledged
    pending_iws: Option<i64>,  // announced, not yet acknowledged by the (scripted) peer
    settings_to_ack: usize,
    pongs_owed: Vec<Vec<u8>>,
    dfb: Option<usize>,         // data_frame_budget, when configured
    mhl: Option<usize>,         // max_header_list_size, when configured   // PINGs the endpoint sent and the peer has not answered yet
    next_peer_sid: u32,
    woken: BTreeSet<String>,
    dead: bool,
    last_st: String,
    reset_default: bool,
    /// lowest last-stream-id of the GOAWAY frames this scripted peer has sent (it has said that it does not
    /// process the endpoint's streams above it: what it sends on them afterwards is not judged)
    peer_goaway_last: Option<u32>,
    /// was the last operation a poll of the connection?
    last_was_poll: bool,
    /// client role: the next stream id the scripted peer promises
    next_push_id: u32,
    /// server role: the highest stream id the endpoint has promised so far
    max_promised: u32,
    /// the client accepts pushes (SETTINGS_ENABLE_PUSH not switched off by the history's options)
    push_ok: bool,
    accepted: BTreeSet<u32>,
    flavor: &'static str,
}

impl<'a> G<'a> {
    fn op(&mut self, line: String) -> String {
        writeln!(self.out, "{}", line).unwrap();
        self.last_was_poll = line == "cn_poll";
        let ws: Vec<&str> = line.split(' ').filter(|w| !w.is_empty()).collect();
        let cn = &mut self.cn;
        let ans = match std::panic::catch_unwind(std::panic::AssertUnwindSafe(|| cn.handle(&ws))) {
            Ok(a) => a.unwrap_or_else(|| "bad-op".into()),
            Err(_) => {
                // the real code panicked: leak the (possibly poisoned) connection, end this history
                let old = std::mem::replace(&mut self.cn, ConnH::none());
                std::mem::forget(old);
                self.dead = true;
                "panic".to_string()
            }
        };
        if ws.first().map(|w| *w == "cn_push" || *w == "cn_pushk").unwrap_or(false) {
            if let Some(rest) = Self::field(&ans, "r=").strip_prefix("ok:") {
                if let Some(sid) = rest.split(':').last().and_then(|x| x.parse::<u32>().ok()) {
                    self.max_promised = self.max_promised.max(sid);
                }
            }
        }
        self.digest(&ans);
        ans
    }

    fn field<'b>(ans: &'b str, key: &str) -> &'b str {
        for w in ans.split(' ') {
            if let Some(v) = w.strip_prefix(key) {
                return v;
            }
        }
        "-"
    }

    /// update the peer's view from what the endpoint wrote
    fn digest(&mut self, ans: &str) {
        let tx = Self::field(ans, "tx=");
        if tx != "-" {
            for f in tx.split(';') {
                let p: Vec<&str> = f.split(':').collect();
                match p[0] {
                    "H" => {
                        let sid: u32 = p[1].parse().unwrap_or(0);
                        let fl: u32 = p[2].parse().unwrap_or(0);
                        let iws = self.our_iws;
                        let pushed = self.role == "server" && sid % 2 == 0;
                        let s = self.streams.entry(sid).or_insert_with(|| PeerStream { credit: iws, ..Default::default() });
                        s.headers_seen = true;
                        if pushed {
                            // a stream the endpoint has pushed: the peer sends nothing but RST_STREAM / WINDOW_UPDATE on it
                            s.promised = true;
                            s.peer_closed = true;
                        }
                        if fl & 1 != 0 {
                            s.we_closed = true;
                        }
                    }
                    "D" => {
                        let sid: u32 = p[1].parse().unwrap_or(0);
                        let fl: u32 = p[2].parse().unwrap_or(0);
                        if fl & 1 != 0 {
                            if let Some(s) = self.streams.get_mut(&sid) {
                                s.we_closed = true;
                            }
                        }
                    }
                    "R" => {
                        let sid: u32 = p[1].parse().unwrap_or(0);
                        if let Some(s) = self.streams.get_mut(&sid) {
                            s.we_closed = true;
                            s.peer_closed = true;
                            s.we_reset = true;
                            s.we_reset_code = p.get(2).and_then(|c| c.parse().ok()).unwrap_or(0);
                        }
                    }
                    "W" => {
                        let sid: u32 = p[1].parse().unwrap_or(0);
                        let inc: i64 = p[2].parse().unwrap_or(0);
                        if sid == 0 {
                            self.conn_credit += inc;
                        } else if let Some(s) = self.streams.get_mut(&sid) {
                            s.credit += inc;
                        }
                    }
                    "P" => {
                        if p.len() == 4 && p[2] == "0" {
                            if let Some(b) = crate::util::unhex(p[3]) {
                                self.pongs_owed.push(b);
                            }
                        }
                    }
                    "S" => {
                        if p[2] == "0" {
                            self.settings_to_ack += 1;
                            for kv in p[3].split(',') {
                                if let Some(v) = kv.strip_prefix("4=") {
                                    self.pending_iws = v.parse().ok();
                                }
                            }
                        }
                    }
                    "G" => {
                        // after a GOAWAY with an error the connection is going down
                        if p.get(3).map(|c| *c != "0").unwrap_or(false) {
                            self.dead = true;
                        }
                    }
                    _ => {}
                }
            }
        }
        let wk = Self::field(ans, "wk=");
        if wk != "-" {
            for w in wk.split(',') {
                self.woken.insert(w.to_string());
            }
        }
        let st = Self::field(ans, "st=");
        if st != "-" {
            self.last_st = st.to_string();
        }
        let r = Self::field(ans, "r=");
        if r == "done" || r.starts_with("err:") && ans.starts_with("r=err") && Self::field(ans, "st=").contains("K:Closed") {
            self.dead = true;
        }
    }

    fn peer(&mut self, bytes: Vec<u8>) {
        self.op(format!("cn_peer {}", hex(&bytes)));
    }

    /// the peer answers the PINGs it owes (in order); now and then an acknowledgement nobody asked for comes first
    fn answer_pings(&mut self) {
        if self.pongs_owed.is_empty() {
            return;
        }
        if self.rng.chance(1, 4) {
            self.peer(wire(6, 1, 0, &[7, 7, 7, 7, 7, 7, 7, 7]));
        }
        let owed = std::mem::take(&mut self.pongs_owed);
        for p in owed {
            self.peer(wire(6, 1, 0, &p));
        }
    }

    fn ack_settings(&mut self) {
        while self.settings_to_ack > 0 {
            self.settings_to_ack -= 1;
            if let Some(n) = self.pending_iws.take() {
                let d = n - self.our_iws;
                self.our_iws = n;
                for s in self.streams.values_mut() {
                    s.credit += d;
                }
            }
            self.peer(wire(4, 1, 0, &[]));
        }
    }

    fn live_sids(&self, pred: impl Fn(&PeerStream) -> bool) -> Vec<u32> {
        self.streams.iter().filter(|(_, s)| pred(s)).map(|(k, _)| *k).collect()
    }

    fn slot_of(&self, sid: u32) -> Option<usize> {
        self.slot_sid.iter().position(|s| *s == sid)
    }

    fn pick_slot(&mut self) -> Option<usize> {
        if self.nslots == 0 {
            None
        } else {
            // prefer recent slots
            let n = self.nslots as u64;
            let k = if self.rng.chance(2, 3) { n - 1 - self.rng.below(n.min(4)) } else { self.rng.below(n) };
            Some(k as usize)
        }
    }

    /// offsets at which a field of an HPACK block (as this generator writes them: no Huffman, lengths below 127)
    /// ends and another begins
    fn field_bounds(block: &[u8]) -> Vec<usize> {
        let mut out = vec![];
        let mut i = 0usize;
        let lit = |b: &[u8], mut i: usize, name_literal: bool| -> Option<usize> {
            if name_literal {
                let n = *b.get(i)? as usize;
                if n >= 127 {
                    return None;
                }
                i += 1 + n;
            }
            let n = *b.get(i)? as usize;
            if n >= 127 {
                return None;
            }
            i += 1 + n;
            if i <= b.len() { Some(i) } else { None }
        };
        while i < block.len() {
            let b = block[i];
            let next = if b & 0x80 != 0 {
                if b & 0x7f == 0x7f { None } else { Some(i + 1) }
            } else if b & 0xc0 == 0x40 {
                match b & 0x3f {
                    0 => lit(block, i + 1, true),
                    0x3f => lit(block, i + 2, false),
                    _ => lit(block, i + 1, false),
                }
            } else if b & 0xe0 == 0x20 {
                if b & 0x1f == 0x1f { None } else { Some(i + 1) }
            } else {
                match b & 0x0f {
                    0 => lit(block, i + 1, true),
                    0x0f => lit(block, i + 2, false),
                    _ => lit(block, i + 1, false),
                }
            };
            match next {
                Some(n) if n > i => {
                    i = n;
                    if i < block.len() {
                        out.push(i);
                    }
                }
                _ => return vec![],
            }
        }
        out
    }

    /// the first content-length value a block written by this generator announces
    fn cl_of(block: &[u8]) -> Option<i64> {
        let name = b"content-length";
        let mut i = 0;
        while i + 2 < block.len() {
            let v = if block[i] == 0x0f && block[i + 1] == 0x0d {
                Some(i + 2)
            } else if block[i] as usize == name.len() && block.len() >= i + 1 + name.len() && &block[i + 1..i + 1 + name.len()] == name {
                Some(i + 1 + name.len())
            } else {
                None
            };
            if let Some(j) = v {
                let n = *block.get(j)? as usize;
                let digits = block.get(j + 1..j + 1 + n)?;
                return std::str::from_utf8(digits).ok()?.parse().ok();
            }
            i += 1;
        }
        None
    }

    /// the peer sends a head: in one HEADERS frame, or — half of the time when it has several fields — cut at a
    /// field boundary into HEADERS + CONTINUATION (what is malformed in one frame is malformed in two: C13)
    fn peer_head(&mut self, sid: u32, eos: bool, block: &[u8]) {
        if let Some(n) = Self::cl_of(block) {
            if let Some(s) = self.streams.get_mut(&sid) {
                if s.cl_left.is_none() {
                    s.cl_left = Some(n);
                }
            }
        }
        let cuts = Self::field_bounds(block);
        if !cuts.is_empty() && self.rng.chance(1, 2) {
            let cut = *self.rng.pick(&cuts);
            let mut b = wire(1, if eos { 1 } else { 0 }, sid, &block[..cut]);
            b.extend(wire(9, 4, sid, &block[cut..]));
            self.peer(b);
        } else {
            self.peer(wire(1, 4 | if eos { 1 } else { 0 }, sid, block));
        }
    }

    fn peer_data(&mut self, sid: u32) {
        let (scredit, closed) = match self.streams.get(&sid) {
            Some(s) => (s.credit, s.peer_closed),
            None => return,
        };
        if closed {
            return;
        }
        let maxlen = scredit.min(self.conn_credit).min(16384);
        if maxlen < 0 {
            return;
        }
        let mut want = *self.rng.pick(&[0i64, 1, 5, 100, 999, 1000, 5000, 16384, 70000]);
        // a body that was announced with a content-length often ends exactly on it (and now and then goes on from
        // there: the surplus must not be delivered, C13)
        let left = self.streams.get(&sid).and_then(|s| s.cl_left);
        if let Some(l) = left {
            if l > 0 && self.rng.chance(2, 3) {
                want = l;
            } else if l == 0 && self.rng.chance(1, 2) {
                want = *self.rng.pick(&[1i64, 3, 5]);
            }
        }
        let padded = self.rng.chance(1, 4);
        let padn = if padded { self.rng.below(30) as i64 } else { 0 };
        let overhead = if padded { 1 + padn } else { 0 };
        let mut len = want.min(maxlen - overhead);
        if self.rng.chance(1, 60) {
            len = want; // deliberately overrun the window now and then (C09: flow-control error)
        }
        if len < 0 {
            return;
        }
        let eos = self.rng.chance(1, 8) || (left.map(|l| l <= len).unwrap_or(false) && self.rng.chance(1, 2));
        if let Some(s) = self.streams.get_mut(&sid) {
            if let Some(l) = s.cl_left.as_mut() {
                *l -= len;
            }
        }
        let mut p = vec![];
        let mut fl = if eos { 1 } else { 0 };
        if padded {
            fl |= 8;
            p.push(padn as u8);
        }
        p.extend((0..len).map(|i| (i as u8) ^ (sid as u8)));
        p.extend(std::iter::repeat(0).take(padn as usize));
        let total = p.len() as i64;
        self.conn_credit -= total;
        if let Some(s) = self.streams.get_mut(&sid) {
            s.credit -= total;
            if eos {
                s.peer_closed = true;
            }
        }
        self.peer(wire(0, fl, sid, &p));
    }

    fn req(&mut self, eos: bool, m: &str) {
        let a = self.op(format!("cn_reqc {} {} /p{} -", eos as u8, m, self.nslots));
        if let Some(rest) = Self::field(&a, "r=").strip_prefix("ok:") {
            let p: Vec<&str> = rest.split(':').collect();
            let sid: u32 = p[1].parse().unwrap_or(0);
            self.nslots += 1;
            self.slot_sid.push(sid);
        }
    }

    /// a concurrency slot is recycled while the codec is busy: the limit is reached, requests wait, the
    /// response of the open stream is complete, and the END_STREAM DATA frame that frees the slot is large
    /// enough to fill the codec (chained payload) — optionally under write back-pressure, optionally with the
    /// waiting request cancelled in that window
    fn slot_recycle_prelude(&mut self) {
        let mut p = vec![0u8, 3];
        p.extend_from_slice(&1u32.to_be_bytes());
        self.peer(wire(4, 0, 0, &p));
        self.op("cn_poll".to_string());
        self.ack_settings();
        let first = self.nslots;
        self.req(false, "POST");
        let waiting = 1 + self.rng.below(3) as usize;
        for _ in 0..waiting {
            let eos = self.rng.chance(1, 2);
            self.req(eos, "POST");
        }
        self.op("cn_poll".to_string());
        if self.dead || self.nslots <= first {
            return;
        }
        let sid = self.slot_sid[first];
        if self.streams.get(&sid).map(|s| s.headers_seen).unwrap_or(false) {
            self.peer(wire(1, 5, sid, &[0x88]));
            if let Some(s) = self.streams.get_mut(&sid) {
                s.responded = true;
                s.peer_closed = true;
            }
            self.op("cn_poll".to_string());
        }
        let len = *self.rng.pick(&[1024usize, 5000, 16384, 20000]);
        self.op(format!("cn_data {} {} 1", first, len));
        if self.rng.chance(2, 3) {
            let b = *self.rng.pick(&[0usize, 9, 100, 1500, 6000]);
            self.op(format!("cn_budget {}", b));
        }
        self.op("cn_poll".to_string());
        if self.rng.chance(1, 2) && self.nslots > first + 1 {
            if self.rng.chance(1, 2) {
                self.op(format!("cn_reset {} 8", first + 1));
            } else {
                self.op(format!("cn_drop {} all", first + 1));
            }
        }
        if self.rng.chance(1, 2) {
            self.op("cn_poll".to_string());
        }
        self.op("cn_budget inf".to_string());
        self.op("cn_poll".to_string());
    }

    /// server push as an application uses it: the pushes of a request are asked for and polled (parking the
    /// caller), the peer promises a stream, the promise is collected, the pushed response arrives and is read,
    /// and the parent's response ends — which must wake whoever still waits for more pushes (F32)
    fn push_prelude(&mut self) {
        if !self.push_ok || self.peer_goaway_last.is_some() {
            return;
        }
        let k = self.nslots;
        self.req(true, "GET");
        self.op("cn_poll".to_string());
        if self.dead || self.nslots <= k {
            return;
        }
        let sid = self.slot_sid[k];
        if !self.streams.get(&sid).map(|s| s.headers_seen).unwrap_or(false) {
            return;
        }
        self.op(format!("cn_takepushes {}", k));
        if self.rng.chance(2, 3) {
            self.op(format!("cn_pollpushed {}", k));
        }
        let npush = 1 + self.rng.below(2) as usize;
        let mut promised_ids = vec![];
        for _ in 0..npush {
            let promised = self.next_push_id;
            self.next_push_id += 2;
            let iws = self.our_iws;
            self.streams.insert(
                promised,
                PeerStream { credit: iws, headers_seen: true, we_closed: true, promised: true, recv_dropped: true, ..Default::default() },
            );
            let mut pl = promised.to_be_bytes().to_vec();
            pl.extend_from_slice(&[0x82, 0x86, 0x84, 0x41, 0x01, b'a']);
            self.peer(wire(5, 4, sid, &pl));
            promised_ids.push(promised);
        }
        self.op("cn_poll".to_string());
        // collect the promises (or not)
        let mut pushed_slots = vec![];
        let collect = self.rng.below(npush as u64 + 2) as usize;
        for _ in 0..collect {
            let a = self.op(format!("cn_pollpushed {}", k));
            if let Some(rest) = Self::field(&a, "r=").strip_prefix("ok:") {
                let p: Vec<&str> = rest.split(':').collect();
                let psid: u32 = p[1].parse().unwrap_or(0);
                pushed_slots.push(self.nslots);
                self.nslots += 1;
                self.slot_sid.push(psid);
                if let Some(s) = self.streams.get_mut(&psid) {
                    s.recv_dropped = false;
                }
            }
        }
        // the pushed responses
        for psid in promised_ids.clone() {
            if self.rng.chance(3, 4) {
                let eos = self.rng.chance(1, 2);
                self.peer(wire(1, 4 | eos as u8, psid, &[0x88]));
                if let Some(s) = self.streams.get_mut(&psid) {
                    s.responded = true;
                    s.peer_closed = eos;
                }
                if !eos && self.rng.chance(2, 3) {
                    self.peer_data(psid);
                }
            }
        }
        self.op("cn_poll".to_string());
        for ps in pushed_slots.clone() {
            self.op(format!("cn_resp {}", ps));
            if self.rng.chance(1, 2) {
                self.op(format!("cn_read {}", ps));
            }
        }
        // whoever waits for more pushes parks again; then the parent's response ends
        if self.rng.chance(2, 3) {
            self.op(format!("cn_pollpushed {}", k));
        }
        let room = self.conn_credit >= 3 && self.streams.get(&sid).map(|s| s.credit >= 3).unwrap_or(false);
        let mode = self.rng.below(3);
        match if mode == 1 && !room { 0 } else { mode } {
            0 => {
                self.peer(wire(1, 5, sid, &[0x88]));
            }
            1 => {
                self.peer(wire(1, 4, sid, &[0x88]));
                self.peer(wire(0, 1, sid, b"end"));
                self.conn_credit -= 3;
                if let Some(s) = self.streams.get_mut(&sid) {
                    s.credit -= 3;
                }
            }
            _ => {
                self.peer(wire(1, 4, sid, &[0x88]));
                self.peer(wire(1, 5, sid, &[0x00, 0x03, b'x', b'-', b't', 0x01, b'1']));
            }
        }
        if let Some(s) = self.streams.get_mut(&sid) {
            s.responded = true;
            s.peer_closed = true;
        }
        self.op("cn_poll".to_string());
        self.op(format!("cn_pollpushed {}", k));
        if self.rng.chance(1, 2) {
            self.op(format!("cn_resp {}", k));
        }
        if self.rng.chance(1, 3) {
            self.op(format!("cn_drop {} pushes", k));
        }
    }

    /// server push against a small SETTINGS_MAX_CONCURRENT_STREAMS of the client: several streams are promised on one
    /// request, the promises go out, and only then the pushed responses are sent — each one has to wait for a slot
    /// (C05: a promised stream starts to count when its response begins)
    fn server_push_prelude(&mut self) {
        let m = *self.rng.pick(&[1u32, 1, 2]);
        let mut p = vec![0u8, 3];
        p.extend_from_slice(&m.to_be_bytes());
        self.peer(wire(4, 0, 0, &p));
        self.op("cn_poll".to_string());
        let sid = self.next_peer_sid;
        self.next_peer_sid += 2;
        let iws = self.our_iws;
        self.streams.insert(sid, PeerStream { credit: iws, headers_seen: true, peer_closed: true, ..Default::default() });
        self.peer(wire(1, 5, sid, &[0x82, 0x86, 0x84, 0x41, 0x01, b'a']));
        self.op("cn_poll".to_string());
        let k = self.nslots;
        let a = self.op("cn_accept".to_string());
        match Self::field(&a, "r=").strip_prefix("ok:") {
            Some(rest) => {
                let p: Vec<&str> = rest.split(':').collect();
                let sid: u32 = p[1].parse().unwrap_or(0);
                self.nslots += 1;
                self.slot_sid.push(sid);
                self.accepted.insert(sid);
            }
            None => return,
        }
        let mut pushed = vec![];
        let npush = 2 + self.rng.below(2);
        for _ in 0..npush {
            let a = self.op(format!("cn_pushk {} /push{}", k, self.nslots));
            if let Some(rest) = Self::field(&a, "r=").strip_prefix("ok:") {
                let p: Vec<&str> = rest.split(':').collect();
                let sid: u32 = p[1].parse().unwrap_or(0);
                pushed.push(self.nslots);
                self.nslots += 1;
                self.slot_sid.push(sid);
            }
        }
        if self.rng.chance(3, 4) {
            self.op("cn_poll".to_string()); // the promises are written before any pushed response exists
        }
        for ps in pushed.clone() {
            self.op(format!("cn_respond {} 200 0", ps));
        }
        self.op("cn_poll".to_string());
        for ps in pushed {
            if self.rng.chance(3, 4) {
                let n = *self.rng.pick(&[0usize, 5, 1000]);
                self.op(format!("cn_data {} {} 1", ps, n));
                self.op("cn_poll".to_string());
            }
        }
        if self.rng.chance(1, 2) {
            self.op(format!("cn_respond {} 200 1", k));
            self.op("cn_poll".to_string());
        }
    }

    /// a receive handle is dropped with so much unread DATA behind it that giving the octets back makes a
    /// connection WINDOW_UPDATE due: the drop has to wake the connection task; the poll that follows here was
    /// asked for by nobody else, so it must find nothing to write unless that wake-up was given (C06)
    fn unread_drop_prelude(&mut self) {
        let k = self.nslots;
        let sid;
        if self.role == "client" {
            self.req(true, "GET");
            self.op("cn_poll".to_string());
            if self.dead || self.nslots <= k {
                return;
            }
            sid = self.slot_sid[k];
            if !self.streams.get(&sid).map(|s| s.headers_seen).unwrap_or(false) {
                return;
            }
            self.peer(wire(1, 4, sid, &[0x88]));
            if let Some(s) = self.streams.get_mut(&sid) {
                s.responded = true;
            }
        } else {
            sid = self.next_peer_sid;
            self.next_peer_sid += 2;
            let iws = self.our_iws;
            self.streams.insert(sid, PeerStream { credit: iws, headers_seen: true, ..Default::default() });
            self.peer(wire(1, 4, sid, &[0x83, 0x86, 0x84, 0x41, 0x01, b'a']));
        }
        // as much as both windows allow, in frames of at most 16 KiB, up to 48 KiB
        let mut left = self.conn_credit.min(self.streams.get(&sid).map(|s| s.credit).unwrap_or(0)).min(49152);
        while left > 0 {
            let n = left.min(16384) as usize;
            self.peer(wire(0, 0, sid, &vec![b'u'; n]));
            self.conn_credit -= n as i64;
            if let Some(s) = self.streams.get_mut(&sid) {
                s.credit -= n as i64;
            }
            left -= n as i64;
        }
        self.op("cn_poll".to_string());
        if self.role == "client" {
            self.op(format!("cn_resp {}", k));
        } else {
            let a = self.op("cn_accept".to_string());
            if let Some(rest) = Self::field(&a, "r=").strip_prefix("ok:") {
                let p: Vec<&str> = rest.split(':').collect();
                let sid: u32 = p[1].parse().unwrap_or(0);
                self.nslots += 1;
                self.slot_sid.push(sid);
                self.accepted.insert(sid);
            } else {
                return;
            }
        }
        self.op("cn_poll".to_string());
        if self.dead {
            return;
        }
        self.op(format!("cn_drop {} body", k));
        if let Some(s) = self.streams.get_mut(&sid) {
            s.recv_dropped = true;
        }
        self.op("cn_poll".to_string());
        self.op("cn_poll".to_string());
    }

    /// window arrives while a DATA frame of the stream sits half written in the codec: a body larger than the
    /// stream's window is submitted in one piece, the transport takes only part of the first frame, and the peer's
    /// WINDOW_UPDATEs (or a raised SETTINGS_INITIAL_WINDOW_SIZE) are read at exactly that moment; afterwards the
    /// transport opens up and the connection is polled until it has nothing more to write — the whole body must
    /// have gone out (C06: nothing sendable is left behind; C01: the length at END_STREAM is what was submitted)
    fn window_in_flight_prelude(&mut self) {
        let k = self.nslots;
        if self.role == "client" {
            self.req(false, "POST");
            self.op("cn_poll".to_string());
        } else {
            let sid = self.next_peer_sid;
            self.next_peer_sid += 2;
            let iws = self.our_iws;
            self.streams.insert(sid, PeerStream { credit: iws, headers_seen: true, ..Default::default() });
            self.peer(wire(1, 5, sid, &[0x82, 0x86, 0x84, 0x41, 0x01, b'a']));
            self.op("cn_poll".to_string());
            let a = self.op("cn_accept".to_string());
            if let Some(rest) = Self::field(&a, "r=").strip_prefix("ok:") {
                let p: Vec<&str> = rest.split(':').collect();
                let sid: u32 = p[1].parse().unwrap_or(0);
                self.nslots += 1;
                self.slot_sid.push(sid);
                self.accepted.insert(sid);
                self.op(format!("cn_respond {} 200 0", k));
                self.op("cn_poll".to_string());
            }
        }
        if self.dead || self.nslots <= k {
            return;
        }
        let sid = self.slot_sid[k];
        let len = *self.rng.pick(&[70000usize, 100000, 200000]);
        self.op(format!("cn_data {} {} 1", k, len));
        let b = *self.rng.pick(&[9usize, 100, 1500, 6000, 20000]);
        self.op(format!("cn_budget {}", b));
        self.op("cn_poll".to_string());
        match self.rng.below(3) {
            0 => {
                self.peer(wire(8, 0, sid, &(1u32 << 20).to_be_bytes()));
                self.peer(wire(8, 0, 0, &(1u32 << 20).to_be_bytes()));
            }
            1 => {
                self.peer(wire(8, 0, 0, &(1u32 << 20).to_be_bytes()));
                self.peer(wire(8, 0, sid, &(1u32 << 20).to_be_bytes()));
            }
            _ => {
                // the window comes as a raised SETTINGS_INITIAL_WINDOW_SIZE
                let mut p = vec![0u8, 4];
                p.extend_from_slice(&(1u32 << 20).to_be_bytes());
                self.peer(wire(4, 0, 0, &p));
                self.peer(wire(8, 0, 0, &(1u32 << 20).to_be_bytes()));
            }
        }
        self.op("cn_poll".to_string());
        if self.rng.chance(1, 2) {
            self.op("cn_poll".to_string());
        }
        self.drain();
    }

    /// a stream that has ended in both directions while the application still holds unreleased DATA: the capacity is
    /// released late (enough of it to make a stream WINDOW_UPDATE due), the last handle goes right after, and only then
    /// the connection is polled — nothing may be kept for the stream afterwards
    fn late_release_prelude(&mut self) {
        let n = (*self.rng.pick(&[600i64, 5000, 16384, 40000])).min(self.conn_credit).min(16384).max(1) as usize;
        let k = self.nslots;
        let sid;
        if self.role == "client" {
            self.req(true, "GET");
            self.op("cn_poll".to_string());
            if self.nslots <= k {
                return;
            }
            sid = self.slot_sid[k];
            if !self.streams.get(&sid).map(|s| s.headers_seen).unwrap_or(false) {
                return;
            }
            self.peer(wire(1, 4, sid, &[0x88]));
        } else {
            sid = self.next_peer_sid;
            self.next_peer_sid += 2;
            let iws = self.our_iws;
            self.streams.insert(sid, PeerStream { credit: iws, headers_seen: true, ..Default::default() });
            self.peer(wire(1, 4, sid, &[0x83, 0x86, 0x84, 0x41, 0x01, b'a']));
        }
        let credit = self.streams.get(&sid).map(|s| s.credit).unwrap_or(0);
        let n = n.min(credit.max(0) as usize);
        if n == 0 {
            return;
        }
        self.peer(wire(0, 1, sid, &vec![b'z'; n]));
        self.conn_credit -= n as i64;
        if let Some(s) = self.streams.get_mut(&sid) {
            s.credit -= n as i64;
            s.peer_closed = true;
            s.responded = true;
        }
        self.op("cn_poll".to_string());
        if self.role == "client" {
            self.op(format!("cn_resp {}", k));
        } else {
            let a = self.op("cn_accept".to_string());
            if let Some(rest) = Self::field(&a, "r=").strip_prefix("ok:") {
                let p: Vec<&str> = rest.split(':').collect();
                let asid: u32 = p[1].parse().unwrap_or(0);
                self.nslots += 1;
                self.slot_sid.push(asid);
                self.accepted.insert(asid);
            } else {
                return;
            }
            self.op(format!("cn_respond {} 200 1", k));
            self.op("cn_poll".to_string());
        }
        for _ in 0..20 {
            let a = self.op(format!("cn_read {}", k));
            if !Self::field(&a, "r=").starts_with("data:") {
                break;
            }
        }
        self.op(format!("cn_release {} {}", k, n));
        self.op(format!("cn_drop {} all", k));
        self.op("cn_poll".to_string());
        self.op("cn_poll".to_string());
    }

    fn step_client(&mut self) {
        let r = self.rng.below(100);
        let flow = self.flavor == "flow";
        match r {
            0..=9 => {
                let eos = self.rng.chance(1, 4);
                let m = *self.rng.pick(&["POST", "GET", "PUT"]);
                let extra = if self.rng.chance(1, 6) {
                    format!("{}={}", hex(b"content-length"), hex(b"10"))
                } else if self.rng.chance(1, 25) {
                    // C13, send side: a message the API must refuse (or, for `te: trailers` alone, accept)
                    match self.rng.below(4) {
                        0 => format!("{}={},{}={}", hex(b"te"), hex(b"trailers"), hex(b"te"), hex(b"gzip")),
                        1 => format!("{}={}", hex(b"te"), hex(b"gzip")),
                        2 => format!("{}={}", hex(b"connection"), hex(b"close")),
                        _ => format!("{}={}", hex(b"te"), hex(b"trailers")),
                    }
                } else {
                    "-".to_string()
                };
                let via = if self.rng.chance(1, 3) { "cn_reqc" } else { "cn_req" };
                let a = self.op(format!("{} {} {} /p{} {}", via, eos as u8, m, self.nslots, extra));
                if let Some(rest) = Self::field(&a, "r=").strip_prefix("ok:") {
                    let p: Vec<&str> = rest.split(':').collect();
                    let sid: u32 = p[1].parse().unwrap_or(0);
                    self.nslots += 1;
                    self.slot_sid.push(sid);
                }
            }
            10..=29 => {
                if let Some(k) = self.pick_slot() {
                    let len = *self.rng.pick(&[0usize, 1, 5, 100, 1000, 16384, 16385, 40000, 65535, 70000]);
                    let eos = self.rng.chance(1, 6);
                    self.op(format!("cn_data {} {} {}", k, len, eos as u8));
                }
            }
            30..=36 => {
                if let Some(k) = self.pick_slot() {
                    let n = *self.rng.pick(&[0usize, 1, 100, 1000, 16384, 65535, 70000, 200000]);
                    self.op(format!("cn_reserve {} {}", k, n));
                }
            }
            37..=40 => {
                if let Some(k) = self.pick_slot() {
                    self.op(format!("cn_cap {}", k));
                }
            }
            41..=44 => {
                if let Some(k) = self.pick_slot() {
                    self.op(format!("cn_pollcap {}", k));
                }
            }
            45..=47 => {
                if let Some(k) = self.pick_slot() {
                    let code = *self.rng.pick(&[0u32, 8, 8, 8, 2, 11, 0xdead_beef]);
                    self.op(format!("cn_reset {} {}", k, code));
                }
            }
            48..=51 => {
                if let Some(k) = self.pick_slot() {
                    let w = *self.rng.pick(&["send", "resp", "body", "all", "fc"]);
                    self.op(format!("cn_drop {} {}", k, w));
                    if ["resp", "body", "all", "responder"].contains(&w) {
                        if let Some(sid) = self.slot_sid.get(k).copied() {
                            if let Some(s) = self.streams.get_mut(&sid) {
                                s.recv_dropped = true;
                            }
                        }
                    }
                }
            }
            52..=53 => {
                if let Some(k) = self.pick_slot() {
                    self.op(format!("cn_trailers {}", k));
                }
            }
            54..=59 => {
                // peer: response head for a stream it has seen
                let c = self.live_sids(|s| s.headers_seen && !s.responded && !s.peer_closed);
                if !c.is_empty() {
                    let sid = *self.rng.pick(&c);
                    let eos = self.rng.chance(1, 4);
                    fn lit(n: &[u8], v: &[u8]) -> Vec<u8> {
                        let mut b = vec![0x00, n.len() as u8];
                        b.extend_from_slice(n);
                        b.push(v.len() as u8);
                        b.extend_from_slice(v);
                        b
                    }
                    let informational = self.rng.chance(1, 8);
                    let mut block: Vec<u8> = if informational { vec![0x08, 0x03, b'1', b'0', b'3'] } else { vec![0x88] };
                    if !informational {
                        // C13: now and then a head that violates exactly one rule of RFC 9113 section 8
                        match self.rng.below(40) {
                            0 => block = lit(b"x-a", b"1"),                       // no :status at all
                            1 => block.push(0x84),                                // :path in a response
                            2 => block.extend(lit(b"connection", b"close")),      // connection-specific field
                            3 => block.extend(lit(b"te", b"gzip")),               // TE other than trailers
                            12 => block.extend([lit(b"te", b"trailers"), lit(b"te", b"gzip")].concat()), // … in a second TE field
                            13 => block.extend(lit(b"te", b"trailers")),          // fine
                            4 => block.extend(lit(b"content-length", b"7")),      // body will (very probably) disagree
                            5 => block.extend(lit(b"content-length", b"0")),
                            9 => block.extend([lit(b"content-length", b"5"), lit(b"content-length", b"7")].concat()), // conflicting
                            10 => block.extend([lit(b"content-length", b"5"), lit(b"content-length", b"5")].concat()), // repeated, same
                            11 => block.extend(lit(b"content-length", b"")),      // no value
                            6 => block = [lit(b"x-a", b"1"), vec![0x88]].concat(), // pseudo after regular
                            7 => block.extend(vec![0x88]),                        // duplicated :status
                            8 => block = vec![0x89],                              // 204
                            _ => {}
                        }
                    }
                    if !informational {
                        let odd = block != vec![0x88];
                        if let Some(s) = self.streams.get_mut(&sid) {
                            s.odd_head = odd;
                            s.responded = true;
                            if eos {
                                s.peer_closed = true;
                            }
                        }
                    }
                    self.peer_head(sid, eos && !informational, &block);
                }
            }
            60..=66 => {
                let c = self.live_sids(|s| s.responded && !s.peer_closed);
                if !c.is_empty() {
                    let sid = *self.rng.pick(&c);
                    if self.rng.chance(1, 12) {
                        // trailers: valid, or carrying a pseudo-header field (C13)
                        let block: Vec<u8> = if self.rng.chance(1, 3) { vec![0x88] } else { vec![0x00, 0x03, b'x', b'-', b't', 0x01, b'1'] };
                        if let Some(s) = self.streams.get_mut(&sid) {
                            s.peer_closed = true;
                        }
                        self.peer(wire(1, 5, sid, &block));
                    } else {
                        self.peer_data(sid);
                    }
                }
            }
            67..=74 => {
                // peer WINDOW_UPDATE
                let inc = *self.rng.pick(&[1u32, 10, 1000, 16384, 65535, 100000]);
                // (not on a promised stream whose response has not begun: reserved (remote) admits HEADERS, RST_STREAM
                //  and PRIORITY only)
                let c = self.live_sids(|s| s.headers_seen && !(s.promised && !s.responded));
                let sid = if self.rng.chance(1, 2) || c.is_empty() { 0 } else { *self.rng.pick(&c) };
                self.peer(wire(8, 0, sid, &inc.to_be_bytes()));
            }
            75..=78 => {
                // peer SETTINGS (window / concurrency / frame size / table size)
                let mut p = vec![];
                if self.rng.chance(1, 2) {
                    let w = *self.rng.pick(&[0u32, 1, 10, 1000, 65535, 100000, 0x7fff_ffff]);
                    p.extend_from_slice(&[0, 4]);
                    p.extend_from_slice(&w.to_be_bytes());
                }
                if self.rng.chance(1, 3) {
                    let m = *self.rng.pick(&[0u32, 1, 2, 100]);
                    p.extend_from_slice(&[0, 3]);
                    p.extend_from_slice(&m.to_be_bytes());
                }
                if self.rng.chance(1, 5) {
                    let m = *self.rng.pick(&[16384u32, 20000, 65536]);
                    p.extend_from_slice(&[0, 5]);
                    p.extend_from_slice(&m.to_be_bytes());
                }
                if self.rng.chance(1, 6) {
                    let m = *self.rng.pick(&[0u32, 100, 4096]);
                    p.extend_from_slice(&[0, 1]);
                    p.extend_from_slice(&m.to_be_bytes());
                }
                self.peer(wire(4, 0, 0, &p));
            }
            79..=80 => {
                let c = self.live_sids(|s| s.headers_seen && !s.peer_closed);
                if !c.is_empty() {
                    let sid = *self.rng.pick(&c);
                    let code = *self.rng.pick(&[0u32, 8, 7, 2, 0xffff_ffff]);
                    if let Some(s) = self.streams.get_mut(&sid) {
                        s.peer_closed = true;
                        s.we_closed = true;
                        s.peer_reset = true;
                    }
                    self.peer(wire(3, 0, sid, &code.to_be_bytes()));
                }
            }
            81 => {
                let pl = self.rng.bytes(8);
                self.peer(wire(6, 0, 0, &pl));
            }
            82..=85 => {
                if let Some(k) = self.pick_slot() {
                    self.op(format!("cn_resp {}", k));
                }
            }
            86..=89 => {
                if let Some(k) = self.pick_slot() {
                    let a = self.op(format!("cn_read {}", k));
                    if let Some(rest) = Self::field(&a, "r=").strip_prefix("data:") {
                        let n: usize = rest.split(':').next().unwrap_or("0").parse().unwrap_or(0);
                        if n > 0 && self.rng.chance(3, 4) {
                            let m = if self.rng.chance(1, 2) { n } else { 1 + self.rng.below(n as u64) as usize };
                            self.op(format!("cn_release {} {}", k, m));
                        }
                    }
                }
            }
            90 => {
                let b = *self.rng.pick(&["0", "1", "9", "100", "20000", "inf", "inf"]);
                self.op(format!("cn_budget {}", b));
            }
            95 => {
                if let Some(k) = self.pick_slot() {
                    self.op(format!("cn_rtrailers {}", k));
                }
            }
            96 => {
                // the application asks for the pushes of a request
                if let Some(k) = self.pick_slot() {
                    self.op(format!("cn_takepushes {}", k));
                }
            }
            97 => {
                if let Some(k) = self.pick_slot() {
                    let a = self.op(format!("cn_pollpushed {}", k));
                    if let Some(rest) = Self::field(&a, "r=").strip_prefix("ok:") {
                        // a new slot: the future of the pushed response
                        let p: Vec<&str> = rest.split(':').collect();
                        let sid: u32 = p[1].parse().unwrap_or(0);
                        self.nslots += 1;
                        self.slot_sid.push(sid);
                        if let Some(s) = self.streams.get_mut(&sid) {
                            s.recv_dropped = false;
                        }
                    }
                }
            }
            98 if self.push_ok && self.peer_goaway_last.is_none() => {
                // peer: PUSH_PROMISE on a stream whose response it has not finished, promising its next even id
                let c = self.live_sids(|s| s.headers_seen && !s.peer_closed && !s.promised && !s.we_reset && !s.peer_reset);
                if !c.is_empty() && self.next_push_id < 0x7fff_fff0 {
                    let sid = *self.rng.pick(&c);
                    let promised = self.next_push_id;
                    self.next_push_id += 2;
                    let iws = self.our_iws;
                    self.streams.insert(
                        promised,
                        PeerStream { credit: iws, headers_seen: true, we_closed: true, promised: true, recv_dropped: true, ..Default::default() },
                    );
                    let mut pl = promised.to_be_bytes().to_vec();
                    pl.extend_from_slice(&[0x82, 0x86, 0x84, 0x41, 0x01, b'a']);
                    self.peer(wire(5, 4, sid, &pl));
                }
            }
            91 if !flow => {
                let t = *self.rng.pick(&[0u32, 1000, 65535, 100000, 1 << 20]);
                self.op(format!("cn_target {}", t));
            }
            92 if !flow => {
                let w = *self.rng.pick(&[0u32, 10, 1000, 65535, 100000]);
                self.op(format!("cn_iws {}", w));
            }
            93 => {
                self.op("cn_ready".to_string());
            }
            94 if !flow && self.rng.chance(1, 6) => {
                // peer GOAWAY
                let last = *self.rng.pick(&[0u32, 1, 3, 5, 0x7fff_ffff]);
                let code = *self.rng.pick(&[0u32, 0, 2]);
                let mut p = last.to_be_bytes().to_vec();
                p.extend_from_slice(&code.to_be_bytes());
                self.peer_goaway_last = Some(self.peer_goaway_last.map(|l| l.min(last)).unwrap_or(last));
                self.peer(wire(7, 0, 0, &p));
            }
            _ => {
                self.ack_settings();
                if self.rng.chance(1, 2) {
                    self.answer_pings();
                }
                self.op("cn_poll".to_string());
            }
        }
    }

    fn step_server(&mut self) {
        let r = self.rng.below(100);
        match r {
            0..=7 => {
                // peer opens a stream
                let sid = self.next_peer_sid;
                self.next_peer_sid += 2;
                let eos = self.rng.chance(1, 5);
                let mut block = vec![if self.rng.chance(1, 2) { 0x83 } else { 0x82 }, 0x86, 0x84, 0x41, 0x01, b'a'];
                match self.rng.below(40) {
                    0 => block = vec![0x82, 0x86, 0x41, 0x01, b'a'],                    // no :path
                    1 => block = vec![0x82, 0x84, 0x41, 0x01, b'a'],                    // no :scheme
                    2 => block = vec![0x86, 0x84, 0x41, 0x01, b'a'],                    // no :method
                    3 => block.push(0x88),                                              // :status in a request
                    4 => block.extend_from_slice(&[0x00, 0x0a, b'c', b'o', b'n', b'n', b'e', b'c', b't', b'i', b'o', b'n', 0x01, b'x']),
                    5 => block.extend_from_slice(&[0x00, 0x02, b't', b'e', 0x04, b'g', b'z', b'i', b'p']),
                    11 => block.extend_from_slice(&[0x00, 0x02, b't', b'e', 0x08, b't', b'r', b'a', b'i', b'l', b'e', b'r', b's',
                                                    0x00, 0x02, b't', b'e', 0x04, b'g', b'z', b'i', b'p']), // bad TE in a second field
                    12 => block.extend_from_slice(&[0x00, 0x02, b't', b'e', 0x08, b't', b'r', b'a', b'i', b'l', b'e', b'r', b's']), // fine
                    6 => block.push(0x82),                                              // duplicated :method
                    7 => block = vec![0x82, 0x86, 0x04, 0x00, 0x41, 0x01, b'a'],        // empty :path
                    8 => block = vec![0x82, 0x86],                                      // :method, :scheme and nothing else
                    9 => block = vec![0x02, 0x07, b'C', b'O', b'N', b'N', b'E', b'C', b'T'], // CONNECT without :authority
                    10 => block = vec![0x02, 0x07, b'C', b'O', b'N', b'N', b'E', b'C', b'T', 0x41, 0x03, b'a', b':', b'1'], // a proper CONNECT
                    13 => block = [vec![0x00, 0x03, b'x', b'-', b'a', 0x01, b'1'], block.clone()].concat(),   // pseudo-header fields after a regular one
                    14 => block = vec![0x82, 0x86, 0x84, 0x00, 0x03, b'x', b'-', b'a', 0x01, b'1', 0x41, 0x01, b'a'], // … one of them
                    _ => {}
                }
                let mut odd = false;
                if self.rng.chance(1, 8) {
                    block.extend_from_slice(&[0x0f, 0x0d, 0x02, b'1', b'0']); // content-length: 10
                    odd = true;
                    match self.rng.below(8) {
                        0 => block.extend_from_slice(&[0x0f, 0x0d, 0x02, b'1', b'0']), // the same value again
                        1 => block.extend_from_slice(&[0x0f, 0x0d, 0x01, b'7']),       // another value
                        _ => {}
                    }
                } else if self.rng.chance(1, 40) {
                    block.extend_from_slice(&[0x0f, 0x0d, 0x00]);                      // content-length with an empty value
                    odd = true;
                }
                let iws = self.our_iws;
                // (a stream opened after the endpoint has said GOAWAY lies above its cut-off: it is ignored, and so is
                //  what the catalogue would inject on it)
                let odd = odd || self.going_away();
                self.streams.insert(sid, PeerStream { credit: iws, headers_seen: true, peer_closed: eos, odd_head: odd, ..Default::default() });
                self.peer_head(sid, eos, &block);
            }
            8..=25 => {
                let c = self.live_sids(|s| !s.peer_closed);
                if !c.is_empty() {
                    let sid = *self.rng.pick(&c);
                    self.peer_data(sid);
                }
            }
            26..=28 => {
                let c = self.live_sids(|s| !s.peer_closed);
                if !c.is_empty() {
                    let sid = *self.rng.pick(&c);
                    if let Some(s) = self.streams.get_mut(&sid) {
                        s.peer_closed = true;
                        s.we_closed = true;
                        s.peer_reset = true;
                    }
                    let code = *self.rng.pick(&[8u32, 8, 0, 5]);
                    self.peer(wire(3, 0, sid, &code.to_be_bytes()));
                }
            }
            29..=36 => {
                let a = self.op("cn_accept".to_string());
                if let Some(rest) = Self::field(&a, "r=").strip_prefix("ok:") {
                    let p: Vec<&str> = rest.split(':').collect();
                    let sid: u32 = p[1].parse().unwrap_or(0);
                    self.nslots += 1;
                    self.slot_sid.push(sid);
                    self.accepted.insert(sid);
                }
            }
            37..=46 => {
                if let Some(k) = self.pick_slot() {
                    let a = self.op(format!("cn_read {}", k));
                    if let Some(rest) = Self::field(&a, "r=").strip_prefix("data:") {
                        let n: usize = rest.split(':').next().unwrap_or("0").parse().unwrap_or(0);
                        if n > 0 && self.rng.chance(3, 4) {
                            let m = if self.rng.chance(1, 2) { n } else { 1 + self.rng.below(n as u64) as usize };
                            self.op(format!("cn_release {} {}", k, m));
                        }
                    }
                }
            }
            47..=49 => {
                if let Some(k) = self.pick_slot() {
                    if self.rng.chance(1, 2) {
                        self.op(format!("cn_keepfc {}", k));
                    }
                    self.op(format!("cn_drop {} body", k));
                    if let Some(sid) = self.slot_sid.get(k).copied() {
                        if let Some(s) = self.streams.get_mut(&sid) {
                            s.recv_dropped = true;
                        }
                    }
                }
            }
            50..=56 => {
                if let Some(k) = self.pick_slot() {
                    let eos = self.rng.chance(1, 3);
                    let st = *self.rng.pick(&[200u16, 200, 204, 404, 500]);
                    self.op(format!("cn_respond {} {} {}", k, st, eos as u8));
                }
            }
            57..=58 => {
                if let Some(k) = self.pick_slot() {
                    self.op(format!("cn_inform {} 103", k));
                }
            }
            59..=68 => {
                if let Some(k) = self.pick_slot() {
                    let len = *self.rng.pick(&[0usize, 1, 100, 1000, 16384, 40000, 70000]);
                    let eos = self.rng.chance(1, 5);
                    self.op(format!("cn_data {} {} {}", k, len, eos as u8));
                }
            }
            69..=71 => {
                if let Some(k) = self.pick_slot() {
                    let code = *self.rng.pick(&[0u32, 8, 2, 7]);
                    self.op(format!("cn_reset {} {}", k, code));
                }
            }
            72..=75 => {
                if let Some(k) = self.pick_slot() {
                    let w = *self.rng.pick(&["send", "responder", "body", "all", "fc"]);
                    self.op(format!("cn_drop {} {}", k, w));
                    if ["resp", "body", "all", "responder"].contains(&w) {
                        if let Some(sid) = self.slot_sid.get(k).copied() {
                            if let Some(s) = self.streams.get_mut(&sid) {
                                s.recv_dropped = true;
                            }
                        }
                    }
                }
            }
            76..=79 => {
                let inc = *self.rng.pick(&[1u32, 1000, 16384, 65535, 100000]);
                let c = self.live_sids(|s| s.headers_seen);
                let sid = if self.rng.chance(1, 2) || c.is_empty() { 0 } else { *self.rng.pick(&c) };
                self.peer(wire(8, 0, sid, &inc.to_be_bytes()));
            }
            80..=81 => {
                let t = *self.rng.pick(&[0u32, 1000, 65535, 100000, 1 << 20]);
                self.op(format!("cn_target {}", t));
            }
            82..=83 => {
                let w = *self.rng.pick(&[0u32, 10, 1000, 65535, 100000]);
                self.op(format!("cn_iws {}", w));
            }
            84 => {
                let b = *self.rng.pick(&["0", "1", "9", "100", "20000", "inf", "inf"]);
                self.op(format!("cn_budget {}", b));
            }
            85 => {
                let pl = self.rng.bytes(8);
                self.peer(wire(6, 0, 0, &pl));
            }
            86 => {
                let mut p = vec![];
                if self.rng.chance(1, 2) {
                    let w = *self.rng.pick(&[0u32, 1000, 65535, 100000]);
                    p.extend_from_slice(&[0, 4]);
                    p.extend_from_slice(&w.to_be_bytes());
                }
                self.peer(wire(4, 0, 0, &p));
            }
            87 if self.rng.chance(1, 5) => {
                self.op("cn_graceful".to_string());
            }
            89..=91 => {
                // server push: promise a stream on a request that is still being answered and keep the handle (a new
                // slot: the pushed response is sent by the steps that follow, before or after the PUSH_PROMISE went out)
                if let Some(k) = self.pick_slot() {
                    let a = self.op(format!("cn_pushk {} /push{}", k, self.nslots));
                    if let Some(rest) = Self::field(&a, "r=").strip_prefix("ok:") {
                        let p: Vec<&str> = rest.split(':').collect();
                        let sid: u32 = p[1].parse().unwrap_or(0);
                        self.nslots += 1;
                        self.slot_sid.push(sid);
                    }
                }
            }
            92 => {
                if let Some(k) = self.pick_slot() {
                    self.op(format!("cn_push {} /dropped", k));
                }
            }
            88 => {
                if let Some(k) = self.pick_slot() {
                    self.op(format!("cn_trailers {}", k));
                }
            }
            _ => {
                self.ack_settings();
                if self.rng.chance(1, 2) {
                    self.answer_pings();
                }
                self.op("cn_poll".to_string());
            }
        }
    }

    /// the endpoint's send window for a stream (0 = the connection), read from the digest
    fn send_window(&self, sid: u32) -> i64 {
        let key = if sid == 0 { "C:".to_string() } else { format!("S{}:", sid) };
        for seg in self.last_st.split('|') {
            if let Some(rest) = seg.strip_prefix(key.as_str()) {
                let f: Vec<&str> = rest.split(',').collect();
                let idx = if sid == 0 { 0 } else { 1 };
                return f.get(idx).and_then(|x| x.parse().ok()).unwrap_or(0);
            }
        }
        0
    }

    /// has the endpoint announced a GOAWAY (digest `K:<state>,<going_away>,…`)?  From then on it may discard frames
    /// on stream ids above its cut-off without looking at them (RFC 9113 section 6.8)
    fn going_away(&self) -> bool {
        for seg in self.last_st.split('|') {
            if let Some(rest) = seg.strip_prefix("K:") {
                return rest.split(',').nth(1) == Some("1");
            }
        }
        false
    }

    /// C09: after a legal prefix inject ONE frame of a known class and watch the reaction.
    /// `conn` = must end in GOAWAY with an error code; `stream` = at least RST_STREAM for that stream;
    /// `tolerate` = no error at all, the connection keeps answering.
    fn inject_c09(&mut self) {
        let client = self.role == "client";
        self.op("cn_budget inf".to_string());
        self.ack_settings();
        self.op("cn_poll".to_string());
        if self.dead {
            return;
        }
        // streams by state, from the peer's point of view
        let cut = self.peer_goaway_last;
        let below_cut = move |sid: u32| client == false || cut.map(|l| sid <= l).unwrap_or(true);
        let open_both: Vec<u32> = self
            .live_sids(|s| s.headers_seen && !s.peer_closed && !s.we_closed && (s.responded || !client) && !s.odd_head)
            .into_iter()
            .filter(|sid| below_cut(*sid))
            .collect();
        let peer_done: Vec<u32> = self
            .live_sids(|s| s.headers_seen && s.peer_closed && !s.we_closed && s.responded)
            .into_iter()
            .filter(|sid| below_cut(*sid))
            .collect();
        // (for a client: an even id the scripted peer has not promised)
        let unused_peer_id: u32 = if client { self.next_push_id + 2 * self.rng.below(50) as u32 } else { self.next_peer_sid + 2 * self.rng.below(3) as u32 };
        let some_sid = *open_both.first().unwrap_or(&0);
        let mut cands: Vec<(&'static str, u32, Vec<u8>)> = vec![
            ("conn", 0, wire(0, 0, 0, b"abc")),                              // DATA on stream 0
            ("conn", 0, wire(1, 4, 0, &[0x88])),                             // HEADERS on stream 0
            ("conn", 0, wire(3, 0, 0, &8u32.to_be_bytes())),                 // RST_STREAM on stream 0
            ("conn", 0, wire(2, 0, 0, &[0, 0, 0, 1, 16])),                   // PRIORITY on stream 0
            ("conn", 0, wire(9, 4, 1, &[0x88])),                             // CONTINUATION without a header block
            ("conn", 0, wire(4, 0, 1, &[])),                                 // SETTINGS on a stream
            ("conn", 0, wire(6, 0, 1, &[0; 8])),                             // PING on a stream
            ("conn", 0, wire(7, 0, 1, &[0; 8])),                             // GOAWAY on a stream
            ("conn", 0, wire(6, 0, 0, &[0; 7])),                             // PING of 7 octets
            ("conn", 0, wire(3, 0, 1, &[0; 5])),                             // RST_STREAM of 5 octets
            ("conn", 0, wire(8, 0, 0, &[0; 3])),                             // WINDOW_UPDATE of 3 octets
            ("conn", 0, wire(4, 0, 0, &[0; 5])),                             // SETTINGS not a multiple of 6
            ("conn", 0, wire(4, 1, 0, &[0; 6])),                             // SETTINGS ACK with a payload
            ("conn", 0, wire(7, 0, 0, &[0; 7])),                             // GOAWAY of 7 octets
            ("conn", 0, wire(4, 0, 0, &[0, 2, 0, 0, 0, 2])),                 // ENABLE_PUSH = 2
            ("conn", 0, wire(4, 0, 0, &[0, 4, 0x80, 0, 0, 0])),              // INITIAL_WINDOW_SIZE = 2^31
            ("conn", 0, wire(4, 0, 0, &[0, 5, 0, 0, 0x3f, 0xff])),           // MAX_FRAME_SIZE = 2^14 - 1
            ("conn", 0, wire(8, 0, 0, &0u32.to_be_bytes())),                 // WINDOW_UPDATE(0) on the connection
            ("conn", 0, wire(1, 4, 1 + 2 * self.rng.below(3) as u32, &[0xff, 0xff, 0xff, 0xff, 0xff, 0x7f])), // HPACK integer overflow
            ("tolerate", 0, wire(6, 1, 0, &[9; 8])),                         // PING ACK nobody asked for
            ("tolerate", 0, wire(0x42, 0xff, 0, b"whatever")),               // unknown frame type
            ("tolerate", 0, wire(0x17, 0, 3, &[])),                          // unknown frame type on a stream
            ("tolerate", 0, wire(4, 0, 0, &[0, 0x99, 0, 0, 0, 7])),          // unknown setting
            ("tolerate", 0, wire(2, 0, 1 + 2 * self.rng.below(60) as u32, &[0, 0, 0, 0, 200])), // PRIORITY anywhere
            ("tolerate", 0, wire(2, 0, 2 + 2 * self.rng.below(60) as u32, &[0x80, 0, 0, 3, 0])),
        ];
        // a header block must be contiguous (RFC 9113 section 4.3): anything but the CONTINUATION of the same stream
        // between its fragments is a connection error — known types, other streams, and unknown types alike
        {
            let hsid = if client { some_sid.max(1) } else { self.next_peer_sid + 2 };
            let head = if client { wire(1, 0, hsid, &[0x88]) } else { wire(1, 0, hsid, &[0x82, 0x86, 0x84, 0x41, 0x01, b'a']) };
            let tail = wire(9, 4, hsid, &[0x00, 0x01, b'x', 0x01, b'y']);
            // a field block that stops in the middle of a field, in its last fragment as in its only one:
            // a decoding error is a connection error COMPRESSION_ERROR (RFC 9113 section 4.3)
            {
                let mut b = head.clone();
                b.extend(wire(9, 4, hsid, &[0x00, 0x05, b'x']));
                cands.push(("conn", 0, b));
                let mut b = head.clone();
                b.extend(wire(9, 0, hsid, &[0x00, 0x01, b'x', 0x01, b'y']));
                b.extend(wire(9, 4, hsid, &[0x00, 0x01, b'z', 0x09, b'v']));
                cands.push(("conn", 0, b));
            }
            for mid in [
                wire(0x2a, 0, hsid, b"ext"),                         // extension frame on the same stream
                wire(0x17, 0, 0, &[]),                               // extension frame on stream 0
                wire(6, 0, 0, &[1; 8]),                              // PING
                wire(8, 0, 0, &5u32.to_be_bytes()),                  // WINDOW_UPDATE
                wire(9, 4, hsid + 2, &[0x00, 0x01, b'x', 0x01, b'y']), // CONTINUATION of another stream
                wire(0, 0, hsid, b"d"),                              // DATA
            ] {
                let mut b = head.clone();
                b.extend(mid);
                b.extend(tail.clone());
                cands.push(("conn", 0, b));
            }
        }
        let n_generic = cands.len();
        // a header block that never ends: a field with a huge declared length keeps HPACK waiting for more, so the block
        // never gets over size; only the limit on the number of CONTINUATION frames (derived from max_header_list_size)
        // stands between the peer and unbounded buffering.  With max_header_list_size = 16 KiB a handful is allowed.
        if self.mhl.is_some() {
            let hsid = if client { some_sid.max(1) } else { self.next_peer_sid + 2 };
            let mut payload = if client { vec![0x88] } else { vec![0x82, 0x86, 0x84, 0x41, 0x01, b'a'] };
            payload.extend_from_slice(&[0x00, 0x01, b'x', 0x7f]);
            let mut n: u64 = 134_217_728 - 127;
            while n >= 128 {
                payload.push((n % 128) as u8 | 0x80);
                n /= 128;
            }
            payload.push(n as u8);
            let mut b = wire(1, 0, hsid, &payload);
            for _ in 0..12 {
                b.extend(wire(9, 0, hsid, &[b'v'; 40]));
            }
            if client == false || some_sid != 0 {
                cands.push(("connflood", 0, b.clone()));
                cands.push(("connflood", 0, b));
            }
        }
        if self.dfb.is_some() {
            // a flood of tiny DATA frames that nobody reads: each costs the receiver far more than its payload; the
            // budget for that (data_frame_budget) cuts the connection off — whether the octets that make the frame
            // look bigger are payload or padding (C18)
            if let Some(sid) = open_both.first() {
                let c = self.streams[sid].credit.min(self.conn_credit);
                if c >= 14 && !self.streams[sid].recv_dropped {
                    let mut b = vec![];
                    for _ in 0..14 {
                        b.extend(wire(0, 0, *sid, b"t"));
                    }
                    cands.push(("connflood", 0, b.clone()));
                    cands.push(("connflood", 0, b));
                }
                if c >= 14 * 257 && !self.streams[sid].recv_dropped {
                    let mut b = vec![];
                    let mut pl = vec![255u8, b't'];
                    pl.extend(std::iter::repeat(0u8).take(255));
                    for _ in 0..14 {
                        b.extend(wire(0, 8, *sid, &pl));
                    }
                    cands.push(("connflood", 0, b.clone()));
                    cands.push(("connflood", 0, b));
                }
            }
        }
        if client && some_sid != 0 {
            // more pushed responses than the client's max_concurrent_streams allows at once: the surplus is refused,
            // the connection survives (F31: it used to panic)
            let p1 = self.next_push_id + 2 * (self.rng.below(30) as u32 + 100);
            let mut b = vec![];
            for k in 0..3u32 {
                b.extend(wire(5, 4, some_sid, &[&(p1 + 2 * k).to_be_bytes()[..], &[0x82, 0x86, 0x84, 0x41, 0x01, b'a']].concat()));
            }
            for k in 0..3u32 {
                b.extend(wire(1, 4, p1 + 2 * k, &[0x88]));
            }
            cands.push(("nokill", p1 + 4, b));
        }
        // (a stream id the endpoint has never seen: judged only while the endpoint has not sent a GOAWAY — after
        //  one it ignores every frame on an id above its cut-off, whatever the id's parity)
        let fresh_ids_judged = !self.going_away();
        if client {
            if fresh_ids_judged {
                cands.push(("conn", 0, wire(1, 4, unused_peer_id, &[0x88])));                     // server opens a stream with HEADERS
            }
            cands.push(("conn", 0, wire(5, 4, some_sid.max(1), &[0, 0, 0, 1, 0x82, 0x86, 0x84]))); // PUSH_PROMISE promising an odd id
        } else {
            cands.push(("conn", 0, wire(5, 4, 1, &[0, 0, 0, 2, 0x82, 0x86, 0x84])));              // PUSH_PROMISE to a server
            // (an even id the endpoint has not promised itself)
            let even = self.max_promised + 2 + 2 * self.rng.below(5) as u32;
            if fresh_ids_judged {
                cands.push(("conn", 0, wire(1, 4, even, &[0x82, 0x86, 0x84])));                   // client uses an even id
            }
            if self.next_peer_sid > 3 && self.streams.get(&1).map(|s| !s.we_reset && !s.peer_reset).unwrap_or(true) {
                cands.push(("streamorconn", 1, wire(1, 4, 1, &[0x00, 0x01, b'a', 0x01, b'b'])));  // a second HEADERS without END_STREAM on an old stream
            }
        }
        if self.send_window(0) >= 1 {
            cands.push(("conn", 0, wire(8, 0, 0, &0x7fff_ffffu32.to_be_bytes())));                // connection window overflow
        }
        if let Some(sid) = open_both.first() {
            // more than the connection's receive window allows: connection error FLOW_CONTROL_ERROR
            let cc = self.conn_credit;
            if cc >= 0 && cc + 1 <= 16384 && self.streams[sid].credit >= cc + 1 {
                cands.push(("conn", 0, wire(0, 0, *sid, &vec![b'o'; (cc + 1) as usize])));
            }
        }
        if let Some(sid) = open_both.first() {
            cands.push(("stream", *sid, wire(8, 0, *sid, &0u32.to_be_bytes())));                  // WINDOW_UPDATE(0) on a stream
            if self.send_window(*sid) >= 1 {
                cands.push(("stream", *sid, wire(8, 0, *sid, &0x7fff_ffffu32.to_be_bytes())));    // stream window overflow
            }
            if self.streams[sid].credit >= 5 && self.conn_credit >= 5 {
                cands.push(("tolerate", *sid, wire(0, 8, *sid, &[3, b'x', 0, 0, 0])));            // padded DATA
            }
            // one octet more than the stream's receive window allows (the connection window has room): the endpoint
            // MUST answer with a stream or connection error of type FLOW_CONTROL_ERROR (RFC 9113 section 6.9.1)
            let c = self.streams[sid].credit;
            if std::env::var("H2V_GEN_DEBUG").is_ok() {
                eprintln!("c09 cand sid={} dropped={} slot_sid={:?}", sid, self.streams[sid].recv_dropped, self.slot_sid);
            }
            if c >= 0 && c + 1 <= 16384 && self.conn_credit >= c + 1 && !self.streams[sid].recv_dropped {
                cands.push(("streamorconn", *sid, wire(0, 0, *sid, &vec![b'o'; (c + 1) as usize])));
                // a legal padded frame first (its padding is released at once, before any WINDOW_UPDATE is due), then
                // one octet more than what is left of the window
                if c >= 10 {
                    let mut b = wire(0, 8, *sid, &[3, b'x', 0, 0, 0]);
                    b.extend(wire(0, 0, *sid, &vec![b'o'; (c - 5 + 1) as usize]));
                    cands.push(("streamorconn", *sid, b));
                }
                // the same with part of it as padding
                if c >= 3 {
                    let mut pl = vec![2u8];
                    pl.extend(vec![b'o'; (c - 2) as usize]);
                    pl.extend([0u8, 0]);
                    cands.push(("streamorconn", *sid, wire(0, 8, *sid, &pl)));
                }
            }
        }
        if let Some(sid) = peer_done.first() {
            if self.conn_credit >= 4 {
                cands.push(("streamorconn", *sid, wire(0, 0, *sid, b"late")));                    // DATA after END_STREAM
            }
            if self.send_window(*sid) < 0x7fff_0000 {
                cands.push(("tolerate", *sid, wire(8, 0, *sid, &5u32.to_be_bytes())));            // WINDOW_UPDATE on a half-closed stream
            }
        }
        // frames for a stream the endpoint has just reset (it must tolerate what was in flight)
        let reset_by_us: Vec<u32> = self.streams.iter().filter(|(_, s)| s.we_reset && !s.peer_reset && s.headers_seen).map(|(k, _)| *k).collect();
        // `tolerate` when the tolerance window is the configured default (30 s, 10 streams); with a window of
        // zero seconds or streams the endpoint may answer with another RST_STREAM, but must not kill the connection
        // (STREAM_CLOSED was the answer to a frame on a stream the endpoint had already forgotten: same there)
        let forgotten = reset_by_us.last().map(|sid| [5u32, 7].contains(&self.streams[sid].we_reset_code)).unwrap_or(false);
        let race = if self.reset_default && reset_by_us.len() <= 10 && !forgotten { "tolerate" } else { "nokill" };
        if let Some(sid) = reset_by_us.last() {
            if self.conn_credit >= 9 {
                cands.push((race, *sid, wire(0, 0, *sid, b"in flight")));
            }
            if self.send_window(*sid) < 0x7fff_0000 {
                cands.push((race, *sid, wire(8, 0, *sid, &100u32.to_be_bytes())));
            }
            cands.push((race, *sid, wire(3, 0, *sid, &8u32.to_be_bytes())));
            if client {
                cands.push((race, *sid, wire(1, 5, *sid, &[0x88])));
                // a push promised before the peer saw our reset, and the pushed response after it (F20)
                let promised = self.next_push_id + 2 * (self.rng.below(40) as u32 + 50);
                let mut b = wire(5, 4, *sid, &[&promised.to_be_bytes()[..], &[0x82, 0x86, 0x84, 0x41, 0x01, b'a']].concat());
                b.extend(wire(1, 5, promised, &[0x88]));
                if self.reset_default && reset_by_us.len() <= 10 {
                    // the endpoint refuses the promised stream; it must not die
                    cands.push(("nokill", promised, b));
                }
            }
        }
        // the state-dependent entries (everything after the generic ones) are the rarer and more interesting half
        let pick = if cands.len() > n_generic && self.rng.chance(3, 5) {
            n_generic + self.rng.below((cands.len() - n_generic) as u64) as usize
        } else {
            self.rng.below(cands.len() as u64) as usize
        };
        let (class, sid, bytes) = cands[pick].clone();
        self.op(format!("cn_note c09 {} {}", class, sid));
        self.peer(bytes);
        self.op("cn_poll".to_string());
        self.op("cn_note c09 probe 0".to_string());
        // is the endpoint still answering?
        self.peer(wire(6, 0, 0, &[0xc0, 9, 0xc0, 9, 0xc0, 9, 0xc0, 9]));
        self.op("cn_poll".to_string());
        self.op("cn_note c09 verdict 0".to_string());
    }

    /// cooperative drain: acknowledge settings, open budgets, poll until nothing moves
    /// C07: end the connection in one of the ways a connection ends, drop the connection object, then ask every
    /// handle once more: nothing may stay pending.  Optionally with a user ping whose pong has arrived but has
    /// not been collected yet.
    fn ending_epilogue(&mut self) {
        let ping = self.rng.chance(1, 3);
        if ping {
            self.op("cn_takeping".to_string());
            let a = self.op("cn_ping".to_string());
            if Self::field(&a, "r=") == "ok" {
                let a = self.op("cn_poll".to_string());
                // echo the user ping
                self.pongs_owed.clear();
                let tx = Self::field(&a, "tx=").to_string();
                for f in tx.split(';') {
                    let p: Vec<&str> = f.split(':').collect();
                    if p.len() == 4 && p[0] == "P" && p[2] == "0" {
                        if let Some(b) = crate::util::unhex(p[3]) {
                            self.peer(wire(6, 1, 0, &b));
                        }
                    }
                }
                if self.rng.chance(2, 3) {
                    self.op("cn_poll".to_string());
                }
                if self.rng.chance(1, 3) {
                    self.op("cn_pollpong".to_string());
                }
            }
        }
        if self.rng.chance(1, 2) {
            // a stream still in progress, with live handles, when the end comes
            if self.role == "client" {
                self.req(false, "POST");
                self.op("cn_poll".to_string());
            } else {
                let sid = self.next_peer_sid;
                self.next_peer_sid += 2;
                let iws = self.our_iws;
                self.streams.insert(sid, PeerStream { credit: iws, headers_seen: true, ..Default::default() });
                self.peer(wire(1, 4, sid, &[0x83, 0x86, 0x84, 0x41, 0x01, b'a']));
                self.op("cn_poll".to_string());
                let a = self.op("cn_accept".to_string());
                if let Some(rest) = Self::field(&a, "r=").strip_prefix("ok:") {
                    let p: Vec<&str> = rest.split(':').collect();
                    let sid: u32 = p[1].parse().unwrap_or(0);
                    self.nslots += 1;
                    self.slot_sid.push(sid);
                    self.accepted.insert(sid);
                }
            }
        }
        if self.role == "server" && self.rng.chance(1, 3) {
            // graceful shutdown: GOAWAY(2^31-1) + PING, the final GOAWAY once that PING is acknowledged
            self.op("cn_graceful".to_string());
            self.op("cn_poll".to_string());
            self.answer_pings();
            self.op("cn_poll".to_string());
            self.op("cn_poll".to_string());
            self.op("cn_io".to_string());
        }
        if self.rng.chance(1, 3) && self.nslots > 0 && !self.dead {
            // the end comes while the codec cannot take another frame: a DATA frame is half written and the
            // transport refuses more.  Whatever GOAWAY is owed then has to wait, and must still go out.
            let k = self.nslots - 1;
            if self.role == "server" {
                self.op(format!("cn_respond {} 200 0", k));
            }
            let len = *self.rng.pick(&[5000usize, 16384, 20000]);
            self.op(format!("cn_data {} {} 0", k, len));
            let b = *self.rng.pick(&[0usize, 9, 100, 1500]);
            self.op(format!("cn_budget {}", b));
            self.op("cn_poll".to_string());
            match self.rng.below(3) {
                0 if self.role == "server" => {
                    let code = *self.rng.pick(&[0u32, 2, 11]);
                    self.op(format!("cn_abrupt {}", code));
                }
                1 if self.role == "server" => {
                    self.op("cn_graceful".to_string());
                }
                _ => {
                    self.peer(wire(0, 0, 0, b"x")); // DATA on stream 0: a fatal protocol error, GOAWAY owed
                }
            }
            self.op("cn_poll".to_string());
            if self.rng.chance(1, 2) {
                self.op("cn_poll".to_string());
            }
            self.op("cn_budget inf".to_string());
            self.op("cn_poll".to_string());
            self.answer_pings();
            self.op("cn_poll".to_string());
            self.op("cn_poll".to_string());
            self.op("cn_io".to_string());
        }
        if self.role == "client" && self.rng.chance(1, 4) && !self.dead {
            // the application lets go of everything: the idle client says GOAWAY(NO_ERROR), shuts the transport down and
            // finishes — at once, or, when the transport does not take its goodbye, as soon as it does; it does not spin
            // meanwhile (C19 / C08)
            let blocked = self.rng.chance(1, 2);
            if blocked {
                self.op("cn_budget 0".to_string());
            }
            for k in 0..self.nslots {
                self.op(format!("cn_drop {} all", k));
            }
            self.op("cn_drop_sr main".to_string());
            for _ in 0..5 {
                self.op("cn_poll".to_string());
            }
            if blocked {
                self.op("cn_budget inf".to_string());
                self.op("cn_poll".to_string());
                self.op("cn_poll".to_string());
            }
            self.op("cn_io".to_string());
        }
        match self.rng.below(9) {
            0 => {
                self.op("cn_eof".to_string());
                self.op("cn_poll".to_string());
            }
            7 | 8 => {
                // two GOAWAYs with the same last-stream-id: a graceful notice, then the real reason (code and
                // debug data of the LAST one are what the connection reports)
                let last: u32 = if self.rng.chance(1, 2) { 0x7fff_ffff } else { 2 * self.rng.below(8) as u32 + 1 };
                let mut g1 = last.to_be_bytes().to_vec();
                g1.extend_from_slice(&[0, 0, 0, 0]);
                self.peer(wire(7, 0, 0, &g1));
                if self.rng.chance(1, 2) {
                    self.op("cn_poll".to_string());
                }
                // … or, after a notice that covers everything, the real cut-off: streams above it are refused by the
                // SECOND frame and report ITS code and debug data (C17)
                let last2: u32 = if last == 0x7fff_ffff && self.rng.chance(2, 3) { 2 * self.rng.below(6) as u32 + 1 } else { last };
                let mut g2 = last2.to_be_bytes().to_vec();
                g2.extend_from_slice(&[0, 0, 0, 11]);
                g2.extend_from_slice(b"too_many_pings");
                self.peer(wire(7, 0, 0, &g2));
                self.op("cn_poll".to_string());
                self.op("cn_eof".to_string());
                self.op("cn_poll".to_string());
                self.op("cn_poll".to_string());
            }
            1 => {
                let k = *self.rng.pick(&["UnexpectedEof", "UnexpectedEof", "ConnectionReset", "BrokenPipe", "TimedOut", "Other"]);
                self.op(format!("cn_rderr {}", k));
                self.op("cn_poll".to_string());
            }
            2 => {
                let k = *self.rng.pick(&["ConnectionReset", "BrokenPipe", "TimedOut", "Other"]);
                self.op(format!("cn_wrerr {}", k));
                self.op("cn_poll".to_string());
            }
            3 => {
                // GOAWAY from the peer that covers everything, then a clean EOF
                self.peer(wire(7, 0, 0, &[0x7f, 0xff, 0xff, 0xff, 0, 0, 0, 0]));
                if self.rng.chance(1, 2) {
                    self.op("cn_poll".to_string());
                }
                self.op("cn_eof".to_string());
                self.op("cn_poll".to_string());
            }
            4 => {
                self.peer(wire(7, 0, 0, &[0, 0, 0, 0, 0, 0, 0, 2]));
                self.op("cn_poll".to_string());
            }
            5 => {
                self.peer(wire(0, 0, 0, b"x")); // DATA on stream 0: a fatal protocol error
                self.op("cn_poll".to_string());
            }
            _ => {}
        }
        self.op("cn_dropconn".to_string());
        let lo = self.nslots.saturating_sub(6);
        for k in lo..self.nslots {
            if self.role == "client" {
                self.op(format!("cn_resp {}", k));
            }
            for _ in 0..40 {
                // everything that was received before the end is still delivered
                let a = self.op(format!("cn_read {}", k));
                if !Self::field(&a, "r=").starts_with("data:") {
                    break;
                }
            }
            self.op(format!("cn_pollcap {}", k));
            self.op(format!("cn_pollreset {}", k));
            self.op(format!("cn_rtrailers {}", k));
        }
        if self.role == "client" {
            self.op("cn_ready".to_string());
        }
        if ping {
            self.op("cn_pollpong".to_string());
            self.op("cn_ping".to_string());
            self.op("cn_pollpong".to_string());
        }
    }

    /// the application reads what the last few exchanges have delivered, to the end (what h2 hands over — heads,
    /// bodies, clean ends, trailers — is what the C13 / C01 rules judge)
    fn read_all(&mut self) {
        self.op("cn_budget inf".to_string());
        self.op("cn_poll".to_string());
        let lo = self.nslots.saturating_sub(6);
        for k in lo..self.nslots {
            if self.dead {
                return;
            }
            if self.role == "client" {
                self.op(format!("cn_resp {}", k));
            }
            for _ in 0..40 {
                let a = self.op(format!("cn_read {}", k));
                match Self::field(&a, "r=").strip_prefix("data:") {
                    Some(rest) => {
                        let n: usize = rest.split(':').next().unwrap_or("0").parse().unwrap_or(0);
                        if n > 0 {
                            self.op(format!("cn_release {} {}", k, n));
                        }
                    }
                    None => break,
                }
            }
            self.op(format!("cn_rtrailers {}", k));
        }
    }

    fn drain(&mut self) {
        self.op("cn_budget inf".to_string());
        for _ in 0..6 {
            self.ack_settings();
            self.answer_pings();
            let a = self.op("cn_poll".to_string());
            if Self::field(&a, "tx=") == "-" && self.settings_to_ack == 0 {
                break;
            }
        }
        self.op("cn_io".to_string());
    }
}

pub fn generate(profile: &str, rng: &mut Rng, cases: usize, out: &mut dyn Write) -> bool {
    let (role, flavor): (&'static str, &'static str) = match profile {
        "conn-client" => ("client", "mixed"),
        "conn-client-flow" => ("client", "flow"),
        "conn-server" => ("server", "mixed"),
        "conn-c09-client" => ("client", "c09"),
        "conn-c09-server" => ("server", "c09"),
        _ => return false,
    };
    for _ in 0..cases {
        let mut opts = vec![];
        let mut our_iws = 65535i64;
        let mut cws = 65535i64;
        if rng.chance(1, 3) {
            our_iws = *rng.pick(&[0i64, 1000, 100, 200000, 65535]);
            opts.push(format!("iws={}", our_iws));
        }
        if rng.chance(1, 4) {
            cws = *rng.pick(&[65535i64, 100000, 1 << 20]);
            opts.push(format!("cws={}", cws));
        }
        if rng.chance(1, 3) || (flavor == "c09" && role == "server" && rng.chance(1, 3)) {
            opts.push(format!("mcs={}", *rng.pick(&[0u32, 1, 2, 5, 1, 1])));
        }
        if rng.chance(1, 3) {
            opts.push(format!("sendbuf={}", *rng.pick(&[0usize, 10, 1000, 100000])));
        }
        if rng.chance(1, 5) {
            opts.push(format!("reset_max={}", *rng.pick(&[0usize, 1, 3])));
        }
        if rng.chance(1, 6) {
            opts.push("reset_secs=0".to_string());
        }
        let mut mhl = None;
        if flavor == "c09" && rng.chance(1, 4) {
            mhl = Some(16384usize);
            opts.push("mhl=16384".to_string());
        } else if flavor != "c09" && rng.chance(1, 6) {
            // a header-list limit small enough that ordinary heads with one field more exceed it: the library answers
            // 431 / resets by itself (those streams count and are released like any other)
            let m = *rng.pick(&[64usize, 200, 200]);
            mhl = Some(m);
            opts.push(format!("mhl={}", m));
        }
        let mut dfb = None;
        if flavor == "c09" && rng.chance(1, 4) {
            dfb = Some(3000usize);
            opts.push("budget=3000".to_string());
        }
        let mut g = G {
            rng,
            out,
            dfb,
            cn: ConnH::none(),
            role,
            nslots: 0,
            slot_sid: vec![],
            streams: BTreeMap::new(),
            conn_credit: 65535,
            // the peer must assume the default window until it has seen and acknowledged our SETTINGS
            our_iws: 65535,
            pending_iws: None,
            settings_to_ack: 0,
            pongs_owed: vec![],
            mhl,
            next_peer_sid: 1,
            woken: BTreeSet::new(),
            dead: false,
            last_st: String::new(),
            reset_default: !opts.iter().any(|o: &String| o.starts_with("reset_")),
            peer_goaway_last: None,
            last_was_poll: false,
            next_push_id: 2,
            max_promised: 0,
            push_ok: role == "client" && !opts.iter().any(|o: &String| o.starts_with("push=0")),
            accepted: BTreeSet::new(),
            flavor,
        };
        let _ = (our_iws, cws, g.role);
        g.op(format!("cn_new {} {}", role, opts.join(" ")));
        if role == "client" {
            // the server's SETTINGS
            let mut p = vec![];
            if g.rng.chance(1, 3) {
                let w = *g.rng.pick(&[0u32, 1, 1000, 65535, 100000]);
                p.extend_from_slice(&[0, 4]);
                p.extend_from_slice(&w.to_be_bytes());
            }
            if g.rng.chance(1, 3) {
                let m = *g.rng.pick(&[0u32, 1, 2, 100]);
                p.extend_from_slice(&[0, 3]);
                p.extend_from_slice(&m.to_be_bytes());
            }
            g.peer(wire(4, 0, 0, &p));
        }
        g.op("cn_poll".to_string());
        g.ack_settings();
        g.op("cn_poll".to_string());
        if role == "client" && flavor != "c09" && g.rng.chance(1, 6) {
            g.slot_recycle_prelude();
        }
        if flavor != "c09" && g.rng.chance(1, 6) {
            g.late_release_prelude();
        }
        if flavor != "c09" && g.rng.chance(1, 6) {
            g.window_in_flight_prelude();
        }
        if flavor != "c09" && g.rng.chance(1, 6) {
            g.unread_drop_prelude();
        }
        if role == "client" && flavor != "c09" && g.rng.chance(1, 5) {
            g.push_prelude();
        }
        if role == "server" && flavor != "c09" && g.rng.chance(1, 6) {
            g.server_push_prelude();
        }
        let nops = if flavor == "c09" { 5 + g.rng.below(60) } else { 20 + g.rng.below(180) };
        // in half of the histories the connection is often polled right after a single operation, although nobody
        // may have woken it: such a poll must find nothing to write (C06: a handle that gives the connection work
        // wakes it) — with long gaps between polls the operation that forgot the wake-up hides behind the others
        let probe_polls = flavor != "c09" && g.rng.chance(1, 2);
        for _ in 0..nops {
            if g.dead {
                break;
            }
            if role == "client" {
                g.step_client();
            } else {
                g.step_server();
            }
            if probe_polls && !g.last_was_poll && !g.dead && g.rng.chance(1, 3) {
                g.op("cn_poll".to_string());
            }
        }
        if !g.dead && flavor == "c09" {
            g.inject_c09();
        } else if !g.dead {
            if g.rng.chance(1, 2) {
                g.read_all();
            }
            g.drain();
            if g.rng.chance(1, 3) {
                g.ending_epilogue();
            }
        }
    }
    true
}
