//! Interpreter of the pure-layer commands against the REAL code (via `h2::verif_hooks`).
//! Same commands, same answer format as the Lean driver `H2V/Driver/Core.lean`.

use crate::util::{hex, unhex};
use h2::verif_hooks::hpack as hk;

pub struct Pure {
    dec: hk::Dec,
    enc: hk::Enc,
    // what the real decoder did on the current header block (answers `spec_dec_block`)
    blk_fields: Vec<(Vec<u8>, Vec<u8>)>,
    blk_err: Option<String>,
    blk_last: Option<String>,
}

impl Pure {
    pub fn new() -> Pure {
        Pure { dec: hk::Dec::new(4096), enc: hk::Enc::new(4096, 0), blk_fields: vec![], blk_err: None, blk_last: None }
    }

    pub fn handle(&mut self, ws: &[&str]) -> Option<String> {
        match ws {
            ["huff_enc", h] => Some(hex(&hk::huffman_encode(&unhex(h)?))),
            ["huff_dec", h] => Some(match hk::huffman_decode(&unhex(h)?) {
                Ok(v) => format!("ok {}", hex(&v)),
                Err(e) => format!("err {}", e),
            }),
            ["int_dec", p, h] => {
                let p: u8 = p.parse().ok()?;
                let bs = unhex(h)?;
                Some(match hk::decode_int(&bs, p) {
                    Ok((v, rest)) => format!("ok {} {}", v, rest),
                    Err(e) => format!("err {}", e),
                })
            }
            ["int_enc", v, p, f] => {
                let v: usize = v.parse().ok()?;
                let p: usize = p.parse().ok()?;
                let f: u8 = f.parse().ok()?;
                Some(hex(&hk::encode_int(v, p, f)))
            }
            ["dec_new", n] => {
                self.dec = hk::Dec::new(n.parse().ok()?);
                Some("ok".into())
            }
            ["dec_queue", n] => {
                self.dec.queue_size_update(n.parse().ok()?);
                Some("ok".into())
            }
            ["dec_newblock"] => {
                self.blk_fields.clear();
                self.blk_err = None;
                self.blk_last = None;
                self.dec.new_block();
                Some("ok".into())
            }
            ["dec_feed", h] => {
                let bs = unhex(h)?;
                let (fields, res, tail) = self.dec.feed(&bs);
                let (ents, size, max, _last) = self.dec.table();
                let n = ents.len();
                let fs = if fields.is_empty() {
                    "-".to_string()
                } else {
                    fields
                        .iter()
                        .map(|(n, v)| format!("{}:{}", hex(n), hex(v)))
                        .collect::<Vec<_>>()
                        .join(",")
                };
                let r = match res {
                    Ok(()) => "ok".to_string(),
                    Err(e) => e,
                };
                // framing-layer view: a non-final fragment may end in NeedMore; anything else is fatal
                if let Some(prev) = self.blk_last.take() {
                    if prev != "ok" && !prev.starts_with("NeedMore") && self.blk_err.is_none() {
                        self.blk_err = Some(prev);
                    }
                }
                self.blk_fields.extend(fields.iter().cloned());
                self.blk_last = Some(r.clone());
                Some(format!("res={} tail={} size={} max={} n={} fields={}", r, tail, size, max, n, fs))
            }
            ["enc_new", n, cap] => {
                self.enc = hk::Enc::new(n.parse().ok()?, cap.parse().ok()?);
                Some("ok".into())
            }
            ["enc_max", n] => {
                self.enc.update_max_size(n.parse().ok()?);
                Some("ok".into())
            }
            ["enc_block", f] => {
                let mut fields = vec![];
                if *f != "-" {
                    for w in f.split(',') {
                        let p: Vec<&str> = w.split(':').collect();
                        if p.len() != 3 {
                            return None;
                        }
                        fields.push((unhex(p[0])?, unhex(p[1])?, p[2].contains('s'), p[2].contains('n')));
                    }
                }
                Some(match self.enc.encode(&fields) {
                    Ok(bytes) => {
                        let (ents, size, max) = self.enc.table();
                        format!("{} size={} max={} n={}", hex(&bytes), size, max, ents.len())
                    }
                    Err(e) => format!("err {}", e),
                })
            }
            ["spec_huff_dec", h] => Some(match hk::huffman_decode(&unhex(h)?) {
                Ok(v) => format!("ok {}", hex(&v)),
                Err(_) => "err".to_string(),
            }),
            ["spec_dec_new", _] | ["spec_dec_queue", _] => Some("ok".into()),
            ["spec_dec_block", _h] => {
                // the last fragment carried END_HEADERS: any error there (NeedMore included) is fatal
                let mut err = self.blk_err.clone();
                if err.is_none() {
                    match self.blk_last.as_deref() {
                        Some("ok") => {}
                        Some(e) => err = Some(e.to_string()),
                        None => err = Some("no-fragment".into()),
                    }
                }
                Some(match err {
                    Some(e) => format!("res=err kind={}", e),
                    None => {
                        let (ents, size, _max, _last) = self.dec.table();
                        let fs = if self.blk_fields.is_empty() {
                            "-".to_string()
                        } else {
                            self.blk_fields
                                .iter()
                                .map(|(n, v)| format!("{}:{}", hex(n), hex(v)))
                                .collect::<Vec<_>>()
                                .join(",")
                        };
                        format!("res=ok size={} n={} fields={}", size, ents.len(), fs)
                    }
                })
            }
            _ => None,
        }
    }
}
