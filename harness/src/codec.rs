//! Codec level: the REAL `h2::Codec` over an in-memory transport.
//! Read side: `rd_*` commands feed wire bytes in arbitrary chunks and render the frames / errors
//! that come out.  Write side: `wr_*` commands buffer frames and flush them against a scripted
//! write budget.  Rendering is canonical and shared with the Lean driver (`H2V/Driver/Codec.lean`).

use crate::util::{hex, unhex, Rng};
use bytes::Bytes;
use futures_core::Stream;
use h2::frame::{self, Frame};
use std::io::Write;
use std::pin::Pin;
use std::sync::{Arc, Mutex};
use std::task::{Context, Poll, Wake, Waker};
use tokio::io::{AsyncRead, AsyncWrite, ReadBuf};

#[derive(Default)]
pub struct IoInner {
    pub rd: Vec<u8>,
    pub eof: bool,
    pub wr: Vec<u8>,
    /// per `poll_write` call: how many bytes to accept (None = Pending). Empty script = accept all.
    pub wscript: std::collections::VecDeque<Option<usize>>,
    pub wlog: Vec<String>,
    /// `poll_shutdown` was called
    pub shut: bool,
}

#[derive(Clone, Default)]
pub struct Io(pub Arc<Mutex<IoInner>>);

impl std::fmt::Debug for Io {
    fn fmt(&self, f: &mut std::fmt::Formatter<'_>) -> std::fmt::Result {
        write!(f, "Io")
    }
}

impl AsyncRead for Io {
    fn poll_read(self: Pin<&mut Self>, _cx: &mut Context<'_>, buf: &mut ReadBuf<'_>) -> Poll<std::io::Result<()>> {
        let mut i = self.0.lock().unwrap();
        if i.rd.is_empty() {
            return if i.eof { Poll::Ready(Ok(())) } else { Poll::Pending };
        }
        let n = buf.remaining().min(i.rd.len());
        let d: Vec<u8> = i.rd.drain(..n).collect();
        buf.put_slice(&d);
        Poll::Ready(Ok(()))
    }
}

impl AsyncWrite for Io {
    fn poll_write(self: Pin<&mut Self>, _cx: &mut Context<'_>, b: &[u8]) -> Poll<std::io::Result<usize>> {
        let mut i = self.0.lock().unwrap();
        match i.wscript.pop_front() {
            None => {
                i.wr.extend_from_slice(b);
                Poll::Ready(Ok(b.len()))
            }
            Some(None) => Poll::Pending,
            Some(Some(k)) => {
                let n = k.min(b.len());
                i.wr.extend_from_slice(&b[..n]);
                Poll::Ready(Ok(n))
            }
        }
    }
    fn poll_flush(self: Pin<&mut Self>, _cx: &mut Context<'_>) -> Poll<std::io::Result<()>> {
        Poll::Ready(Ok(()))
    }
    fn poll_shutdown(self: Pin<&mut Self>, _cx: &mut Context<'_>) -> Poll<std::io::Result<()>> {
        self.0.lock().unwrap().shut = true;
        Poll::Ready(Ok(()))
    }
}

struct Noop;
impl Wake for Noop {
    fn wake(self: Arc<Self>) {}
}
pub fn noop_waker() -> Waker {
    Waker::from(Arc::new(Noop))
}

fn opt_hex(o: Option<&[u8]>) -> String {
    match o {
        None => "~".into(),
        Some(b) => hex(b),
    }
}

fn render_pseudo(p: &frame::Pseudo) -> String {
    format!(
        "m={} s={} a={} p={} pr={} st={}",
        opt_hex(p.method.as_ref().map(|m| m.as_str().as_bytes())),
        opt_hex(p.scheme.as_ref().map(|s| AsRef::<[u8]>::as_ref(s))),
        opt_hex(p.authority.as_ref().map(|s| AsRef::<[u8]>::as_ref(s))),
        opt_hex(p.path.as_ref().map(|s| AsRef::<[u8]>::as_ref(s))),
        opt_hex(p.protocol.as_ref().map(|s| s.as_str().as_bytes())),
        opt_hex(p.status.as_ref().map(|s| s.as_str().as_bytes())),
    )
}

fn render_fields(m: &http::HeaderMap) -> String {
    if m.is_empty() {
        return "-".into();
    }
    let mut out = vec![];
    for k in m.keys() {
        let vs: Vec<String> = m.get_all(k).iter().map(|v| hex(v.as_bytes())).collect();
        out.push(format!("{}={}", hex(k.as_str().as_bytes()), vs.join(";")));
    }
    out.join(",")
}

fn dbg_num(s: &str, key: &str) -> Option<u64> {
    let i = s.find(key)? + key.len();
    let rest = &s[i..];
    let end = rest.find(|c: char| !c.is_ascii_digit()).unwrap_or(rest.len());
    rest[..end].parse().ok()
}

fn b01(b: bool) -> &'static str {
    if b {
        "1"
    } else {
        "0"
    }
}

pub fn render_frame(f: Frame<Bytes>) -> String {
    let dbg = format!("{:?}", f);
    match f {
        Frame::Data(d) => {
            let pad = match dbg_num(&dbg, "pad_len: ") {
                Some(n) => n.to_string(),
                None => "none".into(),
            };
            format!(
                "DATA sid={} eos={} pad={} len={} data={}",
                u32::from(d.stream_id()),
                b01(d.is_end_stream()),
                pad,
                d.payload().len(),
                hex(d.payload())
            )
        }
        Frame::Headers(h) => {
            let dep = if let Some(i) = dbg.find("stream_dep: ") {
                let s = &dbg[i..];
                format!(
                    "{}:{}:{}",
                    dbg_num(s, "dependency_id: StreamId(").unwrap_or(0),
                    dbg_num(s, "weight: ").unwrap_or(0),
                    b01(s.contains("is_exclusive: true"))
                )
            } else {
                "none".into()
            };
            let sid = u32::from(h.stream_id());
            let eos = h.is_end_stream();
            let over = h.is_over_size();
            let (p, m) = h.into_parts();
            format!("HEADERS sid={} eos={} dep={} over={} {} fields={}", sid, b01(eos), dep, b01(over), render_pseudo(&p), render_fields(&m))
        }
        Frame::Priority(_) => format!(
            "PRIORITY sid={} dep={} w={} x={}",
            dbg_num(&dbg, "stream_id: StreamId(").unwrap_or(0),
            dbg_num(&dbg, "dependency_id: StreamId(").unwrap_or(0),
            dbg_num(&dbg, "weight: ").unwrap_or(0),
            b01(dbg.contains("is_exclusive: true"))
        ),
        Frame::Reset(r) => format!("RST_STREAM sid={} code={}", u32::from(r.stream_id()), u32::from(r.reason())),
        Frame::Settings(s) => {
            let mut v = vec![];
            if let Some(x) = s.header_table_size() {
                v.push(format!("1:{}", x));
            }
            if let Some(x) = s.is_push_enabled() {
                v.push(format!("2:{}", x as u32));
            }
            if let Some(x) = s.max_concurrent_streams() {
                v.push(format!("3:{}", x));
            }
            if let Some(x) = s.initial_window_size() {
                v.push(format!("4:{}", x));
            }
            if let Some(x) = s.max_frame_size() {
                v.push(format!("5:{}", x));
            }
            if let Some(x) = s.max_header_list_size() {
                v.push(format!("6:{}", x));
            }
            if let Some(x) = s.is_extended_connect_protocol_enabled() {
                v.push(format!("8:{}", x as u32));
            }
            format!("SETTINGS ack={} vals={}", b01(s.is_ack()), if v.is_empty() { "-".into() } else { v.join(",") })
        }
        Frame::PushPromise(p) => {
            let sid = u32::from(p.stream_id());
            let pr = u32::from(p.promised_id());
            let over = p.is_over_size();
            let (ps, m) = p.into_parts();
            format!("PUSH_PROMISE sid={} promised={} over={} {} fields={}", sid, pr, b01(over), render_pseudo(&ps), render_fields(&m))
        }
        Frame::Ping(p) => format!("PING ack={} payload={}", b01(p.is_ack()), hex(p.payload())),
        Frame::GoAway(g) => format!(
            "GOAWAY last={} code={} debug={}",
            u32::from(g.last_stream_id()),
            u32::from(g.reason()),
            hex(g.debug_data())
        ),
        Frame::WindowUpdate(w) => format!("WINDOW_UPDATE sid={} inc={}", u32::from(w.stream_id()), w.size_increment()),
    }
}

pub fn render_err(e: &h2::proto::Error) -> String {
    match e {
        h2::proto::Error::GoAway(d, r, _) => format!(
            "ERR goaway code={} debug={}",
            u32::from(*r),
            if d.is_empty() { "-".to_string() } else { String::from_utf8_lossy(d).to_string() }
        ),
        h2::proto::Error::Reset(s, r, _) => format!("ERR reset sid={} code={}", u32::from(*s), u32::from(*r)),
        h2::proto::Error::Io(k, m) => {
            if m.as_deref() == Some("bytes remaining on stream") {
                "ERR io bytes-remaining".into()
            } else {
                format!("ERR io {:?}", k)
            }
        }
    }
}

pub struct CodecH {
    io: Io,
    codec: h2::Codec<Io, Bytes>,
    dead: bool,
    wr_ready: bool,
}

impl CodecH {
    pub fn new(max_frame: usize) -> CodecH {
        let io = Io::default();
        let codec = h2::Codec::with_max_recv_frame_size(io.clone(), max_frame);
        CodecH { io, codec, dead: false, wr_ready: false }
    }

    fn set_script(&mut self, sc: &str) -> Option<()> {
        let mut i = self.io.0.lock().unwrap();
        i.wscript.clear();
        if sc != "-" {
            for w in sc.split(',') {
                if w == "p" {
                    i.wscript.push_back(None);
                } else {
                    i.wscript.push_back(Some(w.parse().ok()?));
                }
            }
        }
        Some(())
    }

    fn take_written(&mut self) -> Vec<u8> {
        let mut i = self.io.0.lock().unwrap();
        i.wscript.clear();
        std::mem::take(&mut i.wr)
    }

    fn drain(&mut self) -> String {
        let waker = noop_waker();
        let mut cx = Context::from_waker(&waker);
        let mut items = vec![];
        loop {
            match Pin::new(&mut self.codec).poll_next(&mut cx) {
                Poll::Pending => break,
                Poll::Ready(None) => {
                    items.push("end".to_string());
                    break;
                }
                Poll::Ready(Some(Ok(f))) => items.push(render_frame(f)),
                Poll::Ready(Some(Err(e))) => {
                    items.push(render_err(&e));
                    self.dead = true;
                    break;
                }
            }
        }
        if items.is_empty() {
            "-".into()
        } else {
            items.join(" ;; ")
        }
    }

    pub fn handle(&mut self, ws: &[&str]) -> Option<String> {
        match ws {
            ["wr_new"] => {
                *self = CodecH::new(16384);
                Some("ok".into())
            }
            ["wr_set_max_frame", n] => {
                self.codec.set_max_send_frame_size(n.parse().ok()?);
                Some("ok".into())
            }
            ["wr_set_header_table", n] => {
                self.codec.set_send_header_table_size(n.parse().ok()?);
                Some("ok".into())
            }
            ["wr_ready", sc] => {
                self.set_script(sc)?;
                let waker = noop_waker();
                let mut cx = Context::from_waker(&waker);
                let r = self.codec.poll_ready(&mut cx);
                let out = self.take_written();
                self.wr_ready = matches!(r, Poll::Ready(Ok(())));
                Some(match r {
                    Poll::Ready(Ok(())) => format!("ready out={}", hex(&out)),
                    Poll::Pending => format!("pending out={}", hex(&out)),
                    Poll::Ready(Err(e)) => format!("err {:?} out={}", e.kind(), hex(&out)),
                })
            }
            ["wr_buffer", rest @ ..] => {
                let f = parse_item(rest)?;
                if !self.wr_ready {
                    return Some("nocap".into());
                }
                self.wr_ready = false;
                Some(match self.codec.buffer(f) {
                    Ok(()) => "ok".into(),
                    Err(e) => format!("err {:?}", e),
                })
            }
            ["wr_flush", sc] => {
                self.set_script(sc)?;
                let waker = noop_waker();
                let mut cx = Context::from_waker(&waker);
                let r = self.codec.flush(&mut cx);
                let out = self.take_written();
                self.wr_ready = false;
                Some(match r {
                    Poll::Ready(Ok(())) => format!("ready out={}", hex(&out)),
                    Poll::Pending => format!("pending out={}", hex(&out)),
                    Poll::Ready(Err(e)) => format!("err {:?} out={}", e.kind(), hex(&out)),
                })
            }
            ["wr_shutdown", sc] => {
                self.set_script(sc)?;
                let waker = noop_waker();
                let mut cx = Context::from_waker(&waker);
                let r = self.codec.shutdown(&mut cx);
                let out = self.take_written();
                self.wr_ready = false;
                let shut = self.io.0.lock().unwrap().shut as u8;
                Some(match r {
                    Poll::Ready(Ok(())) => format!("ready out={} shut={}", hex(&out), shut),
                    Poll::Pending => format!("pending out={} shut={}", hex(&out), shut),
                    Poll::Ready(Err(e)) => format!("err {:?} out={} shut={}", e.kind(), hex(&out), shut),
                })
            }
            ["rd_new", n] => {
                *self = CodecH::new(n.parse().ok()?);
                Some("ok".into())
            }
            ["rd_set_max_frame", n] => {
                self.codec.set_max_recv_frame_size(n.parse().ok()?);
                Some("ok".into())
            }
            ["rd_set_max_header_list", n] => {
                self.codec.set_max_recv_header_list_size(n.parse().ok()?);
                Some("ok".into())
            }
            ["rd_set_header_table", n] => {
                self.codec.set_recv_header_table_size(n.parse().ok()?);
                Some("ok".into())
            }
            ["rd_feed", h] => {
                if self.dead {
                    return Some("dead".into());
                }
                let b = unhex(h)?;
                self.io.0.lock().unwrap().rd.extend_from_slice(&b);
                Some(self.drain())
            }
            ["rd_eof"] => {
                if self.dead {
                    return Some("dead".into());
                }
                self.io.0.lock().unwrap().eof = true;
                let r = self.drain();
                if r.starts_with("ERR") {
                    self.dead = true;
                }
                Some(r)
            }
            _ => None,
        }
    }
}

fn parse_fields(f: &str) -> Option<Vec<(Vec<u8>, Vec<u8>, bool)>> {
    let mut v = vec![];
    if f != "-" {
        for w in f.split(',') {
            let p: Vec<&str> = w.split(':').collect();
            if p.len() != 3 {
                return None;
            }
            v.push((unhex(p[0])?, unhex(p[1])?, p[2].contains('s')));
        }
    }
    Some(v)
}

fn build_head(fields: &[(Vec<u8>, Vec<u8>, bool)]) -> Option<(frame::Pseudo, http::HeaderMap)> {
    let mut p = frame::Pseudo::default();
    let mut m = http::HeaderMap::new();
    for (n, v, sens) in fields {
        let bs = |v: &Vec<u8>| frame::BytesStr::try_from(Bytes::copy_from_slice(v)).ok();
        match &n[..] {
            b":method" => p.method = Some(http::Method::from_bytes(v).ok()?),
            b":scheme" => p.scheme = Some(bs(v)?),
            b":authority" => p.authority = Some(bs(v)?),
            b":path" => p.path = Some(bs(v)?),
            b":protocol" => p.protocol = Some(h2::ext::Protocol::from(std::str::from_utf8(v).ok()?)),
            b":status" => p.status = Some(http::StatusCode::from_bytes(v).ok()?),
            _ => {
                let name = http::header::HeaderName::from_bytes(n).ok()?;
                let mut val = http::header::HeaderValue::from_bytes(v).ok()?;
                val.set_sensitive(*sens);
                m.append(name, val);
            }
        }
    }
    Some((p, m))
}

fn parse_item(ws: &[&str]) -> Option<Frame<Bytes>> {
    use frame::{Reason, StreamId};
    Some(match ws {
        ["data", sid, eos, h] => {
            let mut d = frame::Data::new(StreamId::from(sid.parse::<u32>().ok()?), Bytes::from(unhex(h)?));
            d.set_end_stream(*eos == "1");
            d.into()
        }
        ["settings", ack, vals] => {
            let mut s = if *ack == "1" { frame::Settings::ack() } else { frame::Settings::default() };
            if *vals != "-" {
                for w in vals.split(',') {
                    let (a, b) = w.split_once(':')?;
                    let b: u32 = b.parse().ok()?;
                    match a {
                        "1" => s.set_header_table_size(Some(b)),
                        "2" => s.set_enable_push(b != 0),
                        "3" => s.set_max_concurrent_streams(Some(b)),
                        "4" => s.set_initial_window_size(Some(b)),
                        "5" => s.set_max_frame_size(Some(b)),
                        "6" => s.set_max_header_list_size(Some(b)),
                        "8" => s.set_enable_connect_protocol(Some(b)),
                        _ => return None,
                    }
                }
            }
            s.into()
        }
        ["ping", ack, h] => {
            let b = unhex(h)?;
            let mut p = [0u8; 8];
            p.copy_from_slice(&b);
            if *ack == "1" { frame::Ping::pong(p).into() } else { frame::Ping::new(p).into() }
        }
        ["goaway", last, code, h] => frame::GoAway::with_debug_data(
            StreamId::from(last.parse::<u32>().ok()?),
            Reason::from(code.parse::<u32>().ok()?),
            Bytes::from(unhex(h)?),
        )
        .into(),
        ["window_update", sid, inc] => frame::WindowUpdate::new(StreamId::from(sid.parse::<u32>().ok()?), inc.parse().ok()?).into(),
        ["reset", sid, code] => frame::Reset::new(StreamId::from(sid.parse::<u32>().ok()?), Reason::from(code.parse::<u32>().ok()?)).into(),
        ["headers", sid, eos, f] => {
            let (p, m) = build_head(&parse_fields(f)?)?;
            let mut h = frame::Headers::new(StreamId::from(sid.parse::<u32>().ok()?), p, m);
            if *eos == "1" {
                h.set_end_stream();
            }
            h.into()
        }
        ["push_promise", sid, pr, f] => {
            let (p, m) = build_head(&parse_fields(f)?)?;
            frame::PushPromise::new(StreamId::from(sid.parse::<u32>().ok()?), StreamId::from(pr.parse::<u32>().ok()?), p, m).into()
        }
        _ => return None,
    })
}

/// a header list in the canonical order the `Iter` of `frame/headers.rs` yields: pseudo fields in
/// the fixed order, then regular fields grouped by name (second and later values flagged nameless)
fn gen_head_fields(rng: &mut Rng, big: bool) -> String {
    let mut fs: Vec<String> = vec![];
    let req = rng.chance(1, 2);
    if req {
        fs.push(format!("{}:{}:-", hex(b":method"), hex(rng.pick(&["GET", "POST", "PUT", "CONNECT"]).as_bytes())));
        if rng.chance(4, 5) {
            fs.push(format!("{}:{}:-", hex(b":scheme"), hex(rng.pick(&["http", "https"]).as_bytes())));
        }
        if rng.chance(4, 5) {
            fs.push(format!("{}:{}:-", hex(b":authority"), hex(rng.pick(&["example.com", "a", "www.example.org:8080"]).as_bytes())));
        }
        if rng.chance(4, 5) {
            fs.push(format!("{}:{}:-", hex(b":path"), hex(rng.pick(&["/", "/index.html", "/a/b?c=d"]).as_bytes())));
        }
        if rng.chance(1, 10) {
            fs.push(format!("{}:{}:-", hex(b":protocol"), hex(b"websocket")));
        }
    } else {
        fs.push(format!("{}:{}:-", hex(b":status"), hex(rng.pick(&["200", "204", "404", "100", "500"]).as_bytes())));
    }
    let names = ["accept", "cookie", "x-a", "x-b", "content-type", "user-agent", "set-cookie", "x-long-header-name-for-testing", "content-length", "via"];
    let mut used: Vec<&str> = vec![];
    let groups = rng.below(6);
    for _ in 0..groups {
        let n = *rng.pick(&names);
        if used.contains(&n) {
            continue;
        }
        used.push(n);
        let reps = 1 + if rng.chance(1, 3) { rng.below(3) } else { 0 };
        for k in 0..reps {
            let len = if big && rng.chance(1, 2) { 2000 + rng.below(9000) as usize } else { rng.below(40) as usize };
            let v: Vec<u8> = (0..len).map(|_| *rng.pick(b"abcdefghijklmnopqrstuvwxyz0123456789 -_=;,.")).collect();
            let sens = rng.chance(1, 8);
            let fl = match (sens, k > 0) {
                (false, false) => "-",
                (true, false) => "s",
                (false, true) => "n",
                (true, true) => "sn",
            };
            fs.push(format!("{}:{}:{}", hex(n.as_bytes()), hex(&v), fl));
        }
    }
    fs.join(",")
}

fn gen_script(rng: &mut Rng) -> String {
    if rng.chance(1, 3) {
        return "-".into();
    }
    let n = 1 + rng.below(12);
    let style = rng.below(4);
    (0..n)
        .map(|_| match style {
            0 => (1 + rng.below(3)).to_string(),
            1 => {
                if rng.chance(1, 4) {
                    "p".to_string()
                } else {
                    (1 + rng.below(40)).to_string()
                }
            }
            2 => (*rng.pick(&[1u64, 8, 9, 10, 255, 1023, 1024, 1033, 5000, 100000])).to_string(),
            _ => {
                if rng.chance(1, 30) {
                    "0".to_string()
                } else if rng.chance(1, 6) {
                    "p".to_string()
                } else {
                    (1 + rng.below(3000)).to_string()
                }
            }
        })
        .collect::<Vec<_>>()
        .join(",")
}

pub fn gen_write(rng: &mut Rng, cases: usize, out: &mut dyn Write) {
    for _ in 0..cases {
        writeln!(out, "wr_new").unwrap();
        let mut maxf = 16384usize;
        let nops = 2 + rng.below(25);
        for _ in 0..nops {
            match rng.below(16) {
                0 => {
                    maxf = *rng.pick(&[16384usize, 16385, 20000, 65536, 16777215]);
                    writeln!(out, "wr_set_max_frame {}", maxf).unwrap();
                }
                1 => writeln!(out, "wr_set_header_table {}", *rng.pick(&[0usize, 100, 4096, 65536])).unwrap(),
                2 | 3 | 4 => writeln!(out, "wr_flush {}", gen_script(rng)).unwrap(),
                _ => {
                    writeln!(out, "wr_ready {}", gen_script(rng)).unwrap();
                    let sid = 1 + 2 * rng.below(5);
                    let item = match rng.below(13) {
                        12 if maxf <= 20000 => {
                            // a header block whose size sits on the frame-size boundary: one never-indexed field
                            // ('Z' has an 8-bit Huffman code: h2 always Huffman-codes, so the coded length is the length)
                            let l = maxf - 30 + rng.below(45) as usize;
                            let v = vec![b'Z'; l];
                            let f = format!("{}:{}:s", hex(b"x-a"), hex(&v));
                            if rng.chance(1, 2) {
                                format!("headers {} {} {}:{}:-,{}", sid, rng.below(2), hex(b":status"), hex(b"200"), f)
                            } else {
                                format!("push_promise {} {} {}:{}:-,{}", sid, 2 + 2 * rng.below(5), hex(b":method"), hex(b"GET"), f)
                            }
                        }
                        0 | 1 | 2 | 3 => {
                            let n = *rng.pick(&[0usize, 1, 100, 1014, 1015, 1023, 1024, 1025, 1033, 2000, 16383, 16384, 16385, 20000]);
                            let n = if n > maxf + 1 { maxf } else { n };
                            let p: Vec<u8> = (0..n).map(|i| (i as u8) ^ (sid as u8)).collect();
                            format!("data {} {} {}", sid, rng.below(2), hex(&p))
                        }
                        4 | 5 | 6 => {
                            let big = rng.chance(1, 4);
                            let eos = rng.below(2);
                            format!("headers {} {} {}", sid, eos, gen_head_fields(rng, big))
                        }
                        7 => {
                            let big = rng.chance(1, 5);
                            let pr = 2 + 2 * rng.below(5);
                            format!("push_promise {} {} {}", sid, pr, gen_head_fields(rng, big))
                        }
                        8 => {
                            if rng.chance(1, 3) {
                                "settings 1 -".to_string()
                            } else {
                                let mut v = vec![];
                                for id in [1u32, 2, 3, 4, 5, 6, 8] {
                                    if rng.chance(1, 3) {
                                        let val = match id {
                                            2 | 8 => rng.below(2) as u32,
                                            5 => *rng.pick(&[16384u32, 65536, 16777215]),
                                            4 => *rng.pick(&[0u32, 65535, 0x7fff_ffff]),
                                            _ => *rng.pick(&[0u32, 1, 100, 4096, 0xffff_ffff]),
                                        };
                                        v.push(format!("{}:{}", id, val));
                                    }
                                }
                                format!("settings 0 {}", if v.is_empty() { "-".to_string() } else { v.join(",") })
                            }
                        }
                        9 => format!("ping {} {}", rng.below(2), hex(&rng.bytes(8))),
                        10 => format!("goaway {} {} {}", rng.below(100), *rng.pick(&[0u32, 1, 2, 11, 0xffff_ffff]), hex(&rng.rbytes(0, 30))),
                        _ => {
                            if rng.chance(1, 2) {
                                format!("window_update {} {}", if rng.chance(1, 3) { 0 } else { sid }, *rng.pick(&[1u32, 100, 65535, 0x7fff_ffff]))
                            } else {
                                format!("reset {} {}", sid, *rng.pick(&[0u32, 1, 8, 0xdead_beef]))
                            }
                        }
                    };
                    writeln!(out, "wr_buffer {}", item).unwrap();
                }
            }
        }
        if rng.chance(1, 2) {
            // close with frames still buffered: `shutdown` must flush everything before the transport is shut down
            for _ in 0..(1 + rng.below(4)) {
                writeln!(out, "wr_shutdown {}", gen_script(rng)).unwrap();
            }
            writeln!(out, "wr_shutdown -").unwrap();
            writeln!(out, "wr_shutdown -").unwrap();
        } else {
            writeln!(out, "wr_flush -").unwrap();
            writeln!(out, "wr_flush -").unwrap();
        }
    }
}

// ------------------------------------------------------------------------------------ wire builder (independent of h2)

pub fn wire(ty: u8, flags: u8, sid: u32, payload: &[u8]) -> Vec<u8> {
    let l = payload.len();
    let mut v = vec![(l >> 16) as u8, (l >> 8) as u8, l as u8, ty, flags];
    v.extend_from_slice(&sid.to_be_bytes());
    v.extend_from_slice(payload);
    v
}

fn pick_sid(rng: &mut Rng) -> u32 {
    match rng.below(40) {
        0 => 0,
        1 | 2 => 0x7fff_ffff,
        3 | 4 => 0x8000_0001, // reserved bit set
        5 | 6 => 2,
        _ => 1 + 2 * rng.below(6) as u32,
    }
}

fn pad(rng: &mut Rng, body: &[u8]) -> Vec<u8> {
    let p = match rng.below(4) {
        0 => 0,
        1 => 1,
        2 => rng.below(20) as u8,
        _ => 255,
    };
    let mut v = vec![p];
    v.extend_from_slice(body);
    v.extend(std::iter::repeat(0).take(p as usize));
    v
}

/// one (mostly) well-formed frame sequence element; header frames come with their CONTINUATIONs
fn gen_frames(rng: &mut Rng, sh: &mut crate::gen_pure::Shadow, maxf: usize) -> Vec<u8> {
    let mut out = vec![];
    let sid = pick_sid(rng);
    match rng.below(14) {
        0 | 1 => {
            // DATA
            let n = *rng.pick(&[0usize, 1, 5, 100, 255, 256, 1000]);
            let body = rng.bytes(n);
            let mut fl = if rng.chance(1, 3) { 1 } else { 0 };
            let p = if rng.chance(1, 3) {
                fl |= 8;
                pad(rng, &body)
            } else {
                body
            };
            if rng.chance(1, 10) {
                fl |= rng.next() as u8 & 0xf6;
            }
            out.extend(wire(0, fl, sid, &p));
        }
        2 | 3 | 4 | 5 => {
            // HEADERS / PUSH_PROMISE with CONTINUATION
            let push = rng.chance(1, 4);
            let mut block = if rng.chance(1, 25) { crate::gen_pure::gen_bad_block(rng, sh) } else { crate::gen_pure::gen_block_h2(rng, sh) };
            // a dynamic table size update AFTER a field is a decoding error wherever the block is cut — also when the cut
            // falls exactly between the field and the update (RFC 7541 section 4.2)
            let mut forced_cut = None;
            if !block.is_empty() && rng.chance(1, 12) {
                forced_cut = Some(block.len());
                block.push(0x20 | rng.below(31) as u8);
                if rng.chance(1, 2) {
                    block.push(0x88);
                }
            }
            let nfr = if block.len() > 1 { *rng.pick(&[1usize, 1, 2, 3, 4]) } else { 1 };
            let mut cuts: Vec<usize> = (1..nfr).map(|_| 1 + rng.below(block.len() as u64 - 1) as usize).collect();
            if let Some(c) = forced_cut {
                if rng.chance(2, 3) {
                    cuts.push(c);
                }
            }
            cuts.sort();
            cuts.dedup();
            cuts.push(block.len());
            let first = &block[..cuts[0]];
            let mut body = vec![];
            let mut fl = 0u8;
            if push {
                body.extend_from_slice(&(2 + 2 * rng.below(5) as u32).to_be_bytes());
            } else {
                if rng.chance(1, 3) {
                    fl |= 1;
                }
                if rng.chance(1, 4) {
                    fl |= 0x20;
                    let dep = if rng.chance(1, 30) { sid } else { rng.below(9) as u32 } | if rng.chance(1, 2) { 0x8000_0000 } else { 0 };
                    body.extend_from_slice(&dep.to_be_bytes());
                    body.push(rng.next() as u8);
                }
            }
            body.extend_from_slice(first);
            let body = if rng.chance(1, 4) {
                fl |= 8;
                pad(rng, &body)
            } else {
                body
            };
            if cuts.len() == 1 {
                fl |= 4;
            }
            out.extend(wire(if push { 5 } else { 1 }, fl, sid, &body));
            let mut prev = cuts[0];
            for (k, c) in cuts.iter().enumerate().skip(1) {
                let last = k + 1 == cuts.len();
                // sometimes break the rules: wrong sid, missing END_HEADERS + foreign frame, unknown in between
                let csid = if rng.chance(1, 60) { sid.wrapping_add(2) } else { sid };
                if rng.chance(1, 80) {
                    out.extend(wire(6, 0, 0, &[0; 8]));
                }
                out.extend(wire(9, if last { 4 } else { 0 }, csid, &block[prev..*c]));
                prev = *c;
            }
        }
        6 => {
            // SETTINGS
            if rng.chance(1, 4) {
                let p = if rng.chance(1, 20) { vec![0u8; 6] } else { vec![] };
                out.extend(wire(4, 1, if rng.chance(1, 25) { 1 } else { 0 }, &p));
            } else {
                let mut p = vec![];
                for _ in 0..rng.below(5) {
                    let id = *rng.pick(&[1u16, 2, 3, 4, 5, 6, 8, 7, 9, 0xffff]);
                    let val = if rng.chance(1, 6) { *rng.pick(&[2u32, 16383, 0x100_0000, 0x8000_0000, 0xffff_ffff]) } else { *rng.pick(&[0u32, 1, 100, 4096, 16384, 65535, 0xff_ffff, 0x7fff_ffff]) };
                    p.extend_from_slice(&id.to_be_bytes());
                    p.extend_from_slice(&val.to_be_bytes());
                }
                if rng.chance(1, 30) {
                    p.push(0);
                }
                out.extend(wire(4, 0, if rng.chance(1, 30) { 3 } else { 0 }, &p));
            }
        }
        7 => {
            let n = if rng.chance(1, 25) { rng.below(12) as usize } else { 8 };
            out.extend(wire(6, rng.below(2) as u8, if rng.chance(1, 25) { 1 } else { 0 }, &rng.bytes(n)));
        }
        8 => {
            let mut p = vec![];
            p.extend_from_slice(&(rng.next() as u32).to_be_bytes());
            p.extend_from_slice(&(*rng.pick(&[0u32, 1, 2, 8, 11, 13, 14, 0xffff_ffff])).to_be_bytes());
            p.extend(rng.rbytes(0, 6));
            if rng.chance(1, 25) {
                p.truncate(rng.below(8) as usize);
            }
            out.extend(wire(7, 0, if rng.chance(1, 6) { 1 } else { 0 }, &p));
        }
        9 => {
            let inc = *rng.pick(&[1u32, 1, 100, 100, 65535, 65535, 0x7fff_ffff, 0x8000_0000, 0x8000_0001, 0xffff_ffff, 0, 5, 6, 7, 8, 9]);
            let mut p = inc.to_be_bytes().to_vec();
            if rng.chance(1, 25) {
                p.push(0);
            }
            out.extend(wire(8, 0, sid, &p));
        }
        10 => {
            let mut p = (*rng.pick(&[0u32, 1, 2, 8, 0xdead_beef])).to_be_bytes().to_vec();
            if rng.chance(1, 25) {
                p.pop();
            }
            out.extend(wire(3, 0, sid, &p));
        }
        11 => {
            let dep = if rng.chance(1, 25) { sid & 0x7fff_ffff } else { rng.below(9) as u32 } | if rng.chance(1, 2) { 0x8000_0000 } else { 0 };
            let mut p = dep.to_be_bytes().to_vec();
            p.push(rng.next() as u8);
            if rng.chance(1, 25) {
                p.push(1);
            }
            out.extend(wire(2, 0, sid, &p));
        }
        12 => {
            // unknown type
            out.extend(wire(10 + rng.below(240) as u8, rng.next() as u8, sid, &rng.rbytes(0, 20)));
        }
        _ if rng.chance(3, 4) => {
            out.extend(wire(8, 0, 0, &100u32.to_be_bytes()));
        }
        _ => {
            // size games around the max frame size
            let n = *rng.pick(&[maxf - 1, maxf, maxf, maxf + 1]);
            if rng.chance(1, 2) {
                out.extend(wire(0, 0, 1, &vec![7u8; n]));
            } else {
                // only the head of an oversize frame: must be rejected before the payload arrives
                let mut w = wire(0, 0, 1, &[]);
                let l = maxf + 1 + rng.below(1000) as usize;
                w[0] = (l >> 16) as u8;
                w[1] = (l >> 8) as u8;
                w[2] = l as u8;
                out.extend(w);
            }
        }
    }
    out
}

pub fn gen_read(rng: &mut Rng, cases: usize, out: &mut dyn Write) {
    for _ in 0..cases {
        let maxf = *rng.pick(&[16384usize, 16384, 16385, 20000, 65536]);
        let mut sh = crate::gen_pure::Shadow::new(4096);
        let mut wirebytes = vec![];
        let nfr = 1 + rng.below(8);
        let mut pre: Vec<String> = vec![];
        if rng.chance(1, 6) {
            pre.push(format!("rd_set_max_header_list {}", *rng.pick(&[0usize, 10, 100, 1000, 16384])));
        }
        for _ in 0..nfr {
            wirebytes.extend(gen_frames(rng, &mut sh, maxf));
        }
        if rng.chance(1, 10) && !wirebytes.is_empty() {
            let n = rng.below(wirebytes.len() as u64) as usize;
            wirebytes.truncate(n);
        }
        // the same bytes: once whole, once in random chunks (down to single octets)
        for variant in 0..2 {
            writeln!(out, "rd_new {}", maxf).unwrap();
            for p in &pre {
                writeln!(out, "{}", p).unwrap();
            }
            if variant == 0 {
                writeln!(out, "rd_feed {}", hex(&wirebytes)).unwrap();
            } else {
                let mut i = 0;
                let style = if wirebytes.len() > 800 { 1 + rng.below(2) } else { rng.below(3) };
                while i < wirebytes.len() {
                    let n = match style {
                        0 => 1,
                        1 => 1 + rng.below(if wirebytes.len() > 5000 { 300 } else { 12 }) as usize,
                        _ => 1 + rng.below(400) as usize,
                    }
                    .min(wirebytes.len() - i);
                    writeln!(out, "rd_feed {}", hex(&wirebytes[i..i + n])).unwrap();
                    i += n;
                }
            }
            writeln!(out, "rd_eof").unwrap();
            writeln!(out, "spec_rd_all {}", hex(&wirebytes)).unwrap();
        }
    }
}
