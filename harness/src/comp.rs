//! Component level: `FlowControl` and `State` of proto/streams driven directly through hooks.

use crate::util::Rng;
use h2::verif_hooks::{flow, state};
use std::collections::{BTreeMap, VecDeque};
use std::io::Write;

pub struct Comp {
    fc: flow::Flow,
    st: state::St,
}

impl Comp {
    pub fn new() -> Comp {
        Comp { fc: Default::default(), st: Default::default() }
    }

    pub fn handle(&mut self, ws: &[&str]) -> Option<String> {
        match ws {
            ["fc_new"] => {
                self.fc = Default::default();
                Some("ok".into())
            }
            ["fc_op", name, arg] => {
                let r = self.fc.apply(name, arg.parse().ok()?);
                let (w, a) = self.fc.state();
                Some(format!("{} w={} a={}", r, w, a))
            }
            ["stt_new"] => {
                self.st = Default::default();
                Some(format!("ok {}", self.st.describe()))
            }
            ["stt_ev", name, arg] => {
                let r = self.st.apply(name, arg.parse().ok()?);
                Some(format!("{} {}", r.replace(' ', "_"), self.st.describe()))
            }
            _ => None,
        }
    }
}

pub const EVENTS: &[(&str, &[u32])] = &[
    ("send_open", &[0, 1]),
    ("recv_open", &[0, 1, 2, 3]),
    ("reserve_remote", &[0]),
    ("reserve_local", &[0]),
    ("recv_close", &[0]),
    ("recv_reset", &[0, 1]),
    ("handle_error", &[0]),
    ("recv_eof", &[0]),
    ("send_close", &[0]),
    ("set_reset", &[0, 1, 2]),
    ("set_scheduled_reset", &[0]),
];

/// breadth-first enumeration of EVERY reachable `State` value and EVERY (state, event) pair
pub fn gen_state_exhaustive(out: &mut dyn Write) {
    let mut seen: BTreeMap<String, Vec<(String, u32)>> = BTreeMap::new();
    let mut q: VecDeque<Vec<(String, u32)>> = VecDeque::new();
    let init: state::St = Default::default();
    seen.insert(init.describe(), vec![]);
    q.push_back(vec![]);
    while let Some(path) = q.pop_front() {
        for (ev, args) in EVENTS {
            for a in *args {
                let mut st: state::St = Default::default();
                writeln!(out, "stt_new").unwrap();
                for (e, x) in &path {
                    st.apply(e, *x);
                    writeln!(out, "stt_ev {} {}", e, x).unwrap();
                }
                let res = std::panic::catch_unwind(std::panic::AssertUnwindSafe(|| {
                    st.apply(ev, *a);
                    st.describe()
                }));
                writeln!(out, "stt_ev {} {}", ev, a).unwrap();
                if let Ok(d) = res {
                    if !seen.contains_key(&d) {
                        let mut p = path.clone();
                        p.push((ev.to_string(), *a));
                        seen.insert(d, p.clone());
                        q.push_back(p);
                    }
                }
            }
        }
    }
    writeln!(out, "# states={}", seen.len()).unwrap();
}

pub fn gen_flow(rng: &mut Rng, cases: usize, out: &mut dyn Write) {
    let pool: [u32; 16] = [0, 1, 2, 100, 16384, 65535, 65536, 1 << 20, 0x3fff_ffff, 0x4000_0000, 0x7fff_fffe, 0x7fff_ffff, 0x8000_0000, 0x8000_0001, 0xffff_fffe, 0xffff_ffff];
    let ops = ["inc_window", "inc_window", "dec_send_window", "dec_recv_window", "assign_capacity", "assign_capacity", "claim_capacity", "send_data", "unclaimed_capacity", "has_unavailable", "window_size"];
    for _ in 0..cases {
        writeln!(out, "fc_new").unwrap();
        let n = 1 + rng.below(30);
        let mut w: i64 = 0;
        for _ in 0..n {
            let op = *rng.pick(&ops);
            let arg = if rng.chance(1, 2) { *rng.pick(&pool) } else { rng.below(70000) as u32 };
            // `send_data` asserts `window >= sz`: respect the documented precondition (the model marks the
            // violation as a panic; the real call would abort the whole run)
            let arg = if op == "send_data" {
                let lim = w.max(0) as u64;
                if (arg as u64) > lim || arg >= 0x8000_0000 { rng.below(lim + 1) as u32 } else { arg }
            } else {
                arg
            };
            writeln!(out, "fc_op {} {}", op, arg).unwrap();
            // shadow of the window (only to keep send_data within its precondition)
            let a = arg as i32 as i64;
            match op {
                "inc_window" => {
                    let v = w + a;
                    if v <= 0x7fff_ffff && v >= -(1i64 << 31) && (w as i32).checked_add(arg as i32).is_some() {
                        w = v;
                    }
                }
                "dec_send_window" | "dec_recv_window" | "send_data" => {
                    if op != "send_data" || arg > 0 {
                        if let Some(v) = (w as i32).checked_sub(arg as i32) {
                            w = v as i64;
                        }
                    }
                }
                _ => {}
            }
        }
    }
}
