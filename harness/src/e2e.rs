//! End to end: a REAL h2 client and a REAL h2 server joined by two bounded in-memory pipes, all
//! tasks driven by a strict executor on one thread (a task is polled only when its waker fired; the
//! next task is picked at random among the woken ones).  Everything is derived from the seed.
//!
//!   e2e_run <seed> <mode>      mode: plain | chaos | ending
//!
//! Oracles (in Rust; this is testing, labelled as testing):
//!   C01  every message that completes arrives with exactly the submitted head, interim responses,
//!        body bytes (checked per (stream, offset)) and trailers; a reset stream delivers a prefix and
//!        never a clean end
//!   C06  plain mode: cooperative applications + working pipes => everything completes (no stall)
//!   C07  ending mode: after the injected ending every task resolves and both connections complete

use crate::util::Rng;
use bytes::Bytes;
use std::collections::VecDeque;
use std::future::Future;
use std::pin::Pin;
use std::sync::{Arc, Mutex};
use std::task::{Context, Poll, Wake, Waker};
use tokio::io::{AsyncRead, AsyncWrite, ReadBuf};

#[derive(Default)]
struct PipeInner {
    log: Option<(String, crate::conn::Scanner)>,
    data: VecDeque<u8>,
    cap: usize,
    rw: Option<Waker>,
    ww: Option<Waker>,
    chunk: usize,
    closed: bool,                          // writer side closed: reader sees EOF after draining
    reader_gone: bool,                     // reader side dropped: writes fail
    err: Option<std::io::ErrorKind>,       // both directions fail
}
#[derive(Clone, Default)]
struct Pipe(Arc<Mutex<PipeInner>>);
struct Io {
    rd: Pipe,
    wr: Pipe,
}
impl std::fmt::Debug for Io {
    fn fmt(&self, f: &mut std::fmt::Formatter<'_>) -> std::fmt::Result {
        write!(f, "Io")
    }
}
/// like a socket: when one end goes away the other end reads EOF and its writes fail
impl Drop for Io {
    fn drop(&mut self) {
        {
            let mut p = self.wr.0.lock().unwrap();
            p.closed = true;
            if let Some(w) = p.rw.take() {
                w.wake();
            }
        }
        let mut p = self.rd.0.lock().unwrap();
        p.reader_gone = true;
        if let Some(w) = p.ww.take() {
            w.wake();
        }
    }
}
impl AsyncRead for Io {
    fn poll_read(self: Pin<&mut Self>, cx: &mut Context<'_>, buf: &mut ReadBuf<'_>) -> Poll<std::io::Result<()>> {
        let mut p = self.rd.0.lock().unwrap();
        if let Some(k) = p.err {
            return Poll::Ready(Err(k.into()));
        }
        if p.data.is_empty() {
            if p.closed {
                return Poll::Ready(Ok(()));
            }
            p.rw = Some(cx.waker().clone());
            return Poll::Pending;
        }
        let n = buf.remaining().min(p.data.len()).min(p.chunk.max(1));
        let d: Vec<u8> = p.data.drain(..n).collect();
        buf.put_slice(&d);
        if let Some(w) = p.ww.take() {
            w.wake();
        }
        Poll::Ready(Ok(()))
    }
}
impl AsyncWrite for Io {
    fn poll_write(self: Pin<&mut Self>, cx: &mut Context<'_>, b: &[u8]) -> Poll<std::io::Result<usize>> {
        let mut p = self.wr.0.lock().unwrap();
        if let Some(k) = p.err {
            return Poll::Ready(Err(k.into()));
        }
        if p.closed || p.reader_gone {
            return Poll::Ready(Err(std::io::ErrorKind::BrokenPipe.into()));
        }
        let free = p.cap.saturating_sub(p.data.len());
        if free == 0 {
            p.ww = Some(cx.waker().clone());
            return Poll::Pending;
        }
        let n = b.len().min(free).min(p.chunk.max(1));
        p.data.extend(&b[..n]);
        if let Some((name, sc)) = p.log.as_mut() {
            for f in sc.feed(&b[..n]) {
                eprintln!("   wire {} {}", name, &f[..f.len().min(160)]);
            }
        }
        if let Some(w) = p.rw.take() {
            w.wake();
        }
        Poll::Ready(Ok(n))
    }
    fn poll_flush(self: Pin<&mut Self>, _cx: &mut Context<'_>) -> Poll<std::io::Result<()>> {
        Poll::Ready(Ok(()))
    }
    fn poll_shutdown(self: Pin<&mut Self>, _cx: &mut Context<'_>) -> Poll<std::io::Result<()>> {
        let mut p = self.wr.0.lock().unwrap();
        p.closed = true;
        if let Some(w) = p.rw.take() {
            w.wake();
        }
        Poll::Ready(Ok(()))
    }
}

struct Flags(Mutex<Vec<bool>>);
struct FW {
    id: usize,
    flags: Arc<Flags>,
}
impl Wake for FW {
    fn wake(self: Arc<Self>) {
        let mut f = self.flags.0.lock().unwrap();
        if f.len() <= self.id {
            f.resize(self.id + 1, false);
        }
        f[self.id] = true;
    }
}
fn waker(id: usize, flags: &Arc<Flags>) -> Waker {
    Waker::from(Arc::new(FW { id, flags: flags.clone() }))
}
fn set_flag(flags: &Arc<Flags>, id: usize) {
    let mut f = flags.0.lock().unwrap();
    if f.len() <= id {
        f.resize(id + 1, false);
    }
    f[id] = true;
}

fn pat(tag: usize, off: usize) -> u8 {
    ((off as u64).wrapping_mul(131).wrapping_add(tag as u64 * 17) % 251) as u8
}
fn body(tag: usize, off: usize, n: usize) -> Bytes {
    Bytes::from((0..n).map(|i| pat(tag, off + i)).collect::<Vec<u8>>())
}

/// what one direction of one exchange is supposed to carry
#[derive(Clone)]
struct Msg {
    headers: Vec<(String, String)>,
    size: usize,
    trailers: bool,
    interim: usize,
}

fn gen_msg(rng: &mut Rng, k: usize, small: bool) -> Msg {
    // with windows of a few octets a large body is hundreds of thousands of round trips: keep those small
    let sizes: &[usize] = if small { &[0usize, 1, 10, 100, 1000, 2000] } else { &[0usize, 1, 10, 1000, 16384, 16385, 65535, 65536, 200000] };
    let mut headers = vec![];
    for j in 0..rng.below(5) {
        let len = if rng.chance(1, 12) { 20000 + rng.below(30000) as usize } else { rng.below(60) as usize };
        let v: String = (0..len).map(|i| (b'a' + ((i + k + j as usize) % 26) as u8) as char).collect();
        headers.push((format!("x-h{}", j % 3), v));
    }
    Msg { headers, size: *rng.pick(sizes), trailers: rng.chance(1, 4), interim: if rng.chance(1, 4) { 1 + rng.below(2) as usize } else { 0 } }
}

fn check_headers(got: &http::HeaderMap, want: &[(String, String)], what: &str) -> Option<String> {
    let mut g: Vec<(String, Vec<u8>)> = got.iter().map(|(k, v)| (k.as_str().to_string(), v.as_bytes().to_vec())).collect();
    let mut w: Vec<(String, Vec<u8>)> = want.iter().map(|(k, v)| (k.clone(), v.as_bytes().to_vec())).collect();
    // per name the order of values must be kept; across names HeaderMap does not keep the order
    g.sort_by(|a, b| a.0.cmp(&b.0));
    w.sort_by(|a, b| a.0.cmp(&b.0));
    if g != w {
        Some(format!("{}: header fields differ (got {} fields, submitted {})", what, g.len(), w.len()))
    } else {
        None
    }
}

#[derive(PartialEq, Debug, Clone)]
enum St {
    Run,
    Done,
    Aborted(String), // ended with an error result (fine after a reset / an ending)
    Bad(String),     // a violation
}

struct SendSide {
    ss: Option<h2::SendStream<Bytes>>,
    tag: usize,
    msg: Msg,
    sent: usize,
    requested: bool,
    chunk: usize,
    finished: bool,
    /// submit every chunk at once instead of waiting for capacity
    eager: bool,
}

impl SendSide {
    /// Ok(true) = everything submitted
    fn pump(&mut self, cx: &mut Context<'_>) -> Result<bool, String> {
        let ss = match self.ss.as_mut() {
            Some(s) => s,
            None => return Ok(true),
        };
        loop {
            if self.sent == self.msg.size {
                if self.msg.trailers {
                    let mut t = http::HeaderMap::new();
                    t.insert("x-t", http::HeaderValue::from_str(&format!("t{}", self.tag)).unwrap());
                    ss.send_trailers(t).map_err(|e| format!("send_trailers {:?}", e))?;
                } else {
                    ss.send_data(Bytes::new(), true).map_err(|e| format!("send eos {:?}", e))?;
                }
                self.finished = true;
                self.ss = None;
                return Ok(true);
            }
            let want = (self.msg.size - self.sent).min(self.chunk);
            if self.eager {
                // a sender that does not wait for capacity: h2 buffers what the windows do not allow yet (several
                // frames of one stream queue up behind a blocked one; their order is the body's order)
                ss.send_data(body(self.tag, self.sent, want), false).map_err(|e| format!("send_data {:?}", e))?;
                self.sent += want;
                continue;
            }
            if !self.requested {
                ss.reserve_capacity(want);
                self.requested = true;
            }
            let cap = ss.capacity();
            if cap == 0 {
                match ss.poll_capacity(cx) {
                    Poll::Ready(Some(Ok(0))) => return Err("C16 poll_capacity reported Ready(0)".into()),
                    Poll::Ready(Some(Ok(_))) => continue,
                    Poll::Ready(Some(Err(e))) => return Err(format!("poll_capacity {:?}", e)),
                    Poll::Ready(None) => return Err("poll_capacity None".into()),
                    Poll::Pending => return Ok(false),
                }
            }
            let n = cap.min(want);
            ss.send_data(body(self.tag, self.sent, n), false).map_err(|e| format!("send_data {:?}", e))?;
            self.sent += n;
            self.requested = false;
        }
    }
}

struct RecvSide {
    body: Option<h2::RecvStream>,
    tag: usize,
    msg: Msg,
    got: usize,
    data_done: bool,
}

impl RecvSide {
    /// Ok(Some(clean_end)) when finished
    fn pump(&mut self, cx: &mut Context<'_>) -> Result<Option<bool>, St> {
        let b = match self.body.as_mut() {
            Some(b) => b,
            None => return Ok(Some(true)),
        };
        loop {
            if !self.data_done {
                match b.poll_data(cx) {
                    Poll::Ready(Some(Ok(d))) => {
                        for (i, x) in d.iter().enumerate() {
                            if *x != pat(self.tag, self.got + i) {
                                return Err(St::Bad(format!("C01 body byte {} of message {} differs from what was submitted", self.got + i, self.tag)));
                            }
                        }
                        self.got += d.len();
                        if self.got > self.msg.size {
                            return Err(St::Bad(format!("C01 message {} delivered {} bytes, more than the {} submitted", self.tag, self.got, self.msg.size)));
                        }
                        let _ = b.flow_control().release_capacity(d.len());
                    }
                    Poll::Ready(Some(Err(e))) => return Err(St::Aborted(format!("data {:?}", e.reason()))),
                    Poll::Ready(None) => self.data_done = true,
                    Poll::Pending => {
                        if b.is_end_stream() && self.got < self.msg.size {
                            return Err(St::Bad(format!("C01 is_end_stream() true after {} of {} bytes of message {}", self.got, self.msg.size, self.tag)));
                        }
                        return Ok(None);
                    }
                }
            } else {
                match b.poll_trailers(cx) {
                    Poll::Ready(Ok(t)) => {
                        if self.got != self.msg.size {
                            return Err(St::Bad(format!("C01 clean end of message {} after {} of {} bytes", self.tag, self.got, self.msg.size)));
                        }
                        match (t, self.msg.trailers) {
                            (Some(t), true) => {
                                if t.get("x-t").map(|v| v.as_bytes().to_vec()) != Some(format!("t{}", self.tag).into_bytes()) || t.len() != 1 {
                                    return Err(St::Bad(format!("C01 trailers of message {} differ", self.tag)));
                                }
                            }
                            (None, false) => {}
                            (Some(_), false) => return Err(St::Bad(format!("C01 message {} delivered trailers that were never sent", self.tag))),
                            (None, true) => return Err(St::Bad(format!("C01 message {} lost its trailers", self.tag))),
                        }
                        self.body = None;
                        return Ok(Some(true));
                    }
                    Poll::Ready(Err(e)) => return Err(St::Aborted(format!("trailers {:?}", e.reason()))),
                    Poll::Pending => return Ok(None),
                }
            }
        }
    }
}

struct CTask {
    /// "Expect: 100-continue": the body is not sent before an interim response arrived
    gate: bool,
    send: SendSide,
    rf: Option<h2::client::ResponseFuture>,
    interim_got: usize,
    recv: RecvSide,
    st: St,
    reset_at: Option<u64>,
    was_reset: bool,
}
struct STask {
    /// the final response is sent only after the whole request body was read (the interim ones at once)
    gate: bool,
    recv: RecvSide,
    resp: Option<h2::server::SendResponse<Bytes>>,
    send: SendSide,
    interim_sent: usize,
    responded: bool,
    st: St,
    reset_at: Option<u64>,
    was_reset: bool,
}

pub fn run(seed: u64, mode: &str) -> String {
    let mut rng = Rng::new(seed ^ 0x5eed_e2e);
    let flags = Arc::new(Flags(Mutex::new(vec![true, true, true])));
    let c2s = Pipe::default();
    let s2c = Pipe::default();
    let caps = [64usize, 65, 100, 1000, 16384, 100000, 1 << 30];
    let chunks = [1usize, 9, 10, 100, 1000, 16384, 100000, 1 << 30];
    for p in [&c2s, &s2c] {
        let mut g = p.0.lock().unwrap();
        g.cap = *rng.pick(&caps);
        // C06 assumes a transport that keeps accepting bytes: with buffers smaller than what both
        // endpoints may owe each other at once (a control reply behind a full codec buffer), two h2
        // endpoints that each refuse to read while a reply is owed block each other. That is a
        // property of the transport hypothesis, not a lost wake-up: keep the pipes large unless the
        // run is about what happens after an ending.
        if mode != "ending" {
            g.cap = g.cap.max(100000);
        }
        g.chunk = *rng.pick(&chunks);
    }
    let wins = [1u32, 2, 10, 100, 1000, 16384, 65535, 100000, 1 << 20];
    let mut cb = h2::client::Builder::new();
    let mut sb = h2::server::Builder::new();
    let ciw = *rng.pick(&wins);
    let siw = *rng.pick(&wins);
    cb.initial_window_size(ciw);
    sb.initial_window_size(siw);
    cb.data_frame_budget(usize::MAX);
    sb.data_frame_budget(usize::MAX);
    if rng.chance(1, 2) {
        cb.initial_connection_window_size((*rng.pick(&wins[3..])).max(65535));
    }
    if rng.chance(1, 2) {
        sb.initial_connection_window_size((*rng.pick(&wins[3..])).max(65535));
    }
    let mcs = *rng.pick(&[1u32, 2, 3, 100]);
    sb.max_concurrent_streams(mcs);
    let sbuf = *rng.pick(&[1usize, 10, 1000, 16384, 400 * 1024]);
    cb.max_send_buffer_size(sbuf);
    sb.max_send_buffer_size(sbuf);
    if rng.chance(1, 3) {
        let m = *rng.pick(&[16384u32, 16385, 65536, 1 << 20]);
        cb.max_frame_size(m);
        sb.max_frame_size(m);
    }
    if rng.chance(1, 4) {
        cb.header_table_size(*rng.pick(&[0u32, 100, 4096]));
    }
    cb.max_header_list_size(1 << 20);
    sb.max_header_list_size(1 << 20);
    let nreq = 1 + rng.below(6) as usize;
    let reqs: Vec<Msg> = (0..nreq).map(|k| gen_msg(&mut rng, 2 * k, siw < 100)).collect();
    let resps: Vec<Msg> = (0..nreq).map(|k| gen_msg(&mut rng, 2 * k + 1, ciw < 100)).collect();
    let trace = std::env::var("H2V_TRACE").is_ok();
    if trace {
        c2s.0.lock().unwrap().log = Some(("c->s".into(), crate::conn::Scanner::new(true)));
        s2c.0.lock().unwrap().log = Some(("s->c".into(), crate::conn::Scanner::new(false)));
    }
    let cio = Io { rd: s2c.clone(), wr: c2s.clone() };
    let sio = Io { rd: c2s.clone(), wr: s2c.clone() };
    let mut chs = Box::pin(cb.handshake::<_, Bytes>(cio));
    let mut shs = Box::pin(sb.handshake::<_, Bytes>(sio));
    let mut cconn: Option<h2::client::Connection<Io, Bytes>> = None;
    let mut sr: Option<h2::client::SendRequest<Bytes>> = None;
    let mut sconn: Option<h2::server::Connection<Io, Bytes>> = None;
    let mut ctasks: Vec<CTask> = vec![];
    let mut stasks: Vec<STask> = vec![];
    let mut started = 0usize;
    let mut steps = 0u64;
    let mut conn_done = (false, false);
    let mut conn_res = (String::new(), String::new());
    let chaos = mode == "chaos";
    let ending_at = if mode == "ending" { Some(20 + rng.below(3000)) } else { None };
    let ending_kind = rng.below(8);
    let mut ended = false;
    let pipes = {
        let (a, b) = {
            let g = c2s.0.lock().unwrap();
            (g.cap, g.chunk)
        };
        let (c, d) = {
            let g = s2c.0.lock().unwrap();
            (g.cap, g.chunk)
        };
        format!("{}/{}:{}/{}", a, b, c, d)
    };
    let cfg = format!("seed={} mode={} ciw={} siw={} mcs={} sbuf={} nreq={} ending={:?}:{} pipes={}", seed, mode, ciw, siw, mcs, sbuf, nreq, ending_at, ending_kind, pipes);
    let mut viol: Vec<String> = vec![];
    let mut lingering: Vec<Box<dyn std::any::Any>> = vec![];
    loop {
        steps += 1;
        if steps > 3_000_000 {
            return format!("FAIL C08 busy-loop: 3000000 executor steps without quiescence {}", cfg);
        }
        if let Some(at) = ending_at {
            if !ended && steps >= at {
                ended = true;
                match ending_kind {
                    0 => {
                        // clean EOF both ways
                        for p in [&c2s, &s2c] {
                            let mut g = p.0.lock().unwrap();
                            g.closed = true;
                            if let Some(w) = g.rw.take() { w.wake(); }
                            if let Some(w) = g.ww.take() { w.wake(); }
                        }
                    }
                    1 | 2 => {
                        let k = if ending_kind == 1 { std::io::ErrorKind::ConnectionReset } else { std::io::ErrorKind::BrokenPipe };
                        for p in [&c2s, &s2c] {
                            let mut g = p.0.lock().unwrap();
                            g.err = Some(k);
                            if let Some(w) = g.rw.take() { w.wake(); }
                            if let Some(w) = g.ww.take() { w.wake(); }
                        }
                    }
                    3 => {
                        let mut g = c2s.0.lock().unwrap();
                        g.closed = true;
                        if let Some(w) = g.rw.take() { w.wake(); }
                        if let Some(w) = g.ww.take() { w.wake(); }
                    }
                    4 => {
                        if let Some(s) = sconn.as_mut() {
                            s.graceful_shutdown();
                            set_flag(&flags, 1);
                        }
                    }
                    5 => {
                        if let Some(s) = sconn.as_mut() {
                            s.abrupt_shutdown(h2::Reason::INTERNAL_ERROR);
                            set_flag(&flags, 1);
                        }
                    }
                    6 => {
                        cconn = None; // drop the client connection mid-flight
                        sr = None;
                        conn_done.0 = true;
                        // the transport goes away with it
                        let mut g = c2s.0.lock().unwrap();
                        g.closed = true;
                        if let Some(w) = g.rw.take() { w.wake(); }
                        drop(g);
                        let mut g = s2c.0.lock().unwrap();
                        g.closed = true;
                        if let Some(w) = g.ww.take() { w.wake(); }
                    }
                    _ => {
                        let mut g = s2c.0.lock().unwrap();
                        g.closed = true;
                        if let Some(w) = g.rw.take() { w.wake(); }
                        if let Some(w) = g.ww.take() { w.wake(); }
                    }
                }
            }
        }
        let ready: Vec<usize> = {
            let f = flags.0.lock().unwrap();
            (0..f.len()).filter(|i| f[*i]).collect()
        };
        if ready.is_empty() {
            // quiescent: drop one of the handles that were kept beyond their stream's reset; dropping the last
            // reference of an idle client connection has to wake the connection task (C19)
            if let Some(h) = lingering.pop() {
                drop(h);
                continue;
            }
            break;
        }
        let id = *rng.pick(&ready);
        flags.0.lock().unwrap()[id] = false;
        if trace {
            eprintln!("step {} poll task {} (ready {:?}) ended={} done={:?}", steps, id, ready, ended, conn_done);
        }
        let w = waker(id, &flags);
        let mut cx = Context::from_waker(&w);
        if id == 0 {
            if conn_done.0 {
                continue;
            }
            if cconn.is_none() && !ended {
                match chs.as_mut().poll(&mut cx) {
                    Poll::Ready(Ok((s, c))) => {
                        sr = Some(s);
                        cconn = Some(c);
                        set_flag(&flags, 0);
                        set_flag(&flags, 2);
                    }
                    Poll::Ready(Err(e)) => {
                        conn_done.0 = true;
                        conn_res.0 = format!("hs-err {:?}", e.reason());
                    }
                    Poll::Pending => {}
                }
            } else if let Some(c) = cconn.as_mut() {
                if started == 0 {
                    set_flag(&flags, 2); // let the request starter look at the settings again
                }
                if let Poll::Ready(r) = Pin::new(c).poll(&mut cx) {
                    conn_done.0 = true;
                    conn_res.0 = format!("{:?}", r.map_err(|e| e.reason()));
                    // `conn.await` consumes the connection: it is dropped once its future completed
                    cconn = None;
                }
            } else if ended {
                match chs.as_mut().poll(&mut cx) {
                    Poll::Ready(Ok((s, c))) => {
                        sr = Some(s);
                        cconn = Some(c);
                        set_flag(&flags, 0);
                        set_flag(&flags, 2);
                    }
                    Poll::Ready(Err(_)) => conn_done.0 = true,
                    Poll::Pending => {}
                }
            }
        } else if id == 1 {
            if conn_done.1 {
                continue;
            }
            if sconn.is_none() {
                match shs.as_mut().poll(&mut cx) {
                    Poll::Ready(Ok(c)) => {
                        sconn = Some(c);
                        set_flag(&flags, 1);
                    }
                    Poll::Ready(Err(e)) => {
                        conn_done.1 = true;
                        conn_res.1 = format!("hs-err {:?}", e.reason());
                    }
                    Poll::Pending => {}
                }
            } else {
                let mut drop_server = false;
                loop {
                    match sconn.as_mut().unwrap().poll_accept(&mut cx) {
                        Poll::Ready(Some(Ok((req, resp)))) => {
                            let (parts, b) = req.into_parts();
                            // which request is this? the path says
                            let k: usize = parts.uri.path().trim_start_matches("/r").parse().unwrap_or(usize::MAX);
                            if k >= nreq {
                                viol.push(format!("C01 server received a request for an unknown path {}", parts.uri.path()));
                                continue;
                            }
                            if let Some(e) = check_headers(&parts.headers, &reqs[k].headers, &format!("request {}", k)) {
                                viol.push(format!("C01 {}", e));
                            }
                            if parts.method != http::Method::POST {
                                viol.push(format!("C01 request {} method changed to {}", k, parts.method));
                            }
                            let tid = 100 + stasks.len() * 2 + 1;
                            let reset_at = if chaos && rng.chance(1, 5) { Some(steps + rng.below(400)) } else { None };
                            stasks.push(STask {
                                gate: resps[k].interim >= 1 && (seed as usize + k) % 2 == 0,
                                recv: RecvSide { body: Some(b), tag: 2 * k, msg: reqs[k].clone(), got: 0, data_done: false },
                                resp: Some(resp),
                                send: SendSide { ss: None, tag: 2 * k + 1, msg: resps[k].clone(), sent: 0, requested: false, chunk: *rng.pick(&[1usize, 100, 16384, 100000]), finished: false, eager: false },
                                interim_sent: 0,
                                responded: false,
                                st: St::Run,
                                reset_at,
                                was_reset: false,
                            });
                            if let Some(t) = stasks.last_mut() {
                                t.send.eager = t.send.chunk >= 100 && (seed as usize + t.send.tag) % 3 == 0;
                            }
                            set_flag(&flags, tid);
                        }
                        Poll::Ready(Some(Err(e))) => {
                            conn_done.1 = true;
                            conn_res.1 = format!("accept-err {:?}", e.reason());
                            drop_server = true;
                            break;
                        }
                        Poll::Ready(None) => {
                            conn_done.1 = true;
                            conn_res.1 = "closed".into();
                            drop_server = true;
                            break;
                        }
                        Poll::Pending => break,
                    }
                }
                if drop_server {
                    // the accept loop ended: the server connection goes out of scope
                    sconn = None;
                }
            }
        } else if id == 2 {
            if let Some(s) = sr.as_mut() {
                // a well-behaved application: learn the peer's concurrency limit before issuing requests
                // (requests issued earlier may be refused; trailers following them on a refused stream
                // run into known finding F18)
                if s.current_max_send_streams() == usize::MAX {
                    continue;
                }
                while started < nreq {
                    match s.poll_ready(&mut cx) {
                        Poll::Ready(Ok(())) => {}
                        Poll::Ready(Err(_)) => {
                            started = nreq;
                            break;
                        }
                        Poll::Pending => break,
                    }
                    let k = started;
                    let mut rb = http::Request::builder().method("POST").uri(format!("http://example.com/r{}", k));
                    for (n, v) in &reqs[k].headers {
                        rb = rb.header(n.as_str(), v.as_str());
                    }
                    match s.send_request(rb.body(()).unwrap(), false) {
                        Ok((rf, ss)) => {
                            let tid = 100 + ctasks.len() * 2;
                            let reset_at = if chaos && rng.chance(1, 5) { Some(steps + rng.below(400)) } else { None };
                            ctasks.push(CTask {
                                gate: resps[k].interim >= 1 && (seed as usize + k) % 2 == 0,
                                send: SendSide { ss: Some(ss), tag: 2 * k, msg: reqs[k].clone(), sent: 0, requested: false, chunk: *rng.pick(&[1usize, 100, 16384, 100000]), finished: false, eager: false },
                                rf: Some(rf),
                                interim_got: 0,
                                recv: RecvSide { body: None, tag: 2 * k + 1, msg: resps[k].clone(), got: 0, data_done: false },
                                st: St::Run,
                                reset_at,
                                was_reset: false,
                            });
                            if let Some(t) = ctasks.last_mut() {
                                t.send.eager = t.send.chunk >= 100 && (seed as usize + t.send.tag) % 3 == 0;
                            }
                            set_flag(&flags, tid);
                            started += 1;
                        }
                        Err(_) => {
                            started = nreq;
                            break;
                        }
                    }
                }
                if started >= nreq {
                    sr = None; // drop the request handle so that the idle client closes itself
                }
            }
        } else if id >= 100 && (id - 100) % 2 == 0 {
            let k = (id - 100) / 2;
            if k >= ctasks.len() {
                continue;
            }
            let t = &mut ctasks[k];
            if t.st != St::Run {
                continue;
            }
            if let Some(at) = t.reset_at {
                if steps >= at && !t.was_reset {
                    t.was_reset = true;
                    if let Some(ss) = t.send.ss.as_mut() {
                        ss.send_reset(h2::Reason::CANCEL);
                    }
                    t.send.ss = None;
                    // now and then a handle of the reset stream outlives the reset: it is dropped when
                    // everything else has come to rest (see `lingering` below)
                    if (seed as usize + k) % 3 == 0 {
                        if let Some(h) = t.rf.take() {
                            lingering.push(Box::new(h));
                        }
                        if let Some(h) = t.recv.body.take() {
                            lingering.push(Box::new(h));
                        }
                    }
                    t.rf = None;
                    t.recv.body = None;
                    t.st = St::Aborted("reset by the client application".into());
                    continue;
                }
            }
            // send side (a gated exchange waits for the first interim response, as an application that sent
            // "Expect: 100-continue" does)
            let waiting_for_interim = t.gate && t.interim_got == 0 && t.rf.is_some();
            if !waiting_for_interim {
                match t.send.pump(&mut cx) {
                    Ok(_) => {}
                    Err(e) => {
                        if e.starts_with("C16") {
                            t.st = St::Bad(e);
                            continue;
                        }
                        t.send.ss = None; // the peer reset / refused / the connection ended
                        t.send.finished = false;
                    }
                }
            }
            // interim + final response
            if t.rf.is_some() {
                loop {
                    match t.rf.as_mut().unwrap().poll_informational(&mut cx) {
                        Poll::Ready(Some(Ok(r))) => {
                            t.interim_got += 1;
                            if r.status() != http::StatusCode::EARLY_HINTS {
                                t.st = St::Bad(format!("C01 interim response of message {} has status {}", t.recv.tag, r.status()));
                            }
                        }
                        _ => break,
                    }
                }
                match Pin::new(t.rf.as_mut().unwrap()).poll(&mut cx) {
                    Poll::Ready(Ok(r)) => {
                        let (parts, b) = r.into_parts();
                        if let Some(e) = check_headers(&parts.headers, &t.recv.msg.headers, &format!("response {}", t.recv.tag)) {
                            t.st = St::Bad(format!("C01 {}", e));
                        }
                        if t.interim_got != t.recv.msg.interim {
                            t.st = St::Bad(format!("C01 response {}: {} interim responses delivered, {} sent", t.recv.tag, t.interim_got, t.recv.msg.interim));
                        }
                        t.recv.body = Some(b);
                        t.rf = None;
                    }
                    Poll::Ready(Err(e)) => {
                        t.rf = None;
                        t.send.ss = None;
                        // a refused request is not a failure of the library: the application would retry it
                        t.st = if e.reason() == Some(h2::Reason::REFUSED_STREAM) { St::Done } else { St::Aborted(format!("response {:?}", e.reason())) };
                        continue;
                    }
                    Poll::Pending => {}
                }
            }
            if waiting_for_interim && t.interim_got > 0 && t.st == St::Run {
                set_flag(&flags, id); // the go-ahead arrived: come back and send the body
            }
            if t.rf.is_none() && t.st == St::Run {
                match t.recv.pump(&mut cx) {
                    Ok(Some(_)) => {
                        if t.send.ss.is_none() {
                            t.st = St::Done;
                        }
                    }
                    Ok(None) => {}
                    Err(s) => {
                        t.send.ss = None;
                        t.recv.body = None;
                        t.st = s;
                    }
                }
            }
        } else if id >= 100 {
            let k = (id - 100) / 2;
            if k >= stasks.len() {
                continue;
            }
            let t = &mut stasks[k];
            if t.st != St::Run {
                continue;
            }
            if let Some(at) = t.reset_at {
                if steps >= at && !t.was_reset {
                    t.was_reset = true;
                    if let Some(r) = t.resp.as_mut() {
                        r.send_reset(h2::Reason::CANCEL);
                    } else if let Some(ss) = t.send.ss.as_mut() {
                        ss.send_reset(h2::Reason::CANCEL);
                    }
                    t.resp = None;
                    t.send.ss = None;
                    t.recv.body = None;
                    t.st = St::Aborted("reset by the server application".into());
                    continue;
                }
            }
            // respond early or late
            if !t.responded {
                while t.interim_sent < t.send.msg.interim {
                    let r = http::Response::builder().status(103).body(()).unwrap();
                    match t.resp.as_mut().unwrap().send_informational(r) {
                        Ok(()) => t.interim_sent += 1,
                        Err(_) => break,
                    }
                }
                let hold = t.gate && t.recv.body.is_some() && t.interim_sent > 0;
                if !hold {
                    let mut rb = http::Response::builder().status(200);
                    for (n, v) in &t.send.msg.headers {
                        rb = rb.header(n.as_str(), v.as_str());
                    }
                    match t.resp.as_mut().unwrap().send_response(rb.body(()).unwrap(), false) {
                        Ok(ss) => {
                            t.send.ss = Some(ss);
                            t.responded = true;
                        }
                        Err(e) => {
                            t.st = St::Aborted(format!("respond {:?}", e.reason()));
                            t.recv.body = None;
                            continue;
                        }
                    }
                }
            }
            match t.send.pump(&mut cx) {
                Ok(_) => {}
                Err(e) => {
                    if e.starts_with("C16") {
                        t.st = St::Bad(e);
                        continue;
                    }
                    t.send.ss = None;
                    t.send.finished = false;
                }
            }
            match t.recv.pump(&mut cx) {
                Ok(Some(_)) => {
                    if !t.responded {
                        set_flag(&flags, id); // the request is complete: come back and answer it
                    } else if t.send.ss.is_none() {
                        t.resp = None;
                        t.st = St::Done;
                    }
                }
                Ok(None) => {}
                Err(s) => {
                    t.send.ss = None;
                    t.resp = None;
                    t.recv.body = None;
                    t.st = s;
                }
            }
        }
    }
    // ---- quiescent: evaluate
    for t in &ctasks {
        if let St::Bad(e) = &t.st {
            viol.push(e.clone());
        }
    }
    for t in &stasks {
        if let St::Bad(e) = &t.st {
            viol.push(e.clone());
        }
    }
    let disturbed = chaos || ending_at.is_some();
    let stuck_c: Vec<usize> = ctasks.iter().enumerate().filter(|(_, t)| t.st == St::Run).map(|(i, _)| i).collect();
    let stuck_s: Vec<usize> = stasks.iter().enumerate().filter(|(_, t)| t.st == St::Run).map(|(i, _)| i).collect();
    let tag = if ending_at.is_some() && ended { "C07" } else { "C06" };
    if !stuck_c.is_empty() || !stuck_s.is_empty() {
        let d = |t: &CTask| format!("sent {}/{} got {}/{} rf={} cap={}", t.send.sent, t.send.msg.size, t.recv.got, t.recv.msg.size, t.rf.is_some(), t.send.ss.as_ref().map(|s| s.capacity()).unwrap_or(0));
        let ds = |t: &STask| format!("sent {}/{} got {}/{} responded={}", t.send.sent, t.send.msg.size, t.recv.got, t.recv.msg.size, t.responded);
        viol.push(format!(
            "{} no task is runnable but client tasks {:?} [{}] and server tasks {:?} [{}] never resolved",
            tag,
            stuck_c,
            stuck_c.iter().map(|i| d(&ctasks[*i])).collect::<Vec<_>>().join("; "),
            stuck_s,
            stuck_s.iter().map(|i| ds(&stasks[*i])).collect::<Vec<_>>().join("; ")
        ));
    }
    if started < nreq && !disturbed {
        viol.push(format!("C06 only {} of {} requests could be started", started, nreq));
    }
    if !disturbed {
        for (i, t) in ctasks.iter().enumerate() {
            if let St::Aborted(e) = &t.st {
                viol.push(format!("C06 exchange {} failed without any reset or ending: {}", i, e));
            }
        }
        for (i, t) in stasks.iter().enumerate() {
            if let St::Aborted(e) = &t.st {
                viol.push(format!("C06 server side of exchange {} failed without any reset or ending: {}", i, e));
            }
        }
    }
    if viol.is_empty() && !conn_done.0 && (stuck_c.is_empty() && stuck_s.is_empty()) {
        viol.push(format!(
            "{} client connection future did not complete after every handle was dropped (idle close); started={} sr_dropped={} client tasks {:?} server tasks {:?}",
            if ended { "C07" } else { "C19" },
            started,
            sr.is_none(),
            ctasks.iter().map(|t| format!("{:?}", t.st)).collect::<Vec<_>>(),
            stasks.iter().map(|t| format!("{:?}", t.st)).collect::<Vec<_>>()
        ));
    }
    if ended && !conn_done.1 && viol.is_empty() && ending_kind != 4 {
        viol.push("C07 server connection future did not complete after the ending".into());
    }
    let done = ctasks.iter().filter(|t| t.st == St::Done).count();
    if viol.is_empty() {
        format!("ok done={}/{} steps={} conn=({};{}) {}", done, nreq, steps, conn_res.0.replace(' ', ""), conn_res.1.replace(' ', ""), cfg.replace(' ', ","))
    } else {
        format!("FAIL {} conn=({};{}) {}", viol.join(" ;; "), conn_res.0.replace(' ', ""), conn_res.1.replace(' ', ""), cfg.replace(' ', ","))
    }
}

pub fn handle(ws: &[&str]) -> Option<String> {
    match ws {
        ["e2e_run", seed, mode] => Some(run(seed.parse().ok()?, mode)),
        _ => None,
    }
}

pub fn generate(profile: &str, seed: u64, cases: usize, out: &mut dyn std::io::Write) -> bool {
    let mode = match profile {
        "e2e-plain" => "plain",
        "e2e-chaos" => "chaos",
        "e2e-ending" => "ending",
        _ => return false,
    };
    for i in 0..cases {
        writeln!(out, "e2e_run {} {}", seed.wrapping_mul(1_000_003).wrapping_add(i as u64), mode).unwrap();
    }
    true
}
