//! Parser for Rust `{:#?}` / `{:?}` output into a generic tree, so that the internal state of a live
//! `Connection` (flow windows, counters, slab entries, queues) can be read without any hook.

#[derive(Debug, Clone)]
pub enum V {
    Atom(String),
    /// `Name { k: v, .. }`, or a map `{ k: v }` (name = "")
    Struct(String, Vec<(String, V)>),
    /// `Name(a, b)` (name may be empty: a plain tuple)
    Tuple(String, Vec<V>),
    List(Vec<V>),
}

fn tokenize(s: &str) -> Vec<String> {
    let b = s.as_bytes();
    let mut i = 0;
    let mut out = vec![];
    while i < b.len() {
        let c = b[i] as char;
        if c.is_whitespace() {
            i += 1;
        } else if c == '"' || (c == 'b' && i + 1 < b.len() && b[i + 1] == b'"') {
            let st = i;
            if c == 'b' {
                i += 1;
            }
            i += 1;
            while i < b.len() && b[i] != b'"' {
                if b[i] == b'\\' {
                    i += 1;
                }
                i += 1;
            }
            i += 1;
            out.push(s[st..i.min(b.len())].to_string());
        } else if "{}()[]:,".contains(c) {
            // `::` inside paths stays with the identifier
            if c == ':' && i + 1 < b.len() && b[i + 1] == b':' {
                if let Some(last) = out.last_mut() {
                    last.push_str("::");
                }
                i += 2;
                // glue the following identifier
                let st = i;
                while i < b.len() && !(b[i] as char).is_whitespace() && !"{}()[]:,".contains(b[i] as char) {
                    i += 1;
                }
                if let Some(last) = out.last_mut() {
                    last.push_str(&s[st..i]);
                }
            } else {
                out.push(c.to_string());
                i += 1;
            }
        } else {
            let st = i;
            while i < b.len() && !(b[i] as char).is_whitespace() && !"{}()[]:,".contains(b[i] as char) {
                i += 1;
            }
            out.push(s[st..i].to_string());
        }
    }
    out
}

struct P {
    t: Vec<String>,
    i: usize,
}

impl P {
    fn peek(&self) -> Option<&str> {
        self.t.get(self.i).map(|s| s.as_str())
    }
    fn next(&mut self) -> String {
        let x = self.t.get(self.i).cloned().unwrap_or_default();
        self.i += 1;
        x
    }
    fn value(&mut self) -> V {
        match self.peek() {
            Some("{") => self.braces(String::new()),
            Some("[") => self.list(),
            Some("(") => self.paren(String::new()),
            _ => {
                let mut name = self.next();
                // multi-token atoms like `Some` are handled by paren; `<locked>` etc stay atoms
                match self.peek() {
                    Some("{") => self.braces(name),
                    Some("(") => self.paren(name),
                    _ => {
                        // atoms such as `1s`, `0x1`, `Instant { .. }` are covered; glue "|"-flag lists
                        while let Some(p) = self.peek() {
                            if p == "|" {
                                name.push('|');
                                self.next();
                                name.push_str(&self.next());
                            } else {
                                break;
                            }
                        }
                        V::Atom(name)
                    }
                }
            }
        }
    }
    fn braces(&mut self, name: String) -> V {
        self.next();
        let mut items = vec![];
        while let Some(p) = self.peek() {
            if p == "}" {
                break;
            }
            if p == ".." {
                self.next();
                continue;
            }
            let k = self.value();
            if self.peek() == Some(":") {
                self.next();
                let v = self.value();
                let ks = match k {
                    V::Atom(a) => a,
                    other => format!("{:?}", other),
                };
                items.push((ks, v));
            } else {
                items.push((String::new(), k));
            }
            if self.peek() == Some(",") {
                self.next();
            }
        }
        self.next();
        V::Struct(name, items)
    }
    fn paren(&mut self, name: String) -> V {
        self.next();
        let mut vals = vec![];
        // flags print as `(0x5: END_STREAM | END_HEADERS)`
        if name.is_empty() && self.peek().map(|p| p.starts_with("0x")).unwrap_or(false) {
            let mut s = String::new();
            while let Some(p) = self.peek() {
                if p == ")" {
                    break;
                }
                s.push_str(&self.next());
            }
            self.next();
            return V::Atom(s);
        }
        while let Some(p) = self.peek() {
            if p == ")" {
                break;
            }
            vals.push(self.value());
            if self.peek() == Some(",") {
                self.next();
            }
        }
        self.next();
        V::Tuple(name, vals)
    }
    fn list(&mut self) -> V {
        self.next();
        let mut vals = vec![];
        while let Some(p) = self.peek() {
            if p == "]" {
                break;
            }
            vals.push(self.value());
            if self.peek() == Some(",") {
                self.next();
            }
        }
        self.next();
        V::List(vals)
    }
}

pub fn parse(text: &str) -> V {
    P { t: tokenize(text), i: 0 }.value()
}

impl V {
    pub fn get(&self, k: &str) -> Option<&V> {
        match self {
            V::Struct(_, items) => items.iter().find(|(n, _)| n == k).map(|(_, v)| v),
            _ => None,
        }
    }
    pub fn path(&self, p: &[&str]) -> Option<&V> {
        let mut v = self;
        for k in p {
            v = v.get(k)?;
        }
        Some(v)
    }
    pub fn name(&self) -> &str {
        match self {
            V::Struct(n, _) | V::Tuple(n, _) => n,
            V::Atom(a) => a,
            V::List(_) => "",
        }
    }
    pub fn items(&self) -> &[(String, V)] {
        match self {
            V::Struct(_, items) => items,
            _ => &[],
        }
    }
    pub fn tup(&self) -> &[V] {
        match self {
            V::Tuple(_, v) => v,
            _ => &[],
        }
    }
    pub fn atom(&self) -> Option<&str> {
        match self {
            V::Atom(a) => Some(a),
            _ => None,
        }
    }
    /// first number found when descending through single-element tuples: `Window(5)`, `StreamId(3)`, `Some(4)`
    pub fn num(&self) -> Option<i64> {
        match self {
            V::Atom(a) => a.parse().ok(),
            V::Tuple(_, v) if !v.is_empty() => v[0].num(),
            _ => None,
        }
    }
    /// find the first struct with this name anywhere below (depth first)
    pub fn find(&self, name: &str) -> Option<&V> {
        match self {
            V::Struct(n, items) => {
                if n == name {
                    return Some(self);
                }
                items.iter().find_map(|(_, v)| v.find(name))
            }
            V::Tuple(_, vs) | V::List(vs) => vs.iter().find_map(|v| v.find(name)),
            V::Atom(_) => None,
        }
    }
}
