//! Real parallelism (C20): a real h2 client and server on a multi-threaded tokio runtime joined by
//! `tokio::io::duplex`; request tasks, body readers/writers and a user-ping task run on different
//! worker threads while the two connection tasks are being polled. A watchdog turns a hang
//! (deadlock, lost wake-up) into a result. Monitors only — no model correspondence here.
//!
//!   thr_run <seed>

use crate::util::Rng;
use bytes::Bytes;
use std::sync::Arc;
use std::time::Duration;

/// "Cnn what went wrong" -> "Cnn what_went_wrong": the property id stays a word of its own
fn tagged(e: &str) -> String {
    match e.split_once(' ') {
        Some((t, rest)) => format!("{} {}", t, rest.replace(' ', "_")),
        None => e.to_string(),
    }
}

fn pat(tag: usize, off: usize) -> u8 {
    ((off as u64).wrapping_mul(131).wrapping_add(tag as u64 * 17) % 251) as u8
}

async fn send_body(mut ss: h2::SendStream<Bytes>, tag: usize, size: usize, chunk: usize) -> Result<(), String> {
    let mut sent = 0;
    while sent < size {
        let want = (size - sent).min(chunk);
        ss.reserve_capacity(want);
        let cap = std::future::poll_fn(|cx| ss.poll_capacity(cx)).await;
        let cap = match cap {
            Some(Ok(0)) => return Err("C16 poll_capacity reported Ready(0)".into()),
            Some(Ok(c)) => c,
            Some(Err(e)) => return Err(format!("poll_capacity {:?}", e)),
            None => return Err("poll_capacity None".into()),
        };
        let n = cap.min(want);
        let b: Vec<u8> = (0..n).map(|i| pat(tag, sent + i)).collect();
        ss.send_data(Bytes::from(b), false).map_err(|e| format!("send_data {:?}", e))?;
        sent += n;
    }
    ss.send_data(Bytes::new(), true).map_err(|e| format!("eos {:?}", e))?;
    Ok(())
}

async fn read_body(mut b: h2::RecvStream, tag: usize, size: usize) -> Result<(), String> {
    let mut got = 0;
    while let Some(d) = b.data().await {
        let d = d.map_err(|e| format!("data {:?}", e))?;
        for (i, x) in d.iter().enumerate() {
            if *x != pat(tag, got + i) {
                return Err(format!("C01 byte {} of message {} differs", got + i, tag));
            }
        }
        got += d.len();
        let _ = b.flow_control().release_capacity(d.len());
    }
    if got != size {
        return Err(format!("C01 message {} ended after {} of {} bytes", tag, got, size));
    }
    Ok(())
}

pub fn run(seed: u64) -> String {
    let mut rng = Rng::new(seed ^ 0x7777_0000);
    let nreq = 2 + rng.below(10) as usize;
    let sizes: Vec<(usize, usize)> = (0..nreq)
        .map(|_| (*rng.pick(&[0usize, 1, 1000, 16384, 65536, 300000]), *rng.pick(&[0usize, 1, 1000, 16384, 65536, 300000])))
        .collect();
    let win = *rng.pick(&[1000u32, 16384, 65535, 1 << 20]);
    let mcs = *rng.pick(&[1u32, 2, 4, 100]);
    let pipe = *rng.pick(&[4096usize, 65536, 1 << 20]);
    let pings = rng.below(4) as usize;
    let cfg = format!("seed={} nreq={} win={} mcs={} pipe={} pings={}", seed, nreq, win, mcs, pipe, pings);
    let rt = match tokio::runtime::Builder::new_multi_thread().worker_threads(6).enable_time().build() {
        Ok(r) => r,
        Err(e) => return format!("FAIL harness runtime {:?}", e),
    };
    let sizes2 = sizes.clone();
    let res: Result<Result<Vec<String>, String>, _> = rt.block_on(async move {
        tokio::time::timeout(Duration::from_secs(60), async move {
            let (cio, sio) = tokio::io::duplex(pipe);
            let sizes_s = sizes2.clone();
            let server = tokio::spawn(async move {
                let mut sb = h2::server::Builder::new();
                sb.initial_window_size(win).max_concurrent_streams(mcs);
                let mut conn = sb.handshake::<_, Bytes>(sio).await.map_err(|e| format!("server hs {:?}", e))?;
                let mut tasks = vec![];
                while let Some(r) = conn.accept().await {
                    // (once the client is through and has closed, whatever the server still wanted to write — a
                    //  WINDOW_UPDATE, an acknowledgement — meets a broken pipe: the end of the run, not a failure; an
                    //  I/O failure in mid-exchange shows on the client's side)
                    let (req, mut resp) = match r {
                        Ok(x) => x,
                        Err(e) if e.is_io() => break,
                        Err(e) => return Err(format!("accept {:?}", e)),
                    };
                    let k: usize = req.uri().path().trim_start_matches("/r").parse().unwrap_or(0);
                    let (up, down) = sizes_s[k];
                    let body = req.into_body();
                    tasks.push(tokio::spawn(async move {
                        let ss = resp.send_response(http::Response::new(()), false).map_err(|e| format!("respond {:?}", e))?;
                        let a = tokio::spawn(read_body(body, 2 * k, up));
                        let b = tokio::spawn(send_body(ss, 2 * k + 1, down, 16384));
                        a.await.map_err(|e| format!("join {:?}", e))??;
                        b.await.map_err(|e| format!("join {:?}", e))??;
                        Ok::<(), String>(())
                    }));
                }
                for t in tasks {
                    t.await.map_err(|e| format!("join {:?}", e))??;
                }
                Ok::<(), String>(())
            });
            let mut cb = h2::client::Builder::new();
            cb.initial_window_size(win);
            let (sr, mut conn) = cb.handshake::<_, Bytes>(cio).await.map_err(|e| format!("client hs {:?}", e))?;
            let pp = conn.ping_pong();
            let cdrv = tokio::spawn(async move { conn.await.map_err(|e| format!("client conn {:?}", e)) });
            let pinger = tokio::spawn(async move {
                if let Some(mut pp) = pp {
                    for _ in 0..pings {
                        pp.ping(h2::Ping::opaque()).await.map_err(|e| format!("C14 user ping failed {:?}", e))?;
                    }
                }
                Ok::<(), String>(())
            });
            let mut reqs = vec![];
            for k in 0..nreq {
                let sr = sr.clone();
                let (up, down) = sizes2[k];
                reqs.push(tokio::spawn(async move {
                    let mut sr = sr.ready().await.map_err(|e| format!("ready {:?}", e))?;
                    let req = http::Request::builder().method("POST").uri(format!("http://example.com/r{}", k)).body(()).unwrap();
                    let (rf, ss) = sr.send_request(req, false).map_err(|e| format!("send_request {:?}", e))?;
                    drop(sr);
                    let a = tokio::spawn(send_body(ss, 2 * k, up, 16384));
                    let resp = match rf.await {
                        Ok(r) => r,
                        Err(e) if e.reason() == Some(h2::Reason::REFUSED_STREAM) => return Ok::<String, String>("refused".into()),
                        Err(e) => return Err(format!("response {:?}", e)),
                    };
                    read_body(resp.into_body(), 2 * k + 1, down).await?;
                    a.await.map_err(|e| format!("join {:?}", e))??;
                    Ok("ok".into())
                }));
            }
            let mut out = vec![];
            for r in reqs {
                match r.await.map_err(|e| format!("join {:?}", e))? {
                    Ok(s) => out.push(s),
                    Err(e) if e.contains("REFUSED") => out.push("refused".into()),
                    Err(e) => return Err(e),
                }
            }
            // (the ping handle does not keep the connection open: the request handle is let go only when the pings
            //  are through — otherwise the idle client may close under them, which is no failure of the library)
            pinger.await.map_err(|e| format!("join {:?}", e))??;
            drop(sr);
            cdrv.await.map_err(|e| format!("join {:?}", e))??;
            server.await.map_err(|e| format!("join {:?}", e))??;
            Ok(out)
        })
        .await
    });
    rt.shutdown_timeout(Duration::from_millis(200));
    match res {
        Err(_) => format!("FAIL C20 hang: not finished after 60 s on a multi-threaded runtime (deadlock or lost wake-up) {}", cfg.replace(' ', ",")),
        Ok(Err(e)) => {
            let e = if e.starts_with('C') { e } else { format!("C20 {}", e) };
            format!("FAIL {} {}", tagged(&e), cfg.replace(' ', ","))
        }
        Ok(Ok(v)) => format!("ok n={} refused={} {}", v.len(), v.iter().filter(|s| *s == "refused").count(), cfg.replace(' ', ",")),
    }
}

/// a transport whose reads dawdle: when nothing is there to read it spins for a moment before answering Pending, which keeps
/// the connection task inside `poll` (between its look at "any handles left?" and the registration of its waker) for a while
struct SlowRead<T> {
    io: T,
    spin_us: u64,
    /// rendezvous with the task that drops the last handle: 0 idle, 1 armed, 2 the connection task is inside a read
    /// (i.e. inside `poll`, before it has registered its waker again), 3 the handle has been dropped
    gate: Arc<std::sync::atomic::AtomicU8>,
}

impl<T: tokio::io::AsyncRead + Unpin> tokio::io::AsyncRead for SlowRead<T> {
    fn poll_read(mut self: std::pin::Pin<&mut Self>, cx: &mut std::task::Context<'_>, buf: &mut tokio::io::ReadBuf<'_>) -> std::task::Poll<std::io::Result<()>> {
        let r = std::pin::Pin::new(&mut self.io).poll_read(cx, buf);
        use std::sync::atomic::Ordering::SeqCst;
        if r.is_pending() && self.gate.compare_exchange(1, 2, SeqCst, SeqCst).is_ok() {
            // hold the connection task inside its poll until the other thread has dropped the handle
            let t0 = std::time::Instant::now();
            while self.gate.load(SeqCst) != 3 && t0.elapsed() < Duration::from_millis(20) {
                std::hint::spin_loop();
            }
        } else if r.is_pending() && self.spin_us > 0 {
            let t0 = std::time::Instant::now();
            while t0.elapsed() < Duration::from_micros(self.spin_us) {
                std::hint::spin_loop();
            }
        }
        r
    }
}

impl<T: tokio::io::AsyncWrite + Unpin> tokio::io::AsyncWrite for SlowRead<T> {
    fn poll_write(mut self: std::pin::Pin<&mut Self>, cx: &mut std::task::Context<'_>, b: &[u8]) -> std::task::Poll<std::io::Result<usize>> {
        std::pin::Pin::new(&mut self.io).poll_write(cx, b)
    }
    fn poll_flush(mut self: std::pin::Pin<&mut Self>, cx: &mut std::task::Context<'_>) -> std::task::Poll<std::io::Result<()>> {
        std::pin::Pin::new(&mut self.io).poll_flush(cx)
    }
    fn poll_shutdown(mut self: std::pin::Pin<&mut Self>, cx: &mut std::task::Context<'_>) -> std::task::Poll<std::io::Result<()>> {
        std::pin::Pin::new(&mut self.io).poll_shutdown(cx)
    }
}

/// C20 / C19: the last handles of an idle client connection are dropped on OTHER threads while the connection task is
/// (very probably) in the middle of a poll; whatever the interleaving, the connection must notice, send GOAWAY and finish.
/// Many short-lived connections per run.
pub fn run_idle(seed: u64) -> String {
    let mut rng = Rng::new(seed ^ 0x1d1e_0000);
    let trials = 25;
    let rt = match tokio::runtime::Builder::new_multi_thread().worker_threads(4).enable_time().build() {
        Ok(r) => r,
        Err(e) => return format!("FAIL harness runtime {:?}", e),
    };
    let mut plan = vec![];
    for _ in 0..trials {
        plan.push((*rng.pick(&[0u64, 20, 100, 400]), rng.below(400), rng.below(3)));
    }
    let res: Result<Result<(), String>, _> = rt.block_on(async move {
        tokio::time::timeout(Duration::from_secs(600), async move {
            for (t, (spin, delay_us, order)) in plan.into_iter().enumerate() {
                let (cio, sio) = tokio::io::duplex(65536);
                let server = tokio::spawn(async move {
                    let mut conn = match h2::server::handshake(sio).await {
                        Ok(c) => c,
                        Err(_) => return,
                    };
                    while let Some(Ok((_req, mut resp))) = conn.accept().await {
                        if let Ok(mut ss) = resp.send_response(http::Response::new(()), false) {
                            let _ = ss.send_data(Bytes::from_static(b"hello"), true);
                        }
                    }
                });
                let gate = Arc::new(std::sync::atomic::AtomicU8::new(0));
                let rendezvous = t % 2 == 0;
                let (mut sr, conn) = h2::client::handshake(SlowRead { io: cio, spin_us: spin, gate: gate.clone() }).await.map_err(|e| format!("client hs {:?}", e))?;
                let cdrv = tokio::spawn(async move { conn.await });
                let req = http::Request::builder().uri("http://example.com/").body(()).unwrap();
                let (rf, _ss) = sr.send_request(req, true).map_err(|e| format!("send_request {:?}", e))?;
                let resp = rf.await.map_err(|e| format!("response {:?}", e))?;
                let mut body = resp.into_body();
                while let Some(d) = body.data().await {
                    let d = d.map_err(|e| format!("data {:?}", e))?;
                    let _ = body.flow_control().release_capacity(d.len());
                }
                drop(_ss);
                // the stream is finished; what is left are two handles, dropped from two other tasks at (almost) the same time
                let g1 = gate.clone();
                let a = tokio::spawn(async move {
                    if order == 1 {
                        tokio::task::yield_now().await;
                    }
                    if rendezvous {
                        g1.store(1, std::sync::atomic::Ordering::SeqCst);
                    }
                    drop(body);
                });
                let g2 = gate.clone();
                let b = tokio::spawn(async move {
                    use std::sync::atomic::Ordering::SeqCst;
                    if order == 2 {
                        tokio::task::yield_now().await;
                    }
                    let t0 = std::time::Instant::now();
                    if rendezvous {
                        // wait until the connection task is inside the poll that the other drop has caused
                        while g2.load(SeqCst) != 2 && t0.elapsed() < Duration::from_millis(50) {
                            std::hint::spin_loop();
                        }
                    } else {
                        while t0.elapsed() < Duration::from_micros(delay_us) {
                            std::hint::spin_loop();
                        }
                    }
                    drop(sr);
                    g2.store(3, SeqCst);
                });
                let _ = a.await;
                let _ = b.await;
                // (a lost wake-up hangs for ever; the limit only has to be out of reach of a machine that is merely busy)
                match tokio::time::timeout(Duration::from_secs(25), cdrv).await {
                    Err(_) => {
                        return Err(format!(
                            "C20 client connection did not finish within 25 s after its last handles were dropped on other threads (trial {}, spin {} us, delay {} us, order {})",
                            t, spin, delay_us, order
                        ))
                    }
                    Ok(Ok(Ok(()))) => {}
                    Ok(r) => return Err(format!("C20 idle client connection ended with {:?} (trial {})", r.map(|x| x.map_err(|e| e.to_string())), t)),
                }
                server.abort();
            }
            Ok(())
        })
        .await
    });
    rt.shutdown_timeout(Duration::from_millis(200));
    match res {
        Err(_) => format!("FAIL C20 idle-close runs did not finish within 120 s seed={}", seed),
        Ok(Err(e)) => format!("FAIL {} seed={}", tagged(&e), seed),
        Ok(Ok(())) => format!("ok idle trials={} seed={}", trials, seed),
    }
}

/// what a request carries along in its extensions: the last owner of a handle of the SAME connection
#[derive(Clone)]
struct Holder(#[allow(dead_code)] Arc<std::sync::Mutex<Option<h2::SendStream<Bytes>>>>);

/// C20: a message handed to the library may own handles of that very connection (an application keeps the upload
/// stream of one exchange in the extensions of the next request); whatever the library does with the message, it
/// does not run such a destructor while it holds its own lock — the call returns, other handles stay usable.
pub fn run_ext(seed: u64) -> String {
    let (tx, rx) = std::sync::mpsc::channel::<Result<(), String>>();
    std::thread::spawn(move || {
        let rt = match tokio::runtime::Builder::new_multi_thread().worker_threads(3).enable_time().build() {
            Ok(r) => r,
            Err(e) => {
                let _ = tx.send(Err(format!("harness runtime {:?}", e)));
                return;
            }
        };
        let r: Result<(), String> = rt.block_on(async move {
            let (cio, sio) = tokio::io::duplex(65536);
            tokio::spawn(async move {
                let mut conn = match h2::server::handshake(sio).await {
                    Ok(c) => c,
                    Err(_) => return,
                };
                while let Some(Ok((_req, mut resp))) = conn.accept().await {
                    let _ = resp.send_response(http::Response::new(()), true);
                }
            });
            let (mut sr, conn) = h2::client::handshake(cio).await.map_err(|e| format!("client hs {:?}", e))?;
            tokio::spawn(async move {
                let _ = conn.await;
            });
            let req1 = http::Request::builder().method("POST").uri("http://example.com/up").body(()).unwrap();
            let (rf1, ss1) = sr.send_request(req1, false).map_err(|e| format!("send_request {:?}", e))?;
            let mut req2 = http::Request::builder().uri("http://example.com/next").body(()).unwrap();
            req2.extensions_mut().insert(Holder(Arc::new(std::sync::Mutex::new(Some(ss1)))));
            // the call that must return
            let (rf2, _ss2) = sr.send_request(req2, true).map_err(|e| format!("send_request 2 {:?}", e))?;
            let _ = tokio::time::timeout(Duration::from_secs(5), rf2).await;
            drop(rf1);
            Ok(())
        });
        let _ = tx.send(r);
    });
    match rx.recv_timeout(Duration::from_secs(25)) {
        Ok(Ok(())) => format!("ok ext seed={}", seed),
        Ok(Err(e)) => format!("FAIL C20 harness: {} seed={}", e.replace(' ', "_"), seed),
        Err(_) => format!(
            "FAIL C20 send_request_did_not_return_within_25_s_for_a_request_whose_extensions_own_a_handle_of_the_same_connection seed={}",
            seed
        ),
    }
}

pub fn handle(ws: &[&str]) -> Option<String> {
    match ws {
        ["thr_run", seed] => Some(run(seed.parse().ok()?)),
        ["thr_idle", seed] => Some(run_idle(seed.parse().ok()?)),
        ["thr_ext", seed] => Some(run_ext(seed.parse().ok()?)),
        _ => None,
    }
}

pub fn generate(seed: u64, cases: usize, out: &mut dyn std::io::Write) {
    for i in 0..cases {
        writeln!(out, "thr_run {}", seed.wrapping_mul(1_000_003).wrapping_add(i as u64)).unwrap();
        if i % 2 == 0 {
            writeln!(out, "thr_idle {}", seed.wrapping_mul(1_000_003).wrapping_add(i as u64)).unwrap();
        }
        if i % 10 == 0 {
            writeln!(out, "thr_ext {}", seed.wrapping_mul(1_000_003).wrapping_add(i as u64)).unwrap();
        }
    }
}
