//! Generators of op scripts for the pure layer (Huffman, HPACK integers, HPACK decoder).
//! Every random choice comes from the one `Rng`, so (profile, seed, cases) replays exactly.

use crate::util::{hex, Rng};
use h2::verif_hooks::hpack as hk;
use std::io::Write;

pub fn generate(profile: &str, seed: u64, cases: usize, out: &mut dyn Write) -> bool {
    let mut rng = Rng::new(seed);
    match profile {
        "huffman" => gen_huffman(&mut rng, cases, out),
        "huffman-exhaustive" => gen_huffman_exhaustive(cases, out),
        "hpackint" => gen_int(&mut rng, cases, out),
        "hpackdec" => gen_dec(&mut rng, cases, out, false),
        "hpackdec-allsplits" => gen_dec(&mut rng, cases, out, true),
        "hpackenc" => gen_enc(&mut rng, cases, out),
        "codecread" => crate::codec::gen_read(&mut rng, cases, out),
        "codecwrite" => crate::codec::gen_write(&mut rng, cases, out),
        _ => return false,
    }
    true
}

// ------------------------------------------------------------------------------------ Huffman

fn rand_text(rng: &mut Rng) -> Vec<u8> {
    let len = match rng.below(10) {
        0 => 0,
        1 => 1,
        2..=5 => rng.below(12) as usize,
        6..=8 => rng.below(80) as usize,
        _ => rng.below(600) as usize,
    };
    let alpha = rng.below(5);
    (0..len)
        .map(|_| match alpha {
            0 => *rng.pick(b"abcdefghijklmnopqrstuvwxyz0123456789-./: "),
            1 => rng.below(128) as u8,
            2 => rng.next() as u8,
            3 => *rng.pick(&[0u8, 1, 9, 10, 13, 22, 127, 128, 192, 220, 249, 254, 255, 35, 62, 92]),
            _ => {
                if rng.chance(1, 4) {
                    rng.next() as u8
                } else {
                    *rng.pick(b"etaoinshrdlu /=%")
                }
            }
        })
        .collect()
}

fn gen_huffman(rng: &mut Rng, cases: usize, out: &mut dyn Write) {
    for _ in 0..cases {
        let s = rand_text(rng);
        writeln!(out, "huff_enc {}", hex(&s)).unwrap();
        let mut e = hk::huffman_encode(&s);
        writeln!(out, "huff_dec {}", hex(&e)).unwrap();
        // the round-trip law against the spec decoder/encoder
        writeln!(out, "spec_huff_dec {}", hex(&e)).unwrap();
        // mutations: bit flip, truncate, extend with padding / EOS / junk, random bytes
        match rng.below(8) {
            0 if !e.is_empty() => {
                let i = rng.below(e.len() as u64) as usize;
                e[i] ^= 1 << rng.below(8);
            }
            1 if !e.is_empty() => {
                let n = rng.below(e.len() as u64) as usize;
                e.truncate(n);
            }
            2 => e.push(0xff),
            3 => e.extend_from_slice(&[0xff, 0xff, 0xff, 0xff]),
            4 => e.extend_from_slice(&[0xff, 0xff, 0xff, 0xfc | rng.below(4) as u8]),
            5 => e = rng.rbytes(0, 12),
            6 => {
                let b = rng.next() as u8;
                e.push(b)
            }
            _ => {
                if let Some(l) = e.last_mut() {
                    *l &= !(1u8 << rng.below(4));
                }
            }
        }
        writeln!(out, "huff_dec {}", hex(&e)).unwrap();
        writeln!(out, "spec_huff_dec {}", hex(&e)).unwrap();
    }
}

/// all byte strings of length 0..=2 (65 793 strings), then `cases` ignored
fn gen_huffman_exhaustive(_cases: usize, out: &mut dyn Write) {
    writeln!(out, "huff_dec -").unwrap();
    writeln!(out, "spec_huff_dec -").unwrap();
    for a in 0..=255u8 {
        writeln!(out, "huff_dec {}", hex(&[a])).unwrap();
        writeln!(out, "spec_huff_dec {}", hex(&[a])).unwrap();
        writeln!(out, "huff_enc {}", hex(&[a])).unwrap();
    }
    for a in 0..=255u8 {
        for b in 0..=255u8 {
            writeln!(out, "huff_dec {}", hex(&[a, b])).unwrap();
            writeln!(out, "spec_huff_dec {}", hex(&[a, b])).unwrap();
        }
    }
}

// ------------------------------------------------------------------------------------ integers

fn gen_int(rng: &mut Rng, cases: usize, out: &mut dyn Write) {
    let pool: [u64; 24] = [
        0, 1, 14, 15, 16, 30, 31, 32, 62, 63, 64, 126, 127, 128, 254, 255, 256, 16383, 16384, 2097151, 2097152,
        268435455, 268435456, 4294967295,
    ];
    for _ in 0..cases {
        let p = 1 + rng.below(8);
        let v = if rng.chance(1, 2) {
            *rng.pick(&pool) + rng.below(3)
        } else {
            { let sh = 1 + rng.below(33); rng.below(1u64 << sh) }
        };
        let first = if p == 8 { 0 } else { (rng.below(1 << (8 - p)) << p) as u8 };
        writeln!(out, "int_enc {} {} {}", v, p, first).unwrap();
        let mut e = hk::encode_int(v as usize, p as usize, first);
        let tail = rng.rbytes(0, 3);
        e.extend_from_slice(&tail);
        writeln!(out, "int_dec {} {}", p, hex(&e)).unwrap();
        // malformed: truncations, over-long continuations, bad prefix sizes
        match rng.below(5) {
            0 if !e.is_empty() => {
                let n = rng.below(e.len() as u64) as usize;
                e.truncate(n);
                writeln!(out, "int_dec {} {}", p, hex(&e)).unwrap();
            }
            1 => {
                let mut b = vec![0xffu8];
                for _ in 0..rng.below(7) {
                    b.push(0x80 | rng.next() as u8);
                }
                b.push(rng.below(128) as u8);
                writeln!(out, "int_dec {} {}", p, hex(&b)).unwrap();
            }
            2 => writeln!(out, "int_dec {} {}", rng.below(12), hex(&rng.rbytes(1, 7))).unwrap(),
            _ => writeln!(out, "int_dec {} {}", p, hex(&rng.rbytes(0, 8))).unwrap(),
        }
    }
}

// ------------------------------------------------------------------------------------ HPACK decoder

const NAMES: &[&str] = &[
    ":method", ":path", ":scheme", ":authority", ":status", ":protocol", "accept", "accept-encoding", "cookie",
    "content-length", "content-type", "user-agent", "x-a", "x-b", "x-custom-header-name-long-enough-to-matter", "te",
    "connection", "host", "set-cookie", "a", "etag", "date", "via", "x-\"quoted", "vary", "x-1", "x-2", "x-3",
];

const STATIC_NAMES: &[&str] = &[
    "", ":authority", ":method", ":method", ":path", ":path", ":scheme", ":scheme", ":status", ":status", ":status",
    ":status", ":status", ":status", ":status", "accept-charset", "accept-encoding", "accept-language",
    "accept-ranges", "accept", "access-control-allow-origin", "age", "allow", "authorization", "cache-control",
    "content-disposition", "content-encoding", "content-language", "content-length", "content-location",
    "content-range", "content-type", "cookie", "date", "etag", "expect", "expires", "from", "host", "if-match",
    "if-modified-since", "if-none-match", "if-range", "if-unmodified-since", "last-modified", "link", "location",
    "max-forwards", "proxy-authenticate", "proxy-authorization", "range", "referer", "refresh", "retry-after",
    "server", "set-cookie", "strict-transport-security", "transfer-encoding", "user-agent", "vary", "via",
    "www-authenticate",
];

pub struct Shadow {
    entries: Vec<(Vec<u8>, Vec<u8>)>, // newest first
    size: usize,
    max: usize,      // current table max
    limit: usize,    // what the decoder side allows (last_max_update once a block started)
    pending: Option<usize>,
}

impl Shadow {
    pub fn new(max: usize) -> Shadow {
        Shadow { entries: vec![], size: 0, max, limit: max, pending: None }
    }
    fn insert(&mut self, n: &[u8], v: &[u8]) {
        let len = 32 + n.len() + v.len();
        while self.size + len > self.max {
            match self.entries.pop() {
                Some((a, b)) => self.size -= 32 + a.len() + b.len(),
                None => break,
            }
        }
        if self.size + len <= self.max {
            self.size += len;
            self.entries.insert(0, (n.to_vec(), v.to_vec()));
        }
    }
    fn set_max(&mut self, m: usize) {
        self.max = m;
        while self.size > self.max {
            let (a, b) = self.entries.pop().unwrap();
            self.size -= 32 + a.len() + b.len();
        }
    }
}

fn value_for(rng: &mut Rng, name: &str) -> Vec<u8> {
    match name {
        ":method" => rng.pick(&["GET", "POST", "PATCH", "CONNECT", "X-M", "OPTIONS"]).as_bytes().to_vec(),
        ":status" => rng.pick(&["200", "204", "404", "100", "999", "103"]).as_bytes().to_vec(),
        ":scheme" => rng.pick(&["http", "https"]).as_bytes().to_vec(),
        ":path" => rng.pick(&["/", "/index.html", "/a/b?c=d", "*", ""]).as_bytes().to_vec(),
        // (spellings that differ in letter case only are different values: what is indexed is the octets)
        ":authority" | ":protocol" => rng
            .pick(&["a", "A", "example.com", "Example.COM", "EXAMPLE.com", "www.example.org:8080", "WWW.example.org:8080", "websocket", "WebSocket", "h\u{e9}llo", ""])
            .as_bytes()
            .to_vec(),
        _ => match rng.below(6) {
            0 => vec![],
            1 => b"gzip, deflate".to_vec(),
            2 => (0..rng.below(40)).map(|_| *rng.pick(b"abcdefghij0123456789-_=; ")).collect(),
            3 => (0..rng.below(300)).map(|_| 32 + rng.below(95) as u8).collect(),
            4 => rng.pick(&["v1", "v2", "v3", "trailers", "0", "42"]).as_bytes().to_vec(),
            _ => (0..rng.below(12)).map(|_| 128 + rng.below(128) as u8).collect(), // opaque high bytes (valid values)
        },
    }
}

fn enc_str(rng: &mut Rng, s: &[u8], dst: &mut Vec<u8>) {
    if rng.chance(1, 2) {
        let h = hk::huffman_encode(s);
        dst.extend_from_slice(&hk::encode_int(h.len(), 7, 0x80));
        dst.extend_from_slice(&h);
    } else {
        dst.extend_from_slice(&hk::encode_int(s.len(), 7, 0));
        dst.extend_from_slice(s);
    }
}

fn find_name(sh: &Shadow, name: &[u8], rng: &mut Rng) -> Option<usize> {
    let mut c = vec![];
    for (i, n) in STATIC_NAMES.iter().enumerate() {
        if i > 0 && n.as_bytes() == name {
            c.push(i);
        }
    }
    for (i, (n, _)) in sh.entries.iter().enumerate() {
        if n == name {
            c.push(62 + i);
        }
    }
    if c.is_empty() {
        None
    } else {
        Some(*rng.pick(&c))
    }
}

/// one valid field representation, chosen at random among the legal ones
fn emit_field(rng: &mut Rng, sh: &mut Shadow, name: &[u8], value: &[u8], dst: &mut Vec<u8>) {
    // fully indexed?
    if rng.chance(2, 3) {
        if let Some(i) = sh.entries.iter().position(|(n, v)| n == name && v == value) {
            dst.extend_from_slice(&hk::encode_int(62 + i, 7, 0x80));
            return;
        }
    }
    let idx = if rng.chance(3, 4) { find_name(sh, name, rng) } else { None };
    let mode = rng.below(3);
    let (pfx, first) = match mode {
        0 => (6, 0x40u8),
        1 => (4, 0x00u8),
        _ => (4, 0x10u8),
    };
    match idx {
        Some(i) => dst.extend_from_slice(&hk::encode_int(i, pfx, first)),
        None => {
            dst.push(first);
            enc_str(rng, name, dst);
        }
    }
    enc_str(rng, value, dst);
    if mode == 0 {
        sh.insert(name, value);
    }
}

pub fn gen_block(rng: &mut Rng, sh: &mut Shadow) -> Vec<u8> {
    let mut b = vec![];
    // size updates at the start of the block (legal place)
    if let Some(p) = sh.pending.take() {
        sh.limit = p;
        if sh.max > p || rng.chance(1, 2) {
            let m = if rng.chance(1, 3) { rng.below(p as u64 + 1) as usize } else { p };
            b.extend_from_slice(&hk::encode_int(m, 5, 0x20));
            sh.set_max(m);
        }
    }
    if rng.chance(1, 6) {
        let m = if rng.chance(1, 2) { rng.below(sh.limit as u64 + 1) as usize } else { *rng.pick(&[0usize, 31, 32, 33, 64, 100, 4096]) };
        if m <= sh.limit {
            b.extend_from_slice(&hk::encode_int(m, 5, 0x20));
            sh.set_max(m);
            if rng.chance(1, 3) {
                let m2 = rng.below(sh.limit as u64 + 1) as usize;
                b.extend_from_slice(&hk::encode_int(m2, 5, 0x20));
                sh.set_max(m2);
            }
        }
    }
    let nf = match rng.below(8) {
        0 => 0,
        1 => 1,
        _ => 1 + rng.below(9),
    };
    for _ in 0..nf {
        if rng.chance(1, 4) {
            // static fully indexed
            let i = 1 + rng.below(61) as usize;
            b.extend_from_slice(&hk::encode_int(i, 7, 0x80));
            continue;
        }
        let name = *rng.pick(NAMES);
        let value = value_for(rng, name);
        emit_field(rng, sh, name.as_bytes(), &value, &mut b);
    }
    b
}

/// a block shaped like an HTTP/2 message head: distinct pseudo fields first, then regular fields
/// (with a small chance of breaking exactly one of those rules)
pub fn gen_block_h2(rng: &mut Rng, sh: &mut Shadow) -> Vec<u8> {
    let mut b = vec![];
    let req = rng.chance(1, 2);
    let mut names: Vec<&str> = if req { vec![":method", ":scheme", ":authority", ":path"] } else { vec![":status"] };
    if rng.chance(1, 6) {
        names.remove(rng.below(names.len() as u64) as usize);
    }
    if rng.chance(1, 12) {
        names.push(*rng.pick(&[":method", ":status", ":path", ":protocol"]));
    }
    let nreg = rng.below(6);
    for _ in 0..nreg {
        names.push(*rng.pick(&NAMES[6..]));
    }
    if rng.chance(1, 15) && names.len() > 1 {
        let i = rng.below(names.len() as u64) as usize;
        let j = rng.below(names.len() as u64) as usize;
        names.swap(i, j);
    }
    for name in names {
        let value = if name == "te" && rng.chance(2, 3) { b"trailers".to_vec() } else { value_for(rng, name) };
        emit_field(rng, sh, name.as_bytes(), &value, &mut b);
    }
    b
}

/// a block that is (very probably) invalid in one specific way
pub fn gen_bad_block(rng: &mut Rng, sh: &mut Shadow) -> Vec<u8> {
    let mut b = gen_block(rng, sh);
    match rng.below(14) {
        0 => b.extend_from_slice(&hk::encode_int(62 + sh.entries.len() + rng.below(3) as usize, 7, 0x80)), // bad index
        1 => b.push(0x80),                                                                               // index 0
        2 => {
            // size update after a field (whole: error)
            b.push(0x82);
            b.extend_from_slice(&hk::encode_int(rng.below(sh.limit as u64 + 1) as usize, 5, 0x20));
        }
        3 => b.extend_from_slice(&hk::encode_int(sh.limit + 1 + rng.below(5) as usize, 5, 0x20)), // oversize update (maybe misplaced too)
        4 => {
            // integer overflow
            b.extend_from_slice(&[0xff, 0xff, 0xff, 0xff, 0xff, 0x7f]);
        }
        5 => {
            // bad huffman padding / EOS in a literal value
            b.push(0x00);
            b.extend_from_slice(&[0x01, b'a']);
            let bad: &[u8] = *rng.pick(&[&[0x83u8, 0xff, 0xff, 0xff][..], &[0x81, 0x00][..], &[0x84, 0xff, 0xff, 0xff, 0xff][..], &[0x82, 0x1c, 0x00][..]]);
            b.extend_from_slice(bad);
        }
        6 => {
            // empty name (F12 shape)
            let first = *rng.pick(&[0x40u8, 0x00, 0x10]);
            b.extend_from_slice(&[first, 0x00]);
            enc_str(rng, b"v", &mut b);
            if rng.chance(1, 2) {
                b.push(0x82);
            }
        }
        7 => {
            // upper-case / illegal name
            b.push(0x00);
            let nm: &[u8] = *rng.pick(&[&b"Accept"[..], &b"a b"[..], &b"x\x00y"[..], &b":bogus"[..], &b"a:b"[..]]);
            enc_str(rng, nm, &mut b);
            enc_str(rng, b"v", &mut b);
        }
        8 => {
            // illegal value octets
            b.push(0x00);
            enc_str(rng, b"x-v", &mut b);
            let vl: &[u8] = *rng.pick(&[&b"a\x00b"[..], &b"\x7f"[..], &b"a\nb"[..], &b"\x1f"[..]]);
            enc_str(rng, vl, &mut b);
        }
        9 => {
            // bad pseudo values
            let (n, v): (&[u8], &[u8]) = *rng.pick(&[
                (&b":status"[..], &b"20"[..]),
                (&b":status"[..], &b"abc"[..]),
                (&b":method"[..], &b""[..]),
                (&b":method"[..], &b"G T"[..]),
                (&b":path"[..], &b"\xff\xfe"[..]),
                (&b":authority"[..], &b"\xc0\x80"[..]),
            ]);
            if rng.chance(1, 2) {
                b.push(0x00);
                enc_str(rng, n, &mut b);
            } else {
                // by static name index
                let idx = STATIC_NAMES.iter().position(|s| s.as_bytes() == n).unwrap();
                b.extend_from_slice(&hk::encode_int(idx, 4, 0x00));
            }
            enc_str(rng, v, &mut b);
        }
        10 if !b.is_empty() => {
            let n = rng.below(b.len() as u64) as usize;
            b.truncate(n); // truncated block: NeedMore at END_HEADERS
        }
        11 if !b.is_empty() => {
            let i = rng.below(b.len() as u64) as usize;
            b[i] ^= 1 << rng.below(8);
        }
        12 => b = rng.rbytes(1, 24),
        _ => {
            // string longer than the block
            b.push(0x00);
            b.extend_from_slice(&hk::encode_int(5 + rng.below(300) as usize, 7, 0));
            b.extend_from_slice(b"ab");
        }
    }
    b
}

fn emit_block(rng: &mut Rng, block: &[u8], out: &mut dyn Write, all_splits: bool, sizes: &[usize]) {
    // fragments: the whole block, or split at 1..3 random points; sizes lists what to re-create before each variant
    let _ = sizes;
    writeln!(out, "dec_newblock").unwrap();
    let mut cuts: Vec<usize> = vec![];
    if !all_splits && block.len() > 1 {
        let k = match rng.below(6) {
            0 | 1 => 0,
            2 | 3 => 1,
            4 => 2,
            _ => 3,
        };
        for _ in 0..k {
            cuts.push(1 + rng.below(block.len() as u64 - 1) as usize);
        }
        cuts.sort();
        cuts.dedup();
    }
    let mut prev = 0;
    for c in cuts.iter().chain(std::iter::once(&block.len())) {
        writeln!(out, "dec_feed {}", hex(&block[prev..*c])).unwrap();
        prev = *c;
    }
    // the spec's verdict on the whole block (the harness answers with what the real code did)
    writeln!(out, "spec_dec_block {}", hex(block)).unwrap();
}

fn gen_dec(rng: &mut Rng, cases: usize, out: &mut dyn Write, all_splits: bool) {
    let sizes = [0usize, 32, 33, 64, 100, 128, 200, 512, 4096, 4096, 4096, 65536];
    for _ in 0..cases {
        let max = *rng.pick(&sizes);
        let nblocks = 1 + rng.below(8) as usize;
        if all_splits {
            // small histories; the last block is fed at EVERY split point, each on a fresh replay of the history
            let mut sh = Shadow::new(max);
            let mut hist: Vec<Vec<u8>> = vec![];
            for _ in 0..rng.below(3) {
                hist.push(gen_block(rng, &mut sh));
            }
            let last = if rng.chance(1, 2) { gen_block(rng, &mut sh) } else { gen_bad_block(rng, &mut sh) };
            if last.len() > 48 {
                continue;
            }
            for cut in 0..=last.len() {
                writeln!(out, "dec_new {}", max).unwrap();
                writeln!(out, "spec_dec_new {}", max).unwrap();
                for h in &hist {
                    writeln!(out, "dec_newblock").unwrap();
                    writeln!(out, "dec_feed {}", hex(h)).unwrap();
                    writeln!(out, "spec_dec_block {}", hex(h)).unwrap();
                }
                writeln!(out, "dec_newblock").unwrap();
                if cut == 0 || cut == last.len() {
                    writeln!(out, "dec_feed {}", hex(&last)).unwrap();
                } else {
                    writeln!(out, "dec_feed {}", hex(&last[..cut])).unwrap();
                    writeln!(out, "dec_feed {}", hex(&last[cut..])).unwrap();
                }
                writeln!(out, "spec_dec_block {}", hex(&last)).unwrap();
            }
            continue;
        }
        writeln!(out, "dec_new {}", max).unwrap();
        writeln!(out, "spec_dec_new {}", max).unwrap();
        let mut sh = Shadow::new(max);
        for bi in 0..nblocks {
            if rng.chance(1, 5) {
                let n = *rng.pick(&sizes);
                writeln!(out, "dec_queue {}", n).unwrap();
                writeln!(out, "spec_dec_queue {}", n).unwrap();
                sh.pending = Some(match sh.pending {
                    Some(p) => p.max(n),
                    None => n,
                });
            }
            let last = bi + 1 == nblocks;
            let block = if last && rng.chance(1, 2) { gen_bad_block(rng, &mut sh) } else { gen_block(rng, &mut sh) };
            emit_block(rng, &block, out, false, &sizes);
        }
    }
}

// ------------------------------------------------------------------------------------ HPACK encoder

const ENC_NAMES: &[&str] = &[
    ":method", ":path", ":scheme", ":authority", ":status", ":protocol", "accept", "accept-encoding", "cookie",
    "content-length", "content-type", "user-agent", "x-a", "x-b", "x-c", "x-d", "x-e", "x-f", "x-g", "x-h",
    "x-custom-header-name-long-enough-to-matter", "te", "host", "set-cookie", "a", "etag", "date", "via", "vary",
    "authorization", "location", "age", "x-k1", "x-k2", "x-k3", "x-k4", "x-k5", "x-k6", "x-k7", "x-k8", "x-k9",
];

fn enc_value(rng: &mut Rng, name: &str, maxsz: usize) -> Vec<u8> {
    match name {
        ":method" | ":status" | ":scheme" | ":path" | ":authority" | ":protocol" => value_for(rng, name),
        _ => match rng.below(8) {
            0 => vec![],
            1 => b"gzip, deflate".to_vec(),
            2 | 3 => rng.pick(&["v1", "v2", "v3", "v4", "trailers", "0", "42"]).as_bytes().to_vec(),
            4 => {
                // around the 3/4 rule: 4 * (32 + name + value) vs 3 * max
                let target = (maxsz * 3 / 4).saturating_sub(32 + name.len());
                let d = rng.below(5) as usize;
                let n = (target + d).saturating_sub(2).min(6000);
                vec![b'q'; n]
            }
            5 => (0..rng.below(60)).map(|_| *rng.pick(b"abcdefghij0123456789-_=; ")).collect(),
            6 => (0..rng.below(200)).map(|_| 32 + rng.below(95) as u8).collect(),
            _ => (0..rng.below(12)).map(|_| 128 + rng.below(128) as u8).collect(),
        },
    }
}

fn gen_enc(rng: &mut Rng, cases: usize, out: &mut dyn Write) {
    let sizes = [0usize, 1, 31, 32, 33, 64, 100, 128, 200, 512, 1000, 4096, 4096, 4097, 5000, 65536];
    for _ in 0..cases {
        let init = *rng.pick(&[4096usize, 4096, 4096, 4096, 0, 100, 8192]);
        let cap = *rng.pick(&[0usize, 0, 1, 8, 64]);
        writeln!(out, "enc_new {} {}", init, cap).unwrap();
        let mut cur_max = init.min(4096);
        let nblocks = 1 + rng.below(14);
        // a small per-history name pool makes chains and evictions frequent
        let pool: Vec<&str> = (0..(2 + rng.below(10))).map(|_| *rng.pick(ENC_NAMES)).collect();
        for _ in 0..nblocks {
            for _ in 0..[0u64, 0, 0, 1, 1, 2, 3][rng.below(7) as usize] {
                let n = *rng.pick(&sizes);
                writeln!(out, "enc_max {}", n).unwrap();
                cur_max = n.min(4096);
            }
            let nf = match rng.below(10) {
                0 => 0,
                1 => 1,
                _ => 1 + rng.below(12),
            };
            let mut fs: Vec<String> = vec![];
            let mut prev: Option<&str> = None;
            for _ in 0..nf {
                let (name, nameless) = match prev {
                    Some(p) if !p.starts_with(':') && rng.chance(1, 4) => (p, true),
                    _ => (*rng.pick(&pool), false),
                };
                let v = enc_value(rng, name, cur_max);
                let sens = !name.starts_with(':') && rng.chance(1, 8);
                let fl = match (sens, nameless) {
                    (false, false) => "-",
                    (true, false) => "s",
                    (false, true) => "n",
                    (true, true) => "sn",
                };
                fs.push(format!("{}:{}:{}", hex(name.as_bytes()), hex(&v), fl));
                prev = Some(name);
            }
            writeln!(out, "enc_block {}", if fs.is_empty() { "-".to_string() } else { fs.join(",") }).unwrap();
        }
    }
}
