//! Connection level: a REAL `h2::client::Connection` or `h2::server::Connection` over a scripted
//! in-memory transport, driven by one op per line. Every answer line carries the API result, the
//! frames the endpoint wrote (parsed by this file's own scanner), the wakers that fired during the
//! op, and a digest of the internal state read from the `{:#?}` dump of the connection.

use crate::dbg::{self, V};
use crate::util::{hex, unhex};
use bytes::Bytes;
use h2::verif_hooks::hpack as hk;
use std::collections::HashMap;
use std::future::Future;
use std::pin::Pin;
use std::sync::{Arc, Mutex};
use std::task::{Context, Poll, Wake, Waker};
use tokio::io::{AsyncRead, AsyncWrite, ReadBuf};

// ------------------------------------------------------------------------------------ transport

#[derive(Default)]
pub struct TInner {
    pub rd: Vec<u8>,
    pub eof: bool,
    pub rd_err: Option<std::io::ErrorKind>,
    pub wr_err: Option<std::io::ErrorKind>,
    pub wr: Vec<u8>,
    /// bytes the transport still accepts before answering Pending (None = unlimited)
    pub budget: Option<usize>,
    pub shutdown_called: bool,
    pub read_waker: Option<Waker>,
    pub write_waker: Option<Waker>,
}

#[derive(Clone, Default)]
pub struct Tio(pub Arc<Mutex<TInner>>);

impl std::fmt::Debug for Tio {
    fn fmt(&self, f: &mut std::fmt::Formatter<'_>) -> std::fmt::Result {
        write!(f, "Tio")
    }
}

impl AsyncRead for Tio {
    fn poll_read(self: Pin<&mut Self>, cx: &mut Context<'_>, buf: &mut ReadBuf<'_>) -> Poll<std::io::Result<()>> {
        let mut i = self.0.lock().unwrap();
        if i.rd.is_empty() {
            if let Some(k) = i.rd_err {
                return Poll::Ready(Err(k.into()));
            }
            if i.eof {
                return Poll::Ready(Ok(()));
            }
            i.read_waker = Some(cx.waker().clone());
            return Poll::Pending;
        }
        let n = buf.remaining().min(i.rd.len());
        let d: Vec<u8> = i.rd.drain(..n).collect();
        buf.put_slice(&d);
        Poll::Ready(Ok(()))
    }
}

impl AsyncWrite for Tio {
    fn poll_write(self: Pin<&mut Self>, cx: &mut Context<'_>, b: &[u8]) -> Poll<std::io::Result<usize>> {
        let mut i = self.0.lock().unwrap();
        if let Some(k) = i.wr_err {
            return Poll::Ready(Err(k.into()));
        }
        let n = match i.budget {
            None => b.len(),
            Some(0) => {
                i.write_waker = Some(cx.waker().clone());
                return Poll::Pending;
            }
            Some(k) => k.min(b.len()),
        };
        if let Some(k) = i.budget.as_mut() {
            *k -= n;
        }
        i.wr.extend_from_slice(&b[..n]);
        Poll::Ready(Ok(n))
    }
    fn poll_flush(self: Pin<&mut Self>, _cx: &mut Context<'_>) -> Poll<std::io::Result<()>> {
        Poll::Ready(Ok(()))
    }
    fn poll_shutdown(self: Pin<&mut Self>, _cx: &mut Context<'_>) -> Poll<std::io::Result<()>> {
        self.0.lock().unwrap().shutdown_called = true;
        Poll::Ready(Ok(()))
    }
}

// ------------------------------------------------------------------------------------ wakers

pub struct TagWaker {
    tag: String,
    log: Arc<Mutex<Vec<String>>>,
}

impl Wake for TagWaker {
    fn wake(self: Arc<Self>) {
        self.log.lock().unwrap().push(self.tag.clone());
    }
    fn wake_by_ref(self: &Arc<Self>) {
        self.log.lock().unwrap().push(self.tag.clone());
    }
}

// ------------------------------------------------------------------------------------ wire scanner (independent of h2)

pub struct Scanner {
    buf: Vec<u8>,
    preface_left: usize,
    dec: hk::Dec,
    in_block: Option<(u8, u32, u8, u32)>, // (type, sid, flags, promised) of the block being assembled
    block: Vec<u8>,
    /// also report the DATA payload length without padding (`D:sid:fl:len:datalen`)
    pub detail: bool,
}

impl Scanner {
    pub fn new(expect_preface: bool) -> Scanner {
        Scanner { buf: vec![], preface_left: if expect_preface { 24 } else { 0 }, dec: hk::Dec::new(4096), in_block: None, block: vec![], detail: false }
    }

    fn fields(&mut self, block: &[u8]) -> String {
        self.dec.new_block();
        let (fs, res, _) = self.dec.feed(block);
        let mut s: Vec<String> = fs.iter().map(|(n, v)| format!("{}={}", hex(n), hex(v))).collect();
        if let Err(e) = res {
            s.push(format!("!hpack:{}", e));
        }
        if s.is_empty() {
            "-".into()
        } else {
            s.join(",")
        }
    }

    /// feed written bytes, return rendered complete frames
    pub fn feed(&mut self, bytes: &[u8]) -> Vec<String> {
        self.buf.extend_from_slice(bytes);
        let mut out = vec![];
        if self.preface_left > 0 {
            let n = self.preface_left.min(self.buf.len());
            self.buf.drain(..n);
            self.preface_left -= n;
            if self.preface_left == 0 {
                out.push("PREFACE".to_string());
            }
        }
        loop {
            if self.buf.len() < 9 {
                break;
            }
            let len = ((self.buf[0] as usize) << 16) | ((self.buf[1] as usize) << 8) | self.buf[2] as usize;
            if self.buf.len() < 9 + len {
                break;
            }
            let ty = self.buf[3];
            let fl = self.buf[4];
            let sid = u32::from_be_bytes([self.buf[5], self.buf[6], self.buf[7], self.buf[8]]) & 0x7fff_ffff;
            let p: Vec<u8> = self.buf[9..9 + len].to_vec();
            self.buf.drain(..9 + len);
            let u32at = |p: &[u8], i: usize| -> u32 {
                if p.len() >= i + 4 {
                    u32::from_be_bytes([p[i], p[i + 1], p[i + 2], p[i + 3]])
                } else {
                    0
                }
            };
            match ty {
                0 => {
                    if self.detail {
                        let datalen = if fl & 8 != 0 && !p.is_empty() { len.saturating_sub(1 + p[0] as usize) } else { len };
                        out.push(format!("D:{}:{}:{}:{}", sid, fl, len, datalen));
                    } else {
                        out.push(format!("D:{}:{}:{}", sid, fl, len));
                    }
                }
                1 | 5 => {
                    let (promised, frag) = if ty == 5 { (u32at(&p, 0) & 0x7fff_ffff, p[4.min(p.len())..].to_vec()) } else { (0, p.clone()) };
                    if fl & 4 != 0 {
                        let f = self.fields(&frag);
                        out.push(if ty == 1 { format!("H:{}:{}:{}:{}", sid, fl, len, f) } else { format!("PP:{}:{}:{}:{}", sid, promised, len, f) });
                    } else {
                        self.in_block = Some((ty, sid, fl, promised));
                        self.block = frag;
                        out.push(if ty == 1 { format!("Hfrag:{}:{}:{}", sid, fl, len) } else { format!("PPfrag:{}:{}:{}", sid, promised, len) });
                    }
                }
                9 => {
                    self.block.extend_from_slice(&p);
                    if fl & 4 != 0 {
                        let b = std::mem::take(&mut self.block);
                        let f = self.fields(&b);
                        match self.in_block.take() {
                            Some((1, s0, f0, _)) => {
                                out.push(format!("C:{}:{}:{}", sid, fl, len));
                                out.push(format!("H:{}:{}:{}:{}", s0, f0 | 4, b.len(), f));
                            }
                            Some((_, s0, _, pr)) => {
                                out.push(format!("C:{}:{}:{}", sid, fl, len));
                                out.push(format!("PP:{}:{}:{}:{}", s0, pr, b.len(), f));
                            }
                            None => out.push(format!("C:{}:{}:{}", sid, fl, len)),
                        }
                    } else {
                        out.push(format!("C:{}:{}:{}", sid, fl, len));
                    }
                }
                2 => out.push(format!("PRI:{}", sid)),
                3 => out.push(format!("R:{}:{}", sid, u32at(&p, 0))),
                4 => {
                    let mut v = vec![];
                    let mut i = 0;
                    while i + 6 <= p.len() {
                        v.push(format!("{}={}", u16::from_be_bytes([p[i], p[i + 1]]), u32at(&p, i + 2)));
                        i += 6;
                    }
                    out.push(format!("S:{}:{}:{}", sid, fl & 1, if v.is_empty() { "-".to_string() } else { v.join(",") }));
                }
                6 => out.push(format!("P:{}:{}:{}", sid, fl & 1, hex(&p))),
                7 => out.push(format!("G:{}:{}:{}:{}", sid, u32at(&p, 0) & 0x7fff_ffff, u32at(&p, 4), hex(&p[8.min(p.len())..]))),
                8 => out.push(format!("W:{}:{}", sid, u32at(&p, 0) & 0x7fff_ffff)),
                t => out.push(format!("U:{}:{}:{}", t, sid, len)),
            }
        }
        out
    }

    pub fn pending_len(&self) -> usize {
        self.buf.len()
    }
}

// ------------------------------------------------------------------------------------ handles

#[derive(Default)]
struct Slot {
    sid: u32,
    send: Option<h2::SendStream<Bytes>>,
    resp_fut: Option<h2::client::ResponseFuture>,
    pushed_fut: Option<h2::client::PushedResponseFuture>,
    pushes: Option<h2::client::PushPromises>,
    pushes_taken: bool,
    body: Option<h2::RecvStream>,
    fc: Option<h2::FlowControl>,
    responder: Option<h2::server::SendResponse<Bytes>>,
    pushed_responder: Option<h2::server::SendPushedResponse<Bytes>>,
    sent_off: usize,
}

enum ConnKind {
    Client(h2::client::Connection<Tio, Bytes>, Option<h2::client::SendRequest<Bytes>>, Vec<h2::client::SendRequest<Bytes>>),
    Server(h2::server::Connection<Tio, Bytes>),
    Gone,
}

pub struct ConnH {
    io: Tio,
    kind: ConnKind,
    slots: Vec<Slot>,
    wakes: Arc<Mutex<Vec<String>>>,
    scan: Scanner,
    rx_scan: Scanner,
    pingpong: Option<h2::PingPong>,
    role: String,
    dump_state: bool,
}

fn perr(e: &h2::Error) -> String {
    let origin = if e.is_remote() {
        "remote"
    } else if e.is_library() {
        "library"
    } else {
        "user"
    };
    if e.is_io() {
        return format!("io:{:?}", e.get_io().map(|i| i.kind()));
    }
    if e.is_go_away() {
        return format!("goaway:{}:{}", e.reason().map(|r| u32::from(r)).unwrap_or(0), origin);
    }
    if e.is_reset() {
        return format!("reset:{}:{}", e.reason().map(|r| u32::from(r)).unwrap_or(0), origin);
    }
    if let Some(r) = e.reason() {
        return format!("reason:{}:{}", u32::from(r), origin);
    }
    let s = format!("{}", e);
    format!("user:{}", s.replace(' ', "_"))
}

fn kvs(ws: &[&str]) -> HashMap<String, String> {
    let mut m = HashMap::new();
    for w in ws {
        if let Some((k, v)) = w.split_once('=') {
            m.insert(k.to_string(), v.to_string());
        }
    }
    m
}

impl ConnH {
    pub fn none() -> ConnH {
        ConnH { io: Tio::default(), kind: ConnKind::Gone, slots: vec![], wakes: Default::default(), scan: Scanner::new(false), rx_scan: Scanner::new(false), pingpong: None, role: "none".into(), dump_state: true }
    }

    fn waker(&self, tag: &str) -> Waker {
        Waker::from(Arc::new(TagWaker { tag: tag.to_string(), log: self.wakes.clone() }))
    }

    fn new_conn(&mut self, ws: &[&str]) -> Option<String> {
        let role = ws.first()?.to_string();
        let o = kvs(&ws[1..]);
        let get = |k: &str| o.get(k).and_then(|v| v.parse::<u64>().ok());
        let io = Tio::default();
        let w = self.waker("c");
        let mut cx = Context::from_waker(&w);
        self.slots.clear();
        self.wakes.lock().unwrap().clear();
        self.pingpong = None;
        self.dump_state = o.get("st").map(|v| v != "0").unwrap_or(true);
        let secs = get("reset_secs").unwrap_or(3600);
        if role == "client" {
            let mut b = h2::client::Builder::new();
            b.reset_stream_duration(std::time::Duration::from_secs(secs));
            if let Some(v) = get("iws") { b.initial_window_size(v as u32); }
            if let Some(v) = get("cws") { b.initial_connection_window_size(v as u32); }
            if let Some(v) = get("mcs") { b.max_concurrent_streams(v as u32); }
            if let Some(v) = get("mfs") { b.max_frame_size(v as u32); }
            if let Some(v) = get("mhl") { b.max_header_list_size(v as u32); }
            if let Some(v) = get("hts") { b.header_table_size(v as u32); }
            if let Some(v) = get("sendbuf") { b.max_send_buffer_size(v as usize); }
            if let Some(v) = get("reset_max") { b.max_concurrent_reset_streams(v as usize); }
            if let Some(v) = get("pend_accept_reset") { b.max_pending_accept_reset_streams(v as usize); }
            if let Some(v) = get("init_max_send") { b.initial_max_send_streams(v as usize); }
            if let Some(v) = get("push") { b.enable_push(v != 0); }
            if let Some(v) = get("budget") { b.data_frame_budget(v as usize); }
            if let Some(v) = get("first_id") { b.initial_stream_id(v as u32); }
            let mut hs = Box::pin(b.handshake::<_, Bytes>(io.clone()));
            match hs.as_mut().poll(&mut cx) {
                Poll::Ready(Ok((sr, conn))) => {
                    self.kind = ConnKind::Client(conn, Some(sr), vec![]);
                }
                _ => return Some("r=handshake-failed".into()),
            }
            self.scan = Scanner::new(true);
            self.rx_scan = Scanner::new(false);
            self.rx_scan.detail = true;
        } else {
            let mut b = h2::server::Builder::new();
            b.reset_stream_duration(std::time::Duration::from_secs(secs));
            if let Some(v) = get("iws") { b.initial_window_size(v as u32); }
            if let Some(v) = get("cws") { b.initial_connection_window_size(v as u32); }
            if let Some(v) = get("mcs") { b.max_concurrent_streams(v as u32); }
            if let Some(v) = get("mfs") { b.max_frame_size(v as u32); }
            if let Some(v) = get("mhl") { b.max_header_list_size(v as u32); }
            if let Some(v) = get("hts") { b.header_table_size(v as u32); }
            if let Some(v) = get("sendbuf") { b.max_send_buffer_size(v as usize); }
            if let Some(v) = get("reset_max") { b.max_concurrent_reset_streams(v as usize); }
            if let Some(v) = get("pend_accept_reset") { b.max_pending_accept_reset_streams(v as usize); }
            if let Some(v) = get("budget") { b.data_frame_budget(v as usize); }
            if get("ecp").unwrap_or(0) != 0 { b.enable_connect_protocol(); }
            io.0.lock().unwrap().rd.extend_from_slice(b"PRI * HTTP/2.0\r\n\r\nSM\r\n\r\n");
            // the peer's initial SETTINGS (given as hex of a complete frame) or an empty one
            let first = o.get("peer_settings").and_then(|h| unhex(h)).unwrap_or_else(|| vec![0, 0, 0, 4, 0, 0, 0, 0, 0]);
            io.0.lock().unwrap().rd.extend_from_slice(&first);
            let mut hs = Box::pin(b.handshake::<_, Bytes>(io.clone()));
            match hs.as_mut().poll(&mut cx) {
                Poll::Ready(Ok(conn)) => self.kind = ConnKind::Server(conn),
                Poll::Ready(Err(e)) => return Some(format!("r=handshake-err:{}", perr(&e))),
                Poll::Pending => return Some("r=handshake-pending".into()),
            }
            self.scan = Scanner::new(false);
            self.rx_scan = Scanner::new(false);
            self.rx_scan.detail = true;
        }
        self.io = io;
        self.role = role;
        Some(self.finish("ok".into()))
    }

    fn slot(&mut self, k: &str) -> Option<&mut Slot> {
        let i: usize = k.parse().ok()?;
        self.slots.get_mut(i)
    }

    fn poll_conn(&mut self) -> String {
        let w = self.waker("c");
        let mut cx = Context::from_waker(&w);
        match &mut self.kind {
            ConnKind::Client(conn, _, _) => match Pin::new(conn).poll(&mut cx) {
                Poll::Pending => "pending".into(),
                Poll::Ready(Ok(())) => "done".into(),
                Poll::Ready(Err(e)) => format!("err:{}", perr(&e)),
            },
            ConnKind::Server(conn) => match conn.poll_closed(&mut cx) {
                Poll::Pending => "pending".into(),
                Poll::Ready(Ok(())) => "done".into(),
                Poll::Ready(Err(e)) => format!("err:{}", perr(&e)),
            },
            ConnKind::Gone => "gone".into(),
        }
    }

    fn finish(&mut self, r: String) -> String {
        let written = std::mem::take(&mut self.io.0.lock().unwrap().wr);
        let frames = self.scan.feed(&written);
        let wk: Vec<String> = std::mem::take(&mut *self.wakes.lock().unwrap());
        let mut wk2: Vec<String> = vec![];
        for w in wk {
            if !wk2.contains(&w) {
                wk2.push(w);
            }
        }
        let st = if self.dump_state { self.digest() } else { "-".into() };
        format!(
            "r={} tx={} wk={} st={}",
            r,
            if frames.is_empty() { "-".to_string() } else { frames.join(";") },
            if wk2.is_empty() { "-".to_string() } else { wk2.join(",") },
            st
        )
    }

    /// DATA frames sitting in the codec's write buffer (already handed over by the stream layer,
    /// not yet fully accepted by the transport): stream ids, one per frame. Read from the dump.
    fn codec_pending_data(&self) -> Vec<u32> {
        self.codec_pending(0)
    }

    /// stream ids of the frames of type `want` that sit (completely or partly) in the codec's write buffer
    fn codec_pending(&self, want: u8) -> Vec<u32> {
        let text = match &self.kind {
            ConnKind::Client(c, _, _) => format!("{:#?}", c),
            ConnKind::Server(c) => format!("{:#?}", c),
            ConnKind::Gone => return vec![],
        };
        let v = dbg::parse(&text);
        let mut out = vec![];
        if let Some(enc) = v.find("FramedWrite").and_then(|f| f.get("encoder")) {
            let cur = enc.get("buf");
            let pos = cur.and_then(|c| c.get("pos")).and_then(|p| p.num()).unwrap_or(0) as usize;
            let bytes = cur.and_then(|c| c.get("inner")).and_then(|b| b.atom()).map(unescape).unwrap_or_default();
            let mut i = 0usize;
            while i + 9 <= bytes.len() {
                let len = ((bytes[i] as usize) << 16) | ((bytes[i + 1] as usize) << 8) | bytes[i + 2] as usize;
                let ty = bytes[i + 3];
                let sid = u32::from_be_bytes([bytes[i + 5], bytes[i + 6], bytes[i + 7], bytes[i + 8]]) & 0x7fff_ffff;
                let end = i + 9 + len;
                if ty == want && end > pos {
                    out.push(sid);
                }
                i = end;
            }
        }
        out
    }

    /// digest of the internal state from the `{:#?}` dump (no hook needed)
    fn digest(&self) -> String {
        let text = match &self.kind {
            ConnKind::Client(c, _, _) => format!("{:#?}", c),
            ConnKind::Server(c) => format!("{:#?}", c),
            ConnKind::Gone => return "gone".into(),
        };
        if std::env::var("H2V_RAWDUMP").is_ok() {
            eprintln!("{}", text);
        }
        let v = dbg::parse(&text);
        let mut out = vec![];
        let n = |v: Option<&V>| -> String {
            match v {
                None => "?".into(),
                Some(x) => match x.num() {
                    Some(k) => k.to_string(),
                    None => match x {
                        V::Atom(a) if a == "18446744073709551615" => "max".into(),
                        V::Atom(a) => a.clone(),
                        V::Tuple(nm, vs) if vs.len() == 1 => match &vs[0] {
                            V::Atom(a) if a == "18446744073709551615" => "max".into(),
                            V::Tuple(_, v2) if v2.len() == 1 => v2[0].atom().unwrap_or("?").to_string(),
                            _ => nm.clone(),
                        },
                        _ => "?".into(),
                    },
                },
            }
        };
        if let Some(inner) = v.find("Inner") {
            let send_flow = inner.path(&["actions", "send", "prioritize", "flow"]);
            let recv = inner.path(&["actions", "recv"]);
            let recv_flow = recv.and_then(|r| r.get("flow"));
            out.push(format!(
                "C:{},{},{},{},{}",
                n(send_flow.and_then(|f| f.get("window_size"))),
                n(send_flow.and_then(|f| f.get("available"))),
                n(recv_flow.and_then(|f| f.get("window_size"))),
                n(recv_flow.and_then(|f| f.get("available"))),
                n(recv.and_then(|r| r.get("in_flight_data")))
            ));
            if let Some(c) = inner.get("counts") {
                out.push(format!(
                    "N:{},{},{},{},{},{},{}",
                    n(c.get("num_send_streams")),
                    n(c.get("num_recv_streams")),
                    n(c.get("num_local_reset_streams")),
                    n(c.get("num_remote_reset_streams")),
                    n(c.get("num_local_error_reset_streams")),
                    n(c.get("max_send_streams")),
                    n(c.get("max_recv_streams")),
                ));
            }
            out.push(format!(
                "X:{},{},{},{},{}",
                n(inner.path(&["actions", "send", "init_window_sz"])),
                n(recv.and_then(|r| r.get("init_window_sz"))),
                n(inner.path(&["actions", "send", "next_stream_id"])),
                n(recv.and_then(|r| r.get("next_stream_id"))),
                n(inner.get("refs")),
            ));
            let qn = |q: Option<&V>| -> &'static str {
                match q.and_then(|q| q.get("indices")) {
                    Some(V::Atom(a)) if a == "None" => "0",
                    Some(_) => "1",
                    None => "?",
                }
            };
            let pr = inner.path(&["actions", "send", "prioritize"]);
            out.push(format!(
                "Q:{}{}{}{}{}{}",
                qn(pr.and_then(|p| p.get("pending_send"))),
                qn(pr.and_then(|p| p.get("pending_capacity"))),
                qn(pr.and_then(|p| p.get("pending_open"))),
                qn(recv.and_then(|r| r.get("pending_window_updates"))),
                qn(recv.and_then(|r| r.get("pending_accept"))),
                qn(recv.and_then(|r| r.get("pending_reset_expired"))),
            ));
            let rbuf = recv.and_then(|r| r.path(&["buffer", "slab"])).map(|s| s.items().len()).unwrap_or(0);
            out.push(format!("B:{}", rbuf));
            if let Some(slab) = inner.path(&["store", "slab"]) {
                let mut ss: Vec<(i64, String)> = vec![];
                for (_, s) in slab.items() {
                    let id = s.get("id").and_then(|x| x.num()).unwrap_or(-1);
                    let state = s.get("state").map(render_state).unwrap_or_else(|| "?".into());
                    let has = |k: &str| s.get(k).is_some();
                    let mut fl = String::new();
                    for (k, c) in [
                        ("is_pending_send", 's'),
                        ("is_pending_send_capacity", 'c'),
                        ("is_pending_open", 'o'),
                        ("is_pending_push", 'p'),
                        ("is_pending_accept", 'a'),
                        ("is_pending_window_update", 'w'),
                        ("reset_at", 'r'),
                        ("pending_send", 'S'),
                        ("pending_recv", 'R'),
                        ("is_recv", 'v'),
                        ("send_task", 't'),
                        ("recv_task", 'u'),
                        ("push_task", 'q'),
                    ] {
                        if has(k) {
                            fl.push(c);
                        }
                    }
                    if s.get("is_counted").and_then(|x| x.atom()) == Some("true") {
                        fl.push('k');
                    }
                    let sf = s.get("send_flow");
                    let rf = s.get("recv_flow");
                    ss.push((
                        id,
                        format!(
                            "S{}:{},{},{},{},{},{},{},{},{},{}",
                            id,
                            state,
                            n(sf.and_then(|f| f.get("window_size"))),
                            n(sf.and_then(|f| f.get("available"))),
                            n(s.get("requested_send_capacity")),
                            n(s.get("buffered_send_data")),
                            n(rf.and_then(|f| f.get("window_size"))),
                            n(rf.and_then(|f| f.get("available"))),
                            n(s.get("in_flight_recv_data")),
                            n(s.get("ref_count")),
                            if fl.is_empty() { "-".to_string() } else { fl }
                        ),
                    ));
                }
                ss.sort();
                for (_, s) in ss {
                    out.push(s);
                }
            }
        }
        if let Some(ci) = v.find("ConnectionInner") {
            let st = ci.get("state").map(|s| s.name().to_string()).unwrap_or_default();
            let ga = ci.get("go_away");
            let going = ga.and_then(|g| g.get("going_away")).map(|g| if g.atom() == Some("None") { "0" } else { "1" }).unwrap_or("?");
            let pp = ci.get("ping_pong");
            let ppong = pp.and_then(|g| g.get("pending_pong")).map(|g| if g.atom() == Some("None") { "0" } else { "1" }).unwrap_or("?");
            let se = ci.get("settings");
            let loc = se.and_then(|s| s.get("local")).map(|l| l.name().to_string()).unwrap_or_default();
            let rem = se.and_then(|s| s.get("remote")).map(|g| if g.atom() == Some("None") { "0" } else { "1" }).unwrap_or("?");
            out.push(format!("K:{},{},{},{},{}", st, going, ppong, loc, rem));
            // the peer's GOAWAY the connection has recorded for its own result (`ConnectionInner::error`)
            let e = match ci.get("error") {
                Some(V::Atom(a)) if a == "None" => "-".to_string(),
                Some(v) => v.find("GoAway").and_then(|g| g.get("error_code")).map(|c| c.name().to_string()).unwrap_or_else(|| "?".into()),
                None => "?".into(),
            };
            out.push(format!("E:{}", e));
        }
        // octets the peer has queued that the codec has not decoded yet: still in the transport + in FramedRead's buffer
        {
            let in_codec = v
                .find("FramedRead")
                .and_then(|f| f.get("inner"))
                .and_then(|f| f.get("buffer"))
                .and_then(|b| b.atom())
                .map(|a| unescape(a).len())
                .unwrap_or(0);
            let in_io = self.io.0.lock().unwrap().rd.len();
            out.push(format!("U:{}", in_codec + in_io));
        }
        let sb = v.find("SendBuffer").and_then(|s| s.find("Buffer")).and_then(|b| b.get("slab")).map(|s| s.items().len()).unwrap_or(0);
        out.push(format!("SB:{}", sb));
        out.join("|")
    }

    pub fn handle(&mut self, ws: &[&str]) -> Option<String> {
        let cmd = *ws.first()?;
        if cmd == "cn_new" {
            return self.new_conn(&ws[1..]);
        }
        if !cmd.starts_with("cn_") {
            return None;
        }
        let r: String = match (cmd, &ws[1..]) {
            ("cn_peer", [h]) => {
                let b = unhex(h)?;
                let rx = self.rx_scan.feed(&b);
                // HEADERS already handed to the codec when a GOAWAY is queued for us: they count as sent
                let cbh = if rx.iter().any(|f| f.starts_with("G:")) {
                    let v = self.codec_pending(1);
                    format!(" cbh={}", if v.is_empty() { "-".to_string() } else { v.iter().map(|x| x.to_string()).collect::<Vec<_>>().join(",") })
                } else {
                    String::new()
                };
                let mut i = self.io.0.lock().unwrap();
                i.rd.extend_from_slice(&b);
                if let Some(w) = i.read_waker.take() {
                    drop(i);
                    w.wake();
                }
                // the frames the peer just sent, as this file's scanner parses them (not h2)
                format!("ok rx={}{}", if rx.is_empty() { "-".to_string() } else { rx.join(";") }, cbh)
            }
            ("cn_eof", []) => {
                let mut i = self.io.0.lock().unwrap();
                i.eof = true;
                if let Some(w) = i.read_waker.take() {
                    drop(i);
                    w.wake();
                }
                "ok".into()
            }
            ("cn_rderr", [k]) => {
                let mut i = self.io.0.lock().unwrap();
                i.rd_err = Some(io_kind(k));
                if let Some(w) = i.read_waker.take() {
                    drop(i);
                    w.wake();
                }
                "ok".into()
            }
            ("cn_wrerr", [k]) => {
                let mut i = self.io.0.lock().unwrap();
                i.wr_err = Some(io_kind(k));
                if let Some(w) = i.write_waker.take() {
                    drop(i);
                    w.wake();
                }
                "ok".into()
            }
            ("cn_budget", [n]) => {
                let mut i = self.io.0.lock().unwrap();
                i.budget = if *n == "inf" { None } else { Some(n.parse().ok()?) };
                if i.budget != Some(0) {
                    if let Some(w) = i.write_waker.take() {
                        drop(i);
                        w.wake();
                    }
                }
                "ok".into()
            }
            ("cn_poll", []) => self.poll_conn(),
            ("cn_req", [eos, method, path, extra]) => {
                let mut rb = http::Request::builder().method(*method).uri(format!("http://example.com{}", path));
                if *extra != "-" {
                    for kv in extra.split(',') {
                        let (k, v) = kv.split_once('=')?;
                        rb = rb.header(String::from_utf8(unhex(k)?).ok()?, unhex(v)?);
                    }
                }
                let req = match rb.body(()) {
                    Ok(r) => r,
                    Err(_) => return Some(self.finish("badreq".into())),
                };
                let which: usize = 0;
                let _ = which;
                match &mut self.kind {
                    ConnKind::Client(_, Some(sr), _) => match sr.send_request(req, *eos == "1") {
                        Ok((rf, ss)) => {
                            let sid = ss.stream_id().as_u32();
                            self.slots.push(Slot { sid, send: Some(ss), resp_fut: Some(rf), ..Default::default() });
                            format!("ok:{}:{}", self.slots.len() - 1, sid)
                        }
                        Err(e) => format!("err:{}", perr(&e)),
                    },
                    _ => "nohandle".into(),
                }
            }
            ("cn_reqc", [eos, method, path, extra]) => {
                // a request through a fresh clone of the SendRequest handle, dropped right afterwards
                let mut rb = http::Request::builder().method(*method).uri(format!("http://example.com{}", path));
                if *extra != "-" {
                    for kv in extra.split(',') {
                        let (k, v) = kv.split_once('=')?;
                        rb = rb.header(String::from_utf8(unhex(k)?).ok()?, unhex(v)?);
                    }
                }
                let req = match rb.body(()) {
                    Ok(r) => r,
                    Err(_) => return Some(self.finish("badreq".into())),
                };
                match &mut self.kind {
                    ConnKind::Client(_, Some(sr), _) => {
                        let mut cl = sr.clone();
                        let r = cl.send_request(req, *eos == "1");
                        let out = match r {
                            Ok((rf, ss)) => {
                                let sid = ss.stream_id().as_u32();
                                self.slots.push(Slot { sid, send: Some(ss), resp_fut: Some(rf), ..Default::default() });
                                format!("ok:{}:{}", self.slots.len() - 1, sid)
                            }
                            Err(e) => format!("err:{}", perr(&e)),
                        };
                        drop(cl);
                        out
                    }
                    _ => "nohandle".into(),
                }
            }
            ("cn_ready", []) => {
                let w = self.waker("q");
                let mut cx = Context::from_waker(&w);
                match &mut self.kind {
                    ConnKind::Client(_, Some(sr), _) => match sr.poll_ready(&mut cx) {
                        Poll::Pending => "pending".into(),
                        Poll::Ready(Ok(())) => "ready".into(),
                        Poll::Ready(Err(e)) => format!("err:{}", perr(&e)),
                    },
                    _ => "nohandle".into(),
                }
            }
            ("cn_clone_sr", []) => match &mut self.kind {
                ConnKind::Client(_, Some(sr), clones) => {
                    clones.push(sr.clone());
                    format!("ok:{}", clones.len())
                }
                _ => "nohandle".into(),
            },
            ("cn_drop_sr", [which]) => match &mut self.kind {
                ConnKind::Client(_, sr, clones) => {
                    if *which == "main" {
                        *sr = None;
                    } else {
                        clones.pop();
                    }
                    "ok".into()
                }
                _ => "nohandle".into(),
            },
            ("cn_accept", []) => {
                let w = self.waker("a");
                let mut cx = Context::from_waker(&w);
                match &mut self.kind {
                    ConnKind::Server(conn) => match conn.poll_accept(&mut cx) {
                        Poll::Pending => "pending".into(),
                        Poll::Ready(None) => "none".into(),
                        Poll::Ready(Some(Err(e))) => format!("err:{}", perr(&e)),
                        Poll::Ready(Some(Ok((req, resp)))) => {
                            let (parts, body) = req.into_parts();
                            let sid = body.stream_id().as_u32();
                            let hd = render_req(&parts);
                            self.slots.push(Slot { sid, body: Some(body), responder: Some(resp), ..Default::default() });
                            format!("ok:{}:{}:{}", self.slots.len() - 1, sid, hd)
                        }
                    },
                    _ => "nohandle".into(),
                }
            }
            ("cn_respond", [k, status, eos]) => {
                let status: u16 = status.parse().ok()?;
                let eos = *eos == "1";
                let s = self.slot(k)?;
                if s.responder.is_none() && s.pushed_responder.is_none() {
                    return Some(self.finish("nohandle".into()));
                }
                let resp = http::Response::builder().status(status).body(()).ok()?;
                let r = match (s.responder.as_mut(), s.pushed_responder.as_mut()) {
                    (Some(r), _) => Some(r.send_response(resp, eos)),
                    (None, Some(r)) => Some(r.send_response(resp, eos)),
                    (None, None) => None,
                };
                match r {
                    Some(Ok(ss)) => {
                        s.send = Some(ss);
                        "ok".into()
                    }
                    Some(Err(e)) => format!("err:{}", perr(&e)),
                    None => "nohandle".into(),
                }
            }
            ("cn_inform", [k, status]) => {
                let status: u16 = status.parse().ok()?;
                let s = self.slot(k)?;
                match s.responder.as_mut() {
                    Some(r) => {
                        let resp = http::Response::builder().status(status).body(()).ok()?;
                        match r.send_informational(resp) {
                            Ok(()) => "ok".into(),
                            Err(e) => format!("err:{}", perr(&e)),
                        }
                    }
                    None => "nohandle".into(),
                }
            }
            ("cn_push", [k, path]) => {
                let req = http::Request::builder().method("GET").uri(format!("http://example.com{}", path)).body(()).ok()?;
                let s = self.slot(k)?;
                match s.responder.as_mut() {
                    Some(r) => match r.push_request(req) {
                        Ok(pushed) => {
                            let sid = pushed.stream_id().as_u32();
                            // a pushed responder behaves like a responder slot
                            let _ = pushed;
                            format!("ok:{}", sid)
                        }
                        Err(e) => format!("err:{}", perr(&e)),
                    },
                    None => "nohandle".into(),
                }
            }
            ("cn_pushk", [k, path]) => {
                // push and KEEP the handle of the promised stream (a new slot): the pushed response is sent later
                let req = http::Request::builder().method("GET").uri(format!("http://example.com{}", path)).body(()).ok()?;
                let n = self.slots.len();
                let s = self.slot(k)?;
                match s.responder.as_mut() {
                    Some(r) => match r.push_request(req) {
                        Ok(pushed) => {
                            let sid = pushed.stream_id().as_u32();
                            self.slots.push(Slot { sid, pushed_responder: Some(pushed), ..Default::default() });
                            format!("ok:{}:{}", n, sid)
                        }
                        Err(e) => format!("err:{}", perr(&e)),
                    },
                    None => "nohandle".into(),
                }
            }
            ("cn_data", [k, len, eos]) => {
                let len: usize = len.parse().ok()?;
                let eos = *eos == "1";
                let s = self.slot(k)?;
                match s.send.as_mut() {
                    Some(ss) => {
                        let off = s.sent_off;
                        let sid = s.sid;
                        let p: Vec<u8> = (0..len).map(|i| ((off + i) as u8) ^ (sid as u8)).collect();
                        match ss.send_data(Bytes::from(p), eos) {
                            Ok(()) => {
                                s.sent_off += len;
                                "ok".into()
                            }
                            Err(e) => format!("err:{}", perr(&e)),
                        }
                    }
                    None => "nohandle".into(),
                }
            }
            ("cn_trailers", [k]) => {
                let s = self.slot(k)?;
                match s.send.as_mut() {
                    Some(ss) => {
                        let mut t = http::HeaderMap::new();
                        t.insert("x-trailer", http::HeaderValue::from_static("t"));
                        match ss.send_trailers(t) {
                            Ok(()) => "ok".into(),
                            Err(e) => format!("err:{}", perr(&e)),
                        }
                    }
                    None => "nohandle".into(),
                }
            }
            ("cn_reserve", [k, n]) => {
                let n: usize = n.parse().ok()?;
                let s = self.slot(k)?;
                match s.send.as_mut() {
                    Some(ss) => {
                        ss.reserve_capacity(n);
                        "ok".into()
                    }
                    None => "nohandle".into(),
                }
            }
            ("cn_cap", [k]) => {
                let s = self.slot(k)?;
                match s.send.as_ref() {
                    Some(ss) => format!("cap:{}", ss.capacity()),
                    None => "nohandle".into(),
                }
            }
            ("cn_pollcap", [k]) => {
                let w = self.waker(&format!("s{}", k));
                let mut cx = Context::from_waker(&w);
                let s = self.slot(k)?;
                match s.send.as_mut() {
                    Some(ss) => match ss.poll_capacity(&mut cx) {
                        Poll::Pending => "pending".into(),
                        Poll::Ready(None) => "none".into(),
                        Poll::Ready(Some(Ok(n))) => format!("cap:{}", n),
                        Poll::Ready(Some(Err(e))) => format!("err:{}", perr(&e)),
                    },
                    None => "nohandle".into(),
                }
            }
            ("cn_reset", [k, code]) => {
                let code: u32 = code.parse().ok()?;
                let inflight = self.codec_pending_data();
                let s = self.slot(k)?;
                let sid = s.sid;
                let n = inflight.iter().filter(|x| **x == sid).count();
                if let Some(ss) = s.send.as_mut() {
                    ss.send_reset(h2::Reason::from(code));
                    format!("ok cb={}", n)
                } else if let Some(r) = s.responder.as_mut() {
                    r.send_reset(h2::Reason::from(code));
                    format!("ok cb={}", n)
                } else if let Some(r) = s.pushed_responder.as_mut() {
                    r.send_reset(h2::Reason::from(code));
                    format!("ok cb={}", n)
                } else {
                    "nohandle".into()
                }
            }
            ("cn_pollreset", [k]) => {
                let w = self.waker(&format!("s{}", k));
                let mut cx = Context::from_waker(&w);
                let s = self.slot(k)?;
                let r = if let Some(ss) = s.send.as_mut() {
                    Some(ss.poll_reset(&mut cx))
                } else if let Some(r) = s.responder.as_mut() {
                    Some(r.poll_reset(&mut cx))
                } else if let Some(r) = s.pushed_responder.as_mut() {
                    Some(r.poll_reset(&mut cx))
                } else {
                    None
                };
                match r {
                    Some(Poll::Pending) => "pending".into(),
                    Some(Poll::Ready(Ok(r))) => format!("reset:{}", u32::from(r)),
                    Some(Poll::Ready(Err(e))) => format!("err:{}", perr(&e)),
                    None => "nohandle".into(),
                }
            }
            ("cn_takepushes", [k]) => {
                let s = self.slot(k)?;
                match s.resp_fut.as_mut() {
                    // (`push_promises()` panics when it is called a second time: documented, not done)
                    Some(rf) if !s.pushes_taken => {
                        s.pushes = Some(rf.push_promises());
                        s.pushes_taken = true;
                        "ok".into()
                    }
                    _ => "nohandle".into(),
                }
            }
            ("cn_pollpushed", [k]) => {
                let w = self.waker(&format!("q{}", k));
                let mut cx = Context::from_waker(&w);
                let n = self.slots.len();
                let s = self.slot(k)?;
                match s.pushes.as_mut() {
                    Some(pp) => match pp.poll_push_promise(&mut cx) {
                        Poll::Pending => "pending".into(),
                        Poll::Ready(None) => "none".into(),
                        Poll::Ready(Some(Err(e))) => format!("err:{}", perr(&e)),
                        Poll::Ready(Some(Ok(p))) => {
                            let (req, fut) = p.into_parts();
                            let sid = fut.stream_id().as_u32();
                            let (parts, _) = req.into_parts();
                            let hd = render_req(&parts);
                            self.slots.push(Slot { sid, pushed_fut: Some(fut), ..Default::default() });
                            format!("ok:{}:{}:{}", n, sid, hd)
                        }
                    },
                    None => "nohandle".into(),
                }
            }
            ("cn_resp", [k]) => {
                let w = self.waker(&format!("p{}", k));
                let mut cx = Context::from_waker(&w);
                let s = self.slot(k)?;
                let polled = match (s.resp_fut.as_mut(), s.pushed_fut.as_mut()) {
                    (Some(rf), _) => Some(Pin::new(rf).poll(&mut cx)),
                    (None, Some(pf)) => Some(Pin::new(pf).poll(&mut cx)),
                    (None, None) => None,
                };
                match polled {
                    Some(Poll::Pending) => "pending".into(),
                    Some(Poll::Ready(Ok(resp))) => {
                        let (parts, body) = resp.into_parts();
                        s.body = Some(body);
                        s.resp_fut = None;
                        s.pushed_fut = None;
                        format!("ok:{}:{}", parts.status.as_u16(), render_hdrs(&parts.headers))
                    }
                    Some(Poll::Ready(Err(e))) => {
                        s.resp_fut = None;
                        s.pushed_fut = None;
                        format!("err:{}", perr(&e))
                    }
                    None => "nohandle".into(),
                }
            }
            ("cn_info", [k]) => {
                let w = self.waker(&format!("p{}", k));
                let mut cx = Context::from_waker(&w);
                let s = self.slot(k)?;
                match s.resp_fut.as_mut() {
                    Some(rf) => match rf.poll_informational(&mut cx) {
                        Poll::Pending => "pending".into(),
                        Poll::Ready(None) => "none".into(),
                        Poll::Ready(Some(Ok(resp))) => format!("ok:{}", resp.status().as_u16()),
                        Poll::Ready(Some(Err(e))) => format!("err:{}", perr(&e)),
                    },
                    None => "nohandle".into(),
                }
            }
            ("cn_read", [k]) => {
                let w = self.waker(&format!("b{}", k));
                let mut cx = Context::from_waker(&w);
                let s = self.slot(k)?;
                match s.body.as_mut() {
                    Some(b) => match b.poll_data(&mut cx) {
                        Poll::Pending => "pending".into(),
                        Poll::Ready(None) => "none".into(),
                        Poll::Ready(Some(Ok(d))) => format!("data:{}:{}", d.len(), chk(&d)),
                        Poll::Ready(Some(Err(e))) => format!("err:{}", perr(&e)),
                    },
                    None => "nohandle".into(),
                }
            }
            ("cn_rtrailers", [k]) => {
                let w = self.waker(&format!("b{}", k));
                let mut cx = Context::from_waker(&w);
                let s = self.slot(k)?;
                match s.body.as_mut() {
                    Some(b) => match b.poll_trailers(&mut cx) {
                        Poll::Pending => "pending".into(),
                        Poll::Ready(Ok(None)) => "none".into(),
                        Poll::Ready(Ok(Some(t))) => format!("trailers:{}", render_hdrs(&t)),
                        Poll::Ready(Err(e)) => format!("err:{}", perr(&e)),
                    },
                    None => "nohandle".into(),
                }
            }
            ("cn_eos", [k]) => {
                let s = self.slot(k)?;
                match s.body.as_ref() {
                    Some(b) => format!("eos:{}", b.is_end_stream() as u8),
                    None => "nohandle".into(),
                }
            }
            ("cn_release", [k, n]) => {
                let n: usize = n.parse().ok()?;
                let s = self.slot(k)?;
                let r = if let Some(b) = s.body.as_mut() {
                    Some(b.flow_control().release_capacity(n))
                } else if let Some(fc) = s.fc.as_mut() {
                    Some(fc.release_capacity(n))
                } else {
                    None
                };
                match r {
                    Some(Ok(())) => "ok".into(),
                    Some(Err(e)) => format!("err:{}", perr(&e)),
                    None => "nohandle".into(),
                }
            }
            ("cn_fcinfo", [k]) => {
                let s = self.slot(k)?;
                if let Some(b) = s.body.as_mut() {
                    let fc = b.flow_control();
                    format!("fc:{}:{}", fc.available_capacity(), fc.used_capacity())
                } else if let Some(fc) = s.fc.as_ref() {
                    format!("fc:{}:{}", fc.available_capacity(), fc.used_capacity())
                } else {
                    "nohandle".into()
                }
            }
            ("cn_keepfc", [k]) => {
                let s = self.slot(k)?;
                match s.body.as_mut() {
                    Some(b) => {
                        s.fc = Some(b.flow_control().clone());
                        "ok".into()
                    }
                    None => "nohandle".into(),
                }
            }
            ("cn_drop", [k, which]) => {
                let s = self.slot(k)?;
                match *which {
                    "send" => s.send = None,
                    "resp" => {
                        s.resp_fut = None;
                        s.pushed_fut = None;
                    }
                    "body" => s.body = None,
                    "fc" => s.fc = None,
                    "responder" => {
                        s.responder = None;
                        s.pushed_responder = None;
                    }
                    "pushes" => s.pushes = None,
                    _ => {
                        s.send = None;
                        s.resp_fut = None;
                        s.pushed_fut = None;
                        s.body = None;
                        s.fc = None;
                        s.responder = None;
                        s.pushed_responder = None;
                        s.pushes = None;
                    }
                }
                "ok".into()
            }
            ("cn_target", [n]) => {
                let n: u32 = n.parse().ok()?;
                match &mut self.kind {
                    ConnKind::Client(c, _, _) => c.set_target_window_size(n),
                    ConnKind::Server(c) => c.set_target_window_size(n),
                    ConnKind::Gone => {}
                }
                "ok".into()
            }
            ("cn_iws", [n]) => {
                let n: u32 = n.parse().ok()?;
                let r = match &mut self.kind {
                    ConnKind::Client(c, _, _) => c.set_initial_window_size(n),
                    ConnKind::Server(c) => c.set_initial_window_size(n),
                    ConnKind::Gone => Ok(()),
                };
                match r {
                    Ok(()) => "ok".into(),
                    Err(e) => format!("err:{}", perr(&e)),
                }
            }
            ("cn_graceful", []) => {
                if let ConnKind::Server(c) = &mut self.kind {
                    c.graceful_shutdown();
                    "ok".into()
                } else {
                    "nohandle".into()
                }
            }
            ("cn_abrupt", [code]) => {
                let code: u32 = code.parse().ok()?;
                if let ConnKind::Server(c) = &mut self.kind {
                    c.abrupt_shutdown(h2::Reason::from(code));
                    "ok".into()
                } else {
                    "nohandle".into()
                }
            }
            ("cn_takeping", []) => {
                let pp = match &mut self.kind {
                    ConnKind::Client(c, _, _) => c.ping_pong(),
                    ConnKind::Server(c) => c.ping_pong(),
                    ConnKind::Gone => None,
                };
                let ok = pp.is_some();
                if ok {
                    self.pingpong = pp;
                }
                format!("ok:{}", ok as u8)
            }
            ("cn_ping", []) => match self.pingpong.as_mut() {
                Some(pp) => match pp.send_ping(h2::Ping::opaque()) {
                    Ok(()) => "ok".into(),
                    Err(e) => format!("err:{}", perr(&e)),
                },
                None => "nohandle".into(),
            },
            ("cn_pollpong", []) => {
                let w = self.waker("g");
                let mut cx = Context::from_waker(&w);
                match self.pingpong.as_mut() {
                    Some(pp) => match pp.poll_pong(&mut cx) {
                        Poll::Pending => "pending".into(),
                        Poll::Ready(Ok(_)) => "pong".into(),
                        Poll::Ready(Err(e)) => format!("err:{}", perr(&e)),
                    },
                    None => "nohandle".into(),
                }
            }
            ("cn_dropconn", []) => {
                self.kind = ConnKind::Gone;
                "ok".into()
            }
            ("cn_note", [..]) => "ok".into(),
            ("cn_io", []) => {
                let i = self.io.0.lock().unwrap();
                format!("io:rd={}:shutdown={}:unparsed={}", i.rd.len(), i.shutdown_called as u8, self.scan.pending_len())
            }
            _ => return None,
        };
        Some(self.finish(r))
    }
}

/// bytes of a `b"..."` Debug rendering
fn unescape(s: &str) -> Vec<u8> {
    let b = s.as_bytes();
    let mut out = vec![];
    let mut i = if b.starts_with(b"b\"") { 2 } else { 0 };
    let end = if b.ends_with(b"\"") && b.len() > i { b.len() - 1 } else { b.len() };
    while i < end {
        if b[i] == b'\\' && i + 1 < end {
            match b[i + 1] {
                b'x' if i + 3 < end => {
                    let h = std::str::from_utf8(&b[i + 2..i + 4]).ok().and_then(|h| u8::from_str_radix(h, 16).ok()).unwrap_or(0);
                    out.push(h);
                    i += 4;
                }
                b'n' => {
                    out.push(b'\n');
                    i += 2;
                }
                b'r' => {
                    out.push(b'\r');
                    i += 2;
                }
                b't' => {
                    out.push(b'\t');
                    i += 2;
                }
                b'0' => {
                    out.push(0);
                    i += 2;
                }
                c => {
                    out.push(c);
                    i += 2;
                }
            }
        } else {
            out.push(b[i]);
            i += 1;
        }
    }
    out
}

fn io_kind(k: &str) -> std::io::ErrorKind {
    match k {
        "BrokenPipe" => std::io::ErrorKind::BrokenPipe,
        "ConnectionReset" => std::io::ErrorKind::ConnectionReset,
        "UnexpectedEof" => std::io::ErrorKind::UnexpectedEof,
        "TimedOut" => std::io::ErrorKind::TimedOut,
        _ => std::io::ErrorKind::Other,
    }
}

fn chk(d: &[u8]) -> String {
    // (first byte, last byte, sum mod 65521): enough to notice a reordered / duplicated / dropped chunk
    let s = d.iter().fold(0u32, |a, b| (a + *b as u32) % 65521);
    format!("{}-{}-{}", d.first().copied().unwrap_or(0), d.last().copied().unwrap_or(0), s)
}

fn render_hdrs(m: &http::HeaderMap) -> String {
    if m.is_empty() {
        return "-".into();
    }
    let mut out = vec![];
    for (k, v) in m.iter() {
        out.push(format!("{}={}", hex(k.as_str().as_bytes()), hex(v.as_bytes())));
    }
    out.join(",")
}

fn render_req(p: &http::request::Parts) -> String {
    format!("{}:{}:{}", p.method.as_str(), hex(p.uri.to_string().as_bytes()), render_hdrs(&p.headers))
}

fn render_state(v: &V) -> String {
    // Open { local: Streaming, remote: AwaitingHeaders } / HalfClosedLocal(Streaming) / Closed(EndStream) / Idle ...
    fn peer(v: &V) -> String {
        match v {
            V::Atom(a) => a.chars().take(2).collect(),
            V::Tuple(n, _) | V::Struct(n, _) => n.chars().take(2).collect(),
            _ => "?".into(),
        }
    }
    match v {
        V::Atom(a) => a.clone(),
        V::Struct(n, items) => {
            let l = items.iter().find(|(k, _)| k == "local").map(|(_, v)| peer(v)).unwrap_or_default();
            let r = items.iter().find(|(k, _)| k == "remote").map(|(_, v)| peer(v)).unwrap_or_default();
            format!("{}.{}.{}", n, l, r)
        }
        V::Tuple(n, vs) => {
            let inner: Vec<String> = vs
                .iter()
                .map(|x| match x {
                    V::Atom(a) => a.clone(),
                    V::Tuple(n2, vs2) => {
                        // Closed(Error(Reset(StreamId(1), CANCEL, User))) -> Error.Reset.CANCEL.User
                        let mut parts = vec![n2.clone()];
                        for y in vs2 {
                            match y {
                                V::Tuple(n3, vs3) => {
                                    parts.push(n3.clone());
                                    for z in vs3 {
                                        if let V::Atom(a) = z {
                                            parts.push(a.clone());
                                        }
                                    }
                                }
                                V::Atom(a) => parts.push(a.clone()),
                                _ => {}
                            }
                        }
                        parts.join(".")
                    }
                    V::Struct(n2, _) => n2.clone(),
                    _ => "?".into(),
                })
                .collect();
            format!("{}.{}", n, inner.join("."))
        }
        _ => "?".into(),
    }
}
