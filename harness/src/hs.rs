//! Server handshake under arbitrary chunking of the client's first octets (C08): the 24-octet preface, the
//! client's SETTINGS and a first request, delivered in random pieces (one piece per poll); now and then a
//! corrupted or truncated preface.  Oracle (in the harness, a test): no panic, a valid preface completes the
//! handshake and the request is accepted, an invalid one ends in an error, nothing hangs once EOF is reached.
//!
//!   hs_run <seed>

use crate::codec::Io;
use crate::util::Rng;
use bytes::Bytes;
use std::future::Future;
use std::pin::Pin;
use std::sync::Arc;
use std::task::{Context, Poll, Wake, Waker};

struct Noop;
impl Wake for Noop {
    fn wake(self: Arc<Self>) {}
}

const PREFACE: &[u8] = b"PRI * HTTP/2.0\r\n\r\nSM\r\n\r\n";

pub fn run(seed: u64) -> String {
    let mut rng = Rng::new(seed ^ 0x5eed_0000);
    let mut input: Vec<u8> = PREFACE.to_vec();
    // SETTINGS (possibly with a value), then GET / on stream 1
    if rng.chance(1, 2) {
        input.extend_from_slice(&[0, 0, 6, 4, 0, 0, 0, 0, 0, 0, 3, 0, 0, 0, 100]);
    } else {
        input.extend_from_slice(&[0, 0, 0, 4, 0, 0, 0, 0, 0]);
    }
    input.extend_from_slice(&[0, 0, 6, 1, 5, 0, 0, 0, 1, 0x82, 0x86, 0x84, 0x41, 0x01, b'a']);
    let kind = rng.below(6);
    let mut valid = true;
    match kind {
        0 => {
            let i = rng.below(24) as usize;
            input[i] ^= 1 << rng.below(8);
            valid = false;
        }
        1 => {
            let n = rng.below(24) as usize;
            input.truncate(n);
            valid = false;
        }
        _ => {}
    }
    // chunking: cut points biased towards the first 40 octets
    let mut cuts: Vec<usize> = vec![];
    let ncuts = rng.below(6) as usize;
    for _ in 0..ncuts {
        let lim = if rng.chance(3, 4) { input.len().min(40) } else { input.len() };
        if lim > 0 {
            cuts.push(rng.below(lim as u64 + 1) as usize);
        }
    }
    cuts.push(input.len());
    cuts.sort();
    cuts.dedup();
    let cfg = format!("seed={},kind={},len={},cuts={:?}", seed, kind, input.len(), cuts).replace(' ', "");
    let res = std::panic::catch_unwind(std::panic::AssertUnwindSafe(|| {
        let io = Io::default();
        let waker = Waker::from(Arc::new(Noop));
        let mut cx = Context::from_waker(&waker);
        let mut hs = Box::pin(h2::server::Builder::new().handshake::<_, Bytes>(io.clone()));
        let mut conn = None;
        let mut accepted = 0;
        let mut err: Option<String> = None;
        let mut pos = 0;
        let mut step = 0;
        loop {
            // deliver the next piece (or EOF when there is none left)
            if step < cuts.len() {
                let end = cuts[step];
                io.0.lock().unwrap().rd.extend_from_slice(&input[pos..end]);
                pos = end;
            } else {
                io.0.lock().unwrap().eof = true;
            }
            step += 1;
            for _ in 0..4 {
                if conn.is_none() && err.is_none() {
                    match hs.as_mut().poll(&mut cx) {
                        Poll::Ready(Ok(c)) => conn = Some(c),
                        Poll::Ready(Err(e)) => err = Some(format!("{:?}", e)),
                        Poll::Pending => {}
                    }
                }
                if let Some(c) = conn.as_mut() {
                    match c.poll_accept(&mut cx) {
                        Poll::Ready(Some(Ok(_))) => accepted += 1,
                        Poll::Ready(Some(Err(e))) => err = Some(format!("{:?}", e)),
                        Poll::Ready(None) => {
                            if err.is_none() {
                                err = Some("closed".into());
                            }
                        }
                        Poll::Pending => {}
                    }
                }
            }
            if step > cuts.len() + 1 {
                break;
            }
        }
        (conn.is_some(), accepted, err)
    }));
    match res {
        Err(_) => format!("FAIL C08 panic-in-the-server-handshake {}", cfg),
        Ok((hs_ok, accepted, err)) => {
            if valid && !hs_ok {
                format!("FAIL C08 valid-preface-did-not-complete-the-handshake err={:?} {}", err.map(|e| e.replace(' ', "_")), cfg)
            } else if valid && accepted != 1 {
                format!("FAIL C08 request-behind-the-preface-not-accepted accepted={} {}", accepted, cfg)
            } else if !valid && hs_ok {
                format!("FAIL C09 invalid-preface-accepted {}", cfg)
            } else if !valid && err.is_none() {
                format!("FAIL C08 handshake-wedged-on-an-invalid-preface {}", cfg)
            } else {
                format!("ok hs={} acc={} {}", hs_ok as u8, accepted, cfg)
            }
        }
    }
}

pub fn handle(ws: &[&str]) -> Option<String> {
    match ws {
        ["hs_run", seed] => Some(run(seed.parse().ok()?)),
        _ => None,
    }
}

pub fn generate(seed: u64, cases: usize, out: &mut dyn std::io::Write) {
    for i in 0..cases {
        writeln!(out, "hs_run {}", seed.wrapping_mul(1_000_003).wrapping_add(i as u64)).unwrap();
    }
}
