//! Small shared helpers: PRNG (one state per run, seeded by VERIF_SEED), hex.

pub struct Rng(pub u64);

impl Rng {
    pub fn new(seed: u64) -> Rng {
        Rng(seed.wrapping_mul(0x9E37_79B9_7F4A_7C15) ^ 0xD1B5_4A32_D192_ED03 | 1)
    }
    pub fn next(&mut self) -> u64 {
        // xorshift64*
        self.0 ^= self.0 >> 12;
        self.0 ^= self.0 << 25;
        self.0 ^= self.0 >> 27;
        self.0.wrapping_mul(0x2545_F491_4F6C_DD1D)
    }
    pub fn below(&mut self, n: u64) -> u64 {
        if n == 0 {
            0
        } else {
            (self.next() >> 11) % n
        }
    }
    pub fn chance(&mut self, num: u64, den: u64) -> bool {
        self.below(den) < num
    }
    pub fn pick<'a, T>(&mut self, xs: &'a [T]) -> &'a T {
        &xs[self.below(xs.len() as u64) as usize]
    }
    /// `lo + below(span)` random bytes
    pub fn rbytes(&mut self, lo: u64, span: u64) -> Vec<u8> {
        let n = (lo + self.below(span)) as usize;
        self.bytes(n)
    }
    pub fn bytes(&mut self, n: usize) -> Vec<u8> {
        (0..n).map(|_| self.next() as u8).collect()
    }
}

pub fn hex(bs: &[u8]) -> String {
    if bs.is_empty() {
        return "-".to_string();
    }
    let mut s = String::with_capacity(bs.len() * 2);
    for b in bs {
        s.push_str(&format!("{:02x}", b));
    }
    s
}

pub fn unhex(s: &str) -> Option<Vec<u8>> {
    if s == "-" {
        return Some(vec![]);
    }
    if s.len() % 2 != 0 {
        return None;
    }
    let mut out = Vec::with_capacity(s.len() / 2);
    let b = s.as_bytes();
    for i in (0..b.len()).step_by(2) {
        let h = (b[i] as char).to_digit(16)?;
        let l = (b[i + 1] as char).to_digit(16)?;
        out.push((h * 16 + l) as u8);
    }
    Some(out)
}
