#!/usr/bin/env python3
"""Mutation fuzzing of connection-level histories: take `h2v gen <profile>` scripts, insert extra ops
(handle calls the generator never makes, hostile / odd peer frames, transport events), run the REAL
code and the Lean model on the mutated script and compare with tools/conndiff.py's comparison.

  connfuzz.py <profile> <seed> <cases> [--rate R] [--show N] [--keep DIR] [--kinds a,b,c]
"""
import subprocess, sys, os, random, collections
sys.path.insert(0, "/verif/tools")
import conndiff

H2V = conndiff.H2V
MODEL = conndiff.MODEL


def wire(ty, fl, sid, payload=b""):
    l = len(payload)
    return bytes([(l >> 16) & 255, (l >> 8) & 255, l & 255, ty, fl]) + (sid & 0xffffffff).to_bytes(4, "big") + payload


def lit(name, value):  # literal without indexing, new name, no huffman
    return bytes([0, len(name)]) + name + bytes([len(value)]) + value


def peer_frames(rng, sids):
    """a list of byte strings (one cn_peer each)"""
    sid = rng.choice(sids + [1, 3, 5, 7, 9, 99, 2, 4, 0]) if sids else rng.choice([1, 3, 0, 2, 99])
    if os.environ.get("PEER_KINDS"):
        k = rng.choice(os.environ["PEER_KINDS"].split(","))
    else:
      k = rng.choice(["hdr_cl", "trailers", "trailers_noeos", "data_pad", "data_any", "rst_any", "wu_any", "wu_big", "prio",
                    "prio_self", "unknown", "ping_ack", "ping", "settings_ack", "settings_bad", "settings_misc", "goaway",
                    "cont_stray", "hdr_cont", "split", "hdr_big", "wu_zero", "data_empty", "data_small_burst", "hdr_status_bad",
                    "rst_zero", "hdr_resp", "hdr_info", "goaway_sid", "push", "push", "push"])
    if k == "hdr_cl":
        n = rng.choice([b"0", b"5", b"10", b"100", b"x", b"99999999999999999999"])
        st = rng.choice([0x88, 0x89, 0x8b])  # 200, 204, 304
        eos = rng.random() < 0.4
        return [wire(1, 4 | (1 if eos else 0), sid, bytes([st]) + lit(b"content-length", n))]
    if k == "hdr_resp":
        eos = rng.random() < 0.3
        return [wire(1, 4 | (1 if eos else 0), sid, bytes([0x88]))]
    if k == "hdr_info":
        return [wire(1, 4, sid, bytes([0x08, 0x03]) + b"103")]
    if k == "hdr_status_bad":
        blk = rng.choice([b"", lit(b"x-a", b"b"), bytes([0x82]), bytes([0x88, 0x88]), lit(b"connection", b"close"), lit(b"te", b"gzip"), lit(b"te", b"trailers")])
        return [wire(1, 4 | rng.choice([0, 1]), sid, blk)]
    if k == "trailers":
        return [wire(1, 5, sid, lit(b"x-t", b"1"))]
    if k == "trailers_noeos":
        return [wire(1, 4, sid, lit(b"x-t", b"1"))]
    if k == "data_pad":
        n = rng.choice([0, 1, 10, 300])
        pad = rng.choice([0, 1, 5, 255])
        if rng.random() < 0.15:
            return [wire(0, 8 | rng.choice([0, 1]), sid, bytes([pad]) + bytes(min(pad, 3)))]  # too much padding
        return [wire(0, 8 | rng.choice([0, 0, 1]), sid, bytes([pad]) + bytes(n) + bytes(pad))]
    if k == "data_any":
        n = rng.choice([0, 1, 100, 1000, 16384])
        return [wire(0, rng.choice([0, 0, 1]), sid, bytes(i & 255 for i in range(n)))]
    if k == "data_empty":
        return [wire(0, 0, sid, b"")] * rng.choice([1, 3, 60])
    if k == "data_small_burst":
        return [wire(0, 0, sid, b"a")] * rng.choice([5, 120])
    if k == "rst_any":
        return [wire(3, 0, sid, rng.choice([0, 1, 5, 7, 8, 11, 0xffffffff]).to_bytes(4, "big"))]
    if k == "rst_zero":
        return [wire(3, 0, rng.choice([0, sid]), rng.choice([b"", b"\0\0\0", b"\0\0\0\0\0"]))]
    if k == "wu_any":
        return [wire(8, 0, sid, rng.choice([1, 1000, 65535, 0x7fffffff]).to_bytes(4, "big"))]
    if k == "wu_big":
        return [wire(8, 0, rng.choice([0, sid]), (0x7fffffff).to_bytes(4, "big"))]
    if k == "wu_zero":
        return [wire(8, 0, rng.choice([0, sid]), rng.choice([b"\0\0\0\0", b"\x80\0\0\0", b"\0\0\0"]))]
    if k == "prio":
        return [wire(2, 0, sid, (rng.choice([0, 1, 3]) | rng.choice([0, 0x80000000])).to_bytes(4, "big") + b"\x10")]
    if k == "prio_self":
        return [wire(2, 0, sid, (sid & 0x7fffffff).to_bytes(4, "big") + b"\x10")]
    if k == "unknown":
        return [wire(rng.choice([10, 11, 0xff]), rng.choice([0, 0xff]), sid, bytes(rng.choice([0, 5, 100])))]
    if k == "ping_ack":
        return [wire(6, 1, 0, rng.choice([b"\0" * 8, bytes([59, 124, 219, 122, 11, 135, 22, 180]), bytes([11, 123, 162, 240, 139, 155, 254, 84])]))]
    if k == "ping":
        if rng.random() < 0.2:
            return [wire(6, 0, rng.choice([0, 1]), bytes(rng.choice([7, 8, 9])))]
        return [wire(6, 0, 0, bytes(rng.randrange(256) for _ in range(8)))] * rng.choice([1, 2])
    if k == "settings_ack":
        return [wire(4, 1, 0, rng.choice([b"", b"", b"\0\0\0\0\0\0"]))]
    if k == "settings_bad":
        p = rng.choice([b"\0\x02\0\0\0\x02", b"\0\x04\x80\0\0\0", b"\0\x05\0\0\0\x64", b"\0\x05\x01\0\0\0", b"\0\x04\0\0", b"\0\x08\0\0\0\x02"])
        return [wire(4, 0, rng.choice([0, 0, 1]), p)]
    if k == "settings_misc":
        p = b""
        for _ in range(rng.choice([1, 2, 3])):
            ident = rng.choice([1, 2, 3, 4, 5, 6, 8, 9, 0x10])
            val = {1: [0, 100, 4096, 65536], 2: [0, 1], 3: [0, 1, 3, 100], 4: [0, 1, 1000, 65535, 100000, 0x7fffffff],
                   5: [16384, 20000, 0xffffff], 6: [0, 100, 16384], 8: [0, 1], 9: [5], 0x10: [7]}[ident]
            p += ident.to_bytes(2, "big") + rng.choice(val).to_bytes(4, "big")
        return [wire(4, 0, 0, p)]
    if k == "goaway":
        last = rng.choice([0, 1, 3, 5, 99, 0x7fffffff])
        code = rng.choice([0, 0, 1, 2, 11])
        dbg = rng.choice([b"", b"", b"bye"])
        return [wire(7, 0, 0, last.to_bytes(4, "big") + code.to_bytes(4, "big") + dbg)]
    if k == "goaway_sid":
        return [wire(7, 0, 1, (0).to_bytes(4, "big") + (0).to_bytes(4, "big"))]
    if k == "cont_stray":
        return [wire(9, rng.choice([0, 4]), sid, b"")]
    if k == "hdr_cont":
        eos = rng.choice([0, 1])
        if rng.random() < 0.3:   # interleaved frame: connection error
            return [wire(1, eos, sid, bytes([0x88])), wire(6, 0, 0, b"\0" * 8)]
        return [wire(1, eos, sid, bytes([0x88])), wire(9, 4, sid, lit(b"x-c", b"d"))]
    if k == "hdr_big":
        return [wire(1, 4, sid, bytes([0x88]) + lit(b"x-big", b"v" * 100) * 20)]
    if k == "split":
        f = wire(6, 0, 0, bytes(range(8))) + wire(8, 0, 0, (1000).to_bytes(4, "big"))
        c = rng.randrange(1, len(f))
        return [f[:c], f[c:]]
    if k == "push":
        promised = rng.choice([2, 2, 4, 4, 6, 8, 10, 3, 0, 0x7ffffffe])
        blk = request_block(rng) if rng.random() < 0.5 else bytes([0x82, 0x86, 0x84, 0x41, 0x01, 0x61])
        out = [wire(5, 4 | rng.choice([0, 0, 8]), sid, (promised).to_bytes(4, "big") + blk)]
        if out[0][4] & 8:
            out = [wire(5, 12, sid, bytes([2]) + (promised).to_bytes(4, "big") + blk + b"\0\0")]
        r = rng.random()
        if r < 0.3:
            out.append(wire(1, 4 | rng.choice([0, 1]), promised, bytes([0x88])))
            if rng.random() < 0.5:
                out.append(wire(0, rng.choice([0, 1]), promised, b"abc"))
        elif r < 0.4:
            out.append(wire(3, 0, promised, (8).to_bytes(4, "big")))
        elif r < 0.5:
            out.append(wire(0, 0, promised, b"abc"))
        return out
    return []


def lit_idx(idx, value):  # literal without indexing, indexed name
    assert idx < 15
    return bytes([idx, len(value)]) + value


def request_block(rng):
    """header block of a (possibly malformed) request"""
    k = rng.choice(["ok", "ok", "ok", "ok_port", "ok_path", "no_method", "no_scheme", "no_path", "no_auth", "connect", "connect_scheme",
                    "connect_path", "status", "protocol", "cl", "options_star", "head", "upper", "te", "conn", "empty_path", "https",
                    "pseudo_after", "dup_pseudo", "big", "cookie"])
    m = bytes([rng.choice([0x82, 0x83])])
    sch, pth, auth = bytes([0x86]), bytes([0x84]), bytes([0x41, 0x01]) + b"a"
    if k == "ok": return m + sch + pth + auth
    if k == "ok_port": return m + sch + pth + bytes([0x41, 0x04]) + b"a:80"
    if k == "ok_path": return m + sch + lit_idx(4, b"/x/y.z") + auth
    if k == "no_method": return sch + pth + auth
    if k == "no_scheme": return m + pth + auth
    if k == "no_path": return m + sch + auth
    if k == "no_auth": return m + sch + pth
    if k == "connect": return lit_idx(2, b"CONNECT") + auth
    if k == "connect_scheme": return lit_idx(2, b"CONNECT") + sch + auth
    if k == "connect_path": return lit_idx(2, b"CONNECT") + pth + auth
    if k == "status": return m + sch + pth + auth + bytes([0x88])
    if k == "protocol": return rng.choice([m, lit_idx(2, b"CONNECT")]) + sch + pth + auth + lit(b":protocol", b"websocket")
    if k == "cl": return m + sch + pth + auth + lit(b"content-length", rng.choice([b"0", b"5", b"1000", b"x"]))
    if k == "options_star": return lit_idx(2, b"OPTIONS") + sch + lit_idx(4, b"*") + auth
    if k == "head": return lit_idx(2, b"HEAD") + sch + pth + auth
    if k == "upper": return m + sch + pth + auth + lit(b"X-Up", b"1")
    if k == "te": return m + sch + pth + auth + lit(b"te", rng.choice([b"trailers", b"gzip"]))
    if k == "conn": return m + sch + pth + auth + lit(b"connection", b"close")
    if k == "empty_path": return m + sch + lit_idx(4, b"") + auth
    if k == "https": return m + bytes([0x87]) + pth + auth
    if k == "pseudo_after": return m + sch + lit(b"x-a", b"1") + pth + auth
    if k == "dup_pseudo": return m + m + sch + pth + auth
    if k == "big": return m + sch + pth + auth + lit(b"x-big", b"v" * 200) * rng.choice([1, 50])
    if k == "cookie": return m + sch + pth + auth + lit(b"cookie", b"a=b") + lit(b"cookie", b"c=d")
    return m + sch + pth + auth


def peer_frames_server(rng, sids, next_sid):
    """(frames, new next_sid)"""
    r = rng.random()
    if r < 0.45:
        sid = rng.choice([next_sid] * 12 + [next_sid + 4, max(1, next_sid - 2), 2, 0])
        eos = rng.random() < 0.3
        fl = 4 | (1 if eos else 0) | (0x20 if rng.random() < 0.1 else 0)
        blk = request_block(rng)
        if fl & 0x20:
            blk = (rng.choice([0, 1, sid]) & 0x7fffffff).to_bytes(4, "big") + b"\x10" + blk
        n = rng.choice([1, 1, 1, 3, 8])
        out = []
        for i in range(n):
            out.append(wire(1, fl, sid + 2 * i, blk))
        if sid >= next_sid and sid % 2 == 1:
            next_sid = sid + 2 * n
        return out, next_sid
    return peer_frames(rng, sids), next_sid


SERVER_USER_KINDS = ["accept", "accept", "accept", "respond", "respond", "inform", "push", "graceful", "abrupt", "pollreset", "data", "trailers",
                     "reserve", "cap", "pollcap", "reset", "drop", "read", "release", "keepfc", "target", "iws", "rtrailers", "eos",
                     "fcinfo", "poll", "clientop", "takeping", "ping", "pollpong"]

USER_KINDS = ["pollreset", "info", "rtrailers", "eos", "fcinfo", "keepfc", "dropfc", "release", "clone_sr", "drop_sr",
              "ready", "target", "iws", "poll", "resp", "read", "cap", "pollcap", "reset", "drop", "data", "trailers", "reserve", "req"]
IO_KINDS = ["eof", "rderr", "wrerr", "budget", "takeping", "ping", "pollpong", "dropconn"]


def mutate(ops, rng, rate, kinds):
    out = []
    nreq = 0
    sids = []
    server = False
    next_sid = 1
    for line in ops:
        ws = line.split()
        if ws[0] == "cn_peer" and server and len(ws[1]) >= 18 and ws[1][6:8] == "01":
            sid = int(ws[1][10:18], 16) & 0x7fffffff
            if sid >= next_sid:
                next_sid = sid + 2
            sids.append(sid)
        if ws[0] == "cn_accept":
            nreq += 1
        if ws[0] == "cn_new":
            server = len(ws) > 1 and ws[1] == "server"
            next_sid = 1
            nreq = 0
            sids = []
            if "cfg" in kinds and rng.random() < 0.5:
                extra = []
                for opt, vals in [("reset_secs", [0]), ("init_max_send", [0, 1, 3]), ("first_id", [1, 7, 2147483645]),
                                  ("budget", [0, 100, 25600]), ("mfs", [16384, 20000]), ("mhl", [100, 16384]), ("hts", [0, 100]),
                                  ("push", [0, 1]), ("reset_max", [0, 1, 2]), ("sendbuf", [0, 1, 5000])]:
                    if rng.random() < 0.2 and (opt + "=") not in line:
                        extra.append(f"{opt}={rng.choice(vals)}")
                if server and rng.random() < 0.3:
                    ps = wire(4, 0, 0, rng.choice([b"\0\x04\0\0\0\x64", b"\0\x03\0\0\0\x01", b"\0\x02\0\0\0\0", b"\0\x04\0\x01\0\0\0\x05\0\0\x50\0"]))
                    extra.append("peer_settings=" + ps.hex())
                if server and rng.random() < 0.1:
                    extra.append("ecp=1")
                line = line.rstrip() + " " + " ".join(extra)
            out.append(line)
            continue
        if ws[0] in ("cn_req", "cn_reqc"):
            nreq += 1
            sids.append(2 * nreq - 1)
        out.append(line)
        if ws[0] == "cn_io":
            continue
        while rng.random() < rate:
            kind = rng.choice([k for k in kinds if k != "cfg"])
            k = rng.randrange(nreq + (1 if rng.random() < 0.02 else 0)) if nreq else 0
            if kind == "peer" and server:
                fs, next_sid = peer_frames_server(rng, sids[-4:] if sids else [], next_sid)
                for f in fs:
                    out.append("cn_peer " + f.hex())
                if rng.random() < 0.5:
                    out.append(rng.choice(["cn_poll", "cn_accept"]))
            elif kind == "user" and server:
                u = rng.choice(SERVER_USER_KINDS)
                if u == "accept":
                    out.append("cn_accept")
                    nreq += 1
                elif u == "respond": out.append(f"cn_respond {k} {rng.choice([200, 200, 204, 304, 404, 500, 100, 103, 99, 1000])} {rng.choice([0, 0, 1])}")
                elif u == "inform": out.append(f"cn_inform {k} {rng.choice([100, 103, 103, 199, 200, 404])}")
                elif u == "push": out.append(f"cn_push {k} /pushed{rng.randrange(3)}")
                elif u == "graceful": out.append("cn_graceful")
                elif u == "abrupt": out.append(f"cn_abrupt {rng.choice([0, 2, 11])}")
                elif u == "pollreset": out.append(f"cn_pollreset {k}")
                elif u == "data": out.append(f"cn_data {k} {rng.choice([0, 1, 1000, 20000, 100000])} {rng.choice([0, 0, 1])}")
                elif u == "trailers": out.append(f"cn_trailers {k}")
                elif u == "reserve": out.append(f"cn_reserve {k} {rng.choice([0, 5, 100000])}")
                elif u == "cap": out.append(f"cn_cap {k}")
                elif u == "pollcap": out.append(f"cn_pollcap {k}")
                elif u == "reset": out.append(f"cn_reset {k} {rng.choice([0, 8, 2])}")
                elif u == "drop": out.append(f"cn_drop {k} {rng.choice(['send', 'responder', 'body', 'fc', 'all'])}")
                elif u == "read": out.append(f"cn_read {k}")
                elif u == "release": out.append(f"cn_release {k} {rng.choice([0, 1, 5, 100, 1000, 16384, 70000])}")
                elif u == "keepfc": out.append(f"cn_keepfc {k}")
                elif u == "target": out.append(f"cn_target {rng.choice([0, 1000, 65535, 100000, 1 << 20, 0x7fffffff])}")
                elif u == "iws": out.append(f"cn_iws {rng.choice([0, 10, 1000, 65535, 100000, 0x7fffffff])}")
                elif u == "rtrailers": out.append(f"cn_rtrailers {k}")
                elif u == "eos": out.append(f"cn_eos {k}")
                elif u == "fcinfo": out.append(f"cn_fcinfo {k}")
                elif u == "poll": out.append("cn_poll")
                elif u == "clientop": out.append(rng.choice(["cn_req 0 GET /x -", "cn_ready", "cn_clone_sr", "cn_drop_sr main", f"cn_resp {k}", f"cn_info {k}"]))
                elif u == "takeping": out.append("cn_takeping")
                elif u == "ping": out.append("cn_ping")
                elif u == "pollpong": out.append("cn_pollpong")
            elif kind == "peer":
                for f in peer_frames(rng, sids[-4:] if sids else []):
                    out.append("cn_peer " + f.hex())
                if rng.random() < 0.5:
                    out.append("cn_poll")
            elif kind == "user":
                u = rng.choice(USER_KINDS)
                if u == "pollreset": out.append(f"cn_pollreset {k}")
                elif u == "info": out.append(f"cn_info {k}")
                elif u == "rtrailers": out.append(f"cn_rtrailers {k}")
                elif u == "eos": out.append(f"cn_eos {k}")
                elif u == "fcinfo": out.append(f"cn_fcinfo {k}")
                elif u == "keepfc": out.append(f"cn_keepfc {k}")
                elif u == "dropfc": out.append(f"cn_drop {k} fc")
                elif u == "release": out.append(f"cn_release {k} {rng.choice([0, 1, 5, 100, 1000, 16384, 70000, 3000000000])}")
                elif u == "clone_sr": out.append("cn_clone_sr")
                elif u == "drop_sr": out.append("cn_drop_sr " + rng.choice(["clone", "clone", "clone", "main"]))
                elif u == "ready": out.append("cn_ready")
                elif u == "target": out.append(f"cn_target {rng.choice([0, 1000, 65535, 100000, 1 << 20, 0x7fffffff])}")
                elif u == "iws": out.append(f"cn_iws {rng.choice([0, 10, 1000, 65535, 100000, 0x7fffffff])}")
                elif u == "poll": out.append("cn_poll")
                elif u == "resp": out.append(f"cn_resp {k}")
                elif u == "read": out.append(f"cn_read {k}")
                elif u == "cap": out.append(f"cn_cap {k}")
                elif u == "pollcap": out.append(f"cn_pollcap {k}")
                elif u == "reset": out.append(f"cn_reset {k} {rng.choice([0, 8, 2])}")
                elif u == "drop": out.append(f"cn_drop {k} {rng.choice(['send', 'resp', 'body', 'all'])}")
                elif u == "data": out.append(f"cn_data {k} {rng.choice([0, 1, 1000, 20000, 100000])} {rng.choice([0, 0, 1])}")
                elif u == "trailers": out.append(f"cn_trailers {k}")
                elif u == "reserve": out.append(f"cn_reserve {k} {rng.choice([0, 5, 100000, 4294967295, 4294967296 + 7])}")
                elif u == "req":
                    m = rng.choice(["GET", "HEAD", "POST", "CONNECT", "OPTIONS"])
                    extra = rng.choice(["-", "-", "7465=747261696c657273", "7465=677a6970", "636f6e6e656374696f6e=78", "782d61=31,782d62=32"])
                    out.append(f"cn_req {rng.choice([0, 1])} {m} /m{nreq} {extra}")
                    nreq += 1
                    sids.append(2 * nreq - 1)
            elif kind == "io":
                u = rng.choice(IO_KINDS)
                if u == "eof": out.append("cn_eof")
                elif u == "rderr": out.append("cn_rderr " + rng.choice(["BrokenPipe", "UnexpectedEof", "ConnectionReset", "Other"]))
                elif u == "wrerr": out.append("cn_wrerr " + rng.choice(["BrokenPipe", "TimedOut"]))
                elif u == "budget": out.append("cn_budget " + rng.choice(["0", "1", "9", "13", "100", "1033", "20000", "inf"]))
                elif u == "takeping": out.append("cn_takeping")
                elif u == "ping": out.append("cn_ping")
                elif u == "pollpong": out.append("cn_pollpong")
                elif u == "dropconn": out.append("cn_dropconn")
                if rng.random() < 0.5:
                    out.append("cn_poll")
    return out


def run_real(ops):
    """answers of the real code; when the harness process dies (a panic inside a destructor while
    unwinding aborts it) the histories are run one by one and a dying history is cut at the longest
    prefix that survives (the ops behind it are dropped from `ops` in place)"""
    text = "\n".join(ops) + "\n"
    r = subprocess.run([H2V, "run"], input=text, capture_output=True, text=True)
    if r.returncode == 0:
        return r.stdout.splitlines()
    hs, cur = [], []
    for o in ops:
        if o.startswith("cn_new") and cur:
            hs.append(cur)
            cur = []
        cur.append(o)
    hs.append(cur)
    out, kept = [], []
    for h in hs:
        rr = subprocess.run([H2V, "run"], input="\n".join(h) + "\n", capture_output=True, text=True)
        if rr.returncode != 0:
            lo, hi = 0, len(h)        # invariant: prefix lo survives, prefix hi dies
            while hi - lo > 1:
                mid = (lo + hi) // 2
                if subprocess.run([H2V, "run"], input="\n".join(h[:mid]) + "\n", capture_output=True, text=True).returncode == 0:
                    lo = mid
                else:
                    hi = mid
            print(f"NOTE: the real harness process died (abort) at op {hi} of a history starting with: {h[0]!r}; last op: {h[hi - 1][:80]!r}")
            h = h[:lo]
            rr = subprocess.run([H2V, "run"], input="\n".join(h) + "\n", capture_output=True, text=True)
        kept.extend(h)
        out.extend(rr.stdout.splitlines())
    ops[:] = kept
    global FALLBACK
    FALLBACK = True
    return out


FALLBACK = False


def main():
    a = sys.argv[1:]
    profile, seed, cases = a[0], a[1], a[2]
    rate = float(a[a.index("--rate") + 1]) if "--rate" in a else 0.15
    show = int(a[a.index("--show") + 1]) if "--show" in a else 3
    keep = a[a.index("--keep") + 1] if "--keep" in a else None
    kinds = a[a.index("--kinds") + 1].split(",") if "--kinds" in a else ["peer", "user"]
    ops = subprocess.run([H2V, "gen", profile, seed, cases], capture_output=True, text=True, check=True).stdout.splitlines()
    ops = [l for l in ops if l.strip() and not l.startswith("#")]
    rng = random.Random(int(seed) * 7919 + 13)
    ops = mutate(ops, rng, rate, kinds)
    text = "\n".join(ops) + "\n"
    if keep:
        os.makedirs(keep, exist_ok=True)
        open(os.path.join(keep, "ops.txt"), "w").write(text)
    impl = run_real(ops)
    text = "\n".join(ops) + "\n"
    mod = subprocess.run([MODEL], input=text, capture_output=True, text=True)
    model = mod.stdout.splitlines()
    if keep:
        os.makedirs(keep, exist_ok=True)
        open(os.path.join(keep, "ops.txt"), "w").write(text)
        open(os.path.join(keep, "impl.txt"), "w").write("\n".join(impl) + "\n")
        open(os.path.join(keep, "model.txt"), "w").write("\n".join(model) + "\n")
    if len(model) != len(ops) or len(impl) != len(ops):
        print(f"STREAM LENGTH: {len(ops)} ops, impl {len(impl)}, model {len(model)}; stderr: {mod.stderr[-300:]}")
    stats = collections.Counter()
    unm = collections.Counter()
    ndiv = nlines = nun = nhist = 0
    skipping = False
    hist_start = 0
    for i, o in enumerate(ops):
        if i >= len(impl) or i >= len(model):
            break
        if o.startswith("cn_new"):
            skipping = False
            hist_start = i
            nhist += 1
        if skipping:
            continue
        if o.startswith("cn_new") and impl[i].strip() == "panic":
            # the previous connection was poisoned by a panic of the real code: dropping its handles in
            # `new_conn` panics again and the harness keeps the OLD connection — nothing to compare
            skipping = True
            continue
        m = model[i].strip()
        if m == "unmodelled":
            nun += 1
            unm[o.split()[0] + " " + conndiff.fields(impl[i]).get("r", impl[i])[:40]] += 1
            skipping = True
            continue
        nlines += 1
        if m in ("panic", "bad-op") or impl[i].strip() in ("panic", "bad-op"):
            divs = [] if m == impl[i].strip() else [("whole", impl[i][:80], m[:80])]
            if m == "panic":
                skipping = True
        else:
            mline = model[i]
            if FALLBACK and o.startswith("cn_new"):
                # histories were run in separate processes: no previous connection whose drop wakes anything
                mline = " ".join("wk=?" if x.startswith("wk=") else x for x in mline.split(" "))
            divs = conndiff.compare_line(impl[i], mline, stats)
        if divs:
            ndiv += 1
            skipping = True
            if show > 0:
                show -= 1
                print(f"--- DIVERGENCE at op #{i} (history starts at #{hist_start}): {o[:160]}")
                for w, iv, mv in divs[:8]:
                    print(f"      {w}: impl={str(iv)[:300]}  model={str(mv)[:300]}")
                print(f"      impl : {impl[i][:700]}")
                print(f"      model: {model[i][:700]}")
                for j in range(max(hist_start, i - 8), i):
                    print(f"      prev #{j}: {ops[j][:100]}   -> {conndiff.fields(impl[j]).get('r')}  tx={conndiff.fields(impl[j]).get('tx', '')[:80]}")
    print(f"histories={nhist} ops={len(ops)} lines_compared={nlines} unmodelled_stops={nun} divergences={ndiv}")
    if unm:
        print("unmodelled at:", dict(unm.most_common(12)))
    skipped = {k: v for (k, w), v in stats.items() if w == "skipped"}
    if skipped:
        print("skipped fields:", skipped)
    sys.exit(1 if ndiv else 0)


if __name__ == "__main__":
    main()
