use std::pin::Pin;
use std::task::{Context, Poll, Wake, Waker};
use std::sync::{Arc, Mutex};
use std::future::Future;
use tokio::io::{AsyncRead, AsyncWrite, ReadBuf};
use bytes::Bytes;

#[derive(Default)]
struct Inner { wr: Vec<u8>, rd: Vec<u8>, budget: usize }
#[derive(Default, Clone)]
struct Io(Arc<Mutex<Inner>>);
impl std::fmt::Debug for Io { fn fmt(&self, f: &mut std::fmt::Formatter<'_>) -> std::fmt::Result { write!(f, "Io") } }
impl AsyncRead for Io {
    fn poll_read(self: Pin<&mut Self>, _cx: &mut Context<'_>, buf: &mut ReadBuf<'_>) -> Poll<std::io::Result<()>> {
        let mut i = self.0.lock().unwrap();
        if i.rd.is_empty() { return Poll::Pending; }
        let n = buf.remaining().min(i.rd.len());
        let d: Vec<u8> = i.rd.drain(..n).collect();
        buf.put_slice(&d);
        Poll::Ready(Ok(()))
    }
}
impl AsyncWrite for Io {
    fn poll_write(self: Pin<&mut Self>, _cx: &mut Context<'_>, b: &[u8]) -> Poll<std::io::Result<usize>> {
        let mut i = self.0.lock().unwrap();
        if i.budget == 0 { return Poll::Pending; }
        let n = b.len().min(i.budget); i.budget -= n;
        i.wr.extend_from_slice(&b[..n]); Poll::Ready(Ok(n)) }
    fn poll_flush(self: Pin<&mut Self>, _cx: &mut Context<'_>) -> Poll<std::io::Result<()>> { Poll::Ready(Ok(())) }
    fn poll_shutdown(self: Pin<&mut Self>, _cx: &mut Context<'_>) -> Poll<std::io::Result<()>> { Poll::Ready(Ok(())) }
}
struct W; impl Wake for W { fn wake(self: Arc<Self>) {} }
fn frame(ty: u8, flags: u8, sid: u32, payload: &[u8]) -> Vec<u8> {
    let mut v = vec![(payload.len()>>16) as u8, (payload.len()>>8) as u8, payload.len() as u8, ty, flags];
    v.extend_from_slice(&sid.to_be_bytes()); v.extend_from_slice(payload); v
}
struct Rng(u64);
impl Rng { fn next(&mut self) -> u64 { self.0 ^= self.0 << 13; self.0 ^= self.0 >> 7; self.0 ^= self.0 << 17; self.0 }
  fn below(&mut self, n: u64) -> u64 { self.next() % n } }

fn scan(wr: &mut Vec<u8>, log: &mut Vec<String>) {
    let mut i = 0;
    if wr.starts_with(b"PRI") { i = 24; }
    while i + 9 <= wr.len() {
        let len = ((wr[i] as usize)<<16)|((wr[i+1] as usize)<<8)|wr[i+2] as usize;
        if i + 9 + len > wr.len() { break; }
        let ty = wr[i+3]; let fl = wr[i+4]; let sid = u32::from_be_bytes([wr[i+5],wr[i+6],wr[i+7],wr[i+8]]) & 0x7fffffff;
        let extra = if ty == 3 || ty == 8 { format!(" v={}", u32::from_be_bytes([wr[i+9],wr[i+10],wr[i+11],wr[i+12]])) } else { String::new() };
        log.push(format!("t={} f={} s={} l={}{}", ty, fl, sid, len, extra));
        i += 9 + len;
    }
    wr.drain(..i);
}
struct St { ss: Option<h2::SendStream<Bytes>>, rf: Option<h2::client::ResponseFuture>, id: u32 }

fn main() {
    let seed: u64 = std::env::args().nth(1).map(|s| s.parse().unwrap()).unwrap_or(1);
    let nops: usize = std::env::args().nth(2).map(|s| s.parse().unwrap()).unwrap_or(200);
    let mut rng = Rng(seed.wrapping_mul(0x9E3779B97F4A7C15) | 1);
    let waker = Waker::from(Arc::new(W));
    let mut cx = Context::from_waker(&waker);
    let io = Io::default(); io.0.lock().unwrap().budget = usize::MAX;
    let mut b = h2::client::Builder::new();
    b.reset_stream_duration(std::time::Duration::from_secs(3600));
    if rng.below(2) == 0 { b.max_send_buffer_size([0usize, 10, 1000, 100000][rng.below(4) as usize]); }
    let mut hs = Box::pin(b.handshake::<_, Bytes>(io.clone()));
    let (mut sr, mut conn) = match hs.as_mut().poll(&mut cx) { Poll::Ready(Ok(x)) => x, _ => panic!() };
    io.0.lock().unwrap().rd.extend(frame(4, 0, 0, &[]));
    let mut streams: Vec<St> = vec![];
    let sizes = [0u32, 1, 5, 100, 1000, 16384, 16385, 40000, 65535, 70000, 200000];
    let wins = [0u32, 1, 10, 1000, 65535, 100000, 0x7fffffff];
    for step in 0..nops {
        let op = rng.below(16);
        let desc: String;
        match op {
            0 | 1 => {
                let eos = rng.below(4) == 0;
                let req = http::Request::builder().method("POST").uri("http://a/b").body(()).unwrap();
                match sr.send_request(req, eos) {
                    Ok((rf, ss)) => { let id = ss.stream_id().as_u32(); streams.push(St{ss: Some(ss), rf: Some(rf), id}); desc = format!("send_request eos={} -> id {}", eos, id); }
                    Err(e) => { desc = format!("send_request err {:?}", e); }
                }
            }
            2 | 3 | 4 => {
                if streams.is_empty() { continue; }
                let k = rng.below(streams.len() as u64) as usize;
                let len = sizes[rng.below(sizes.len() as u64) as usize] as usize;
                let eos = rng.below(5) == 0;
                if let Some(ss) = streams[k].ss.as_mut() {
                    let r = ss.send_data(Bytes::from(vec![0u8; len]), eos);
                    desc = format!("send_data id={} len={} eos={} -> {:?}", streams[k].id, len, eos, r.is_ok());
                } else { continue; }
            }
            5 => {
                if streams.is_empty() { continue; }
                let k = rng.below(streams.len() as u64) as usize;
                let n = sizes[rng.below(sizes.len() as u64) as usize] as usize;
                if let Some(ss) = streams[k].ss.as_mut() { ss.reserve_capacity(n); desc = format!("reserve id={} n={}", streams[k].id, n); } else { continue; }
            }
            6 => {
                if streams.is_empty() { continue; }
                let k = rng.below(streams.len() as u64) as usize;
                if let Some(ss) = streams[k].ss.as_mut() { ss.send_reset(h2::Reason::CANCEL); desc = format!("reset id={}", streams[k].id); } else { continue; }
            }
            7 => {
                if streams.is_empty() { continue; }
                let k = rng.below(streams.len() as u64) as usize;
                if rng.below(2) == 0 { streams[k].ss = None; desc = format!("drop ss id={}", streams[k].id); } else { streams[k].rf = None; desc = format!("drop rf id={}", streams[k].id); }
            }
            8 => { // peer settings
                let mut p = vec![];
                if rng.below(2) == 0 { let w = wins[rng.below(wins.len() as u64) as usize]; p.extend_from_slice(&[0,4]); p.extend_from_slice(&w.to_be_bytes()); }
                if rng.below(3) == 0 { let m = [0u32,1,2,100][rng.below(4) as usize]; p.extend_from_slice(&[0,3]); p.extend_from_slice(&m.to_be_bytes()); }
                io.0.lock().unwrap().rd.extend(frame(4, 0, 0, &p)); desc = format!("peer SETTINGS {:?}", p);
            }
            9 | 10 => { // window update
                let inc = [1u32, 10, 1000, 65535, 100000][rng.below(5) as usize];
                let sid = if rng.below(2) == 0 || streams.is_empty() { 0 } else { streams[rng.below(streams.len() as u64) as usize].id };
                io.0.lock().unwrap().rd.extend(frame(8, 0, sid, &inc.to_be_bytes())); desc = format!("peer WU sid={} inc={}", sid, inc);
            }
            11 => { // peer RST
                if streams.is_empty() { continue; }
                let sid = streams[rng.below(streams.len() as u64) as usize].id;
                io.0.lock().unwrap().rd.extend(frame(3, 0, sid, &[0,0,0,8])); desc = format!("peer RST sid={}", sid);
            }
            12 => { // peer response
                if streams.is_empty() { continue; }
                let sid = streams[rng.below(streams.len() as u64) as usize].id;
                let eos = rng.below(2) == 0;
                io.0.lock().unwrap().rd.extend(frame(1, 0x4 | if eos {1} else {0}, sid, &[0x88])); desc = format!("peer HEADERS sid={} eos={}", sid, eos);
            }
            13 => { let bud = [0usize, 1, 9, 100, 20000, usize::MAX][rng.below(6) as usize]; io.0.lock().unwrap().budget = bud; desc = format!("budget {}", bud); }
            _ => { let r = Pin::new(&mut conn).poll(&mut cx); desc = format!("poll conn -> {:?}", r.is_ready()); if r.is_ready() { println!("#STEP {} {}", step, desc); break; } }
        }
        let mut log = vec![]; scan(&mut io.0.lock().unwrap().wr, &mut log);
        println!("#STEP {} {} | {}", step, desc, log.join("; "));
        println!("{:#?}", conn);
    }
}
