import sys, subprocess, re, concurrent.futures as cf
def run(seed,n=800):
    out=subprocess.run(['/tmp/probe/h2/target/release/hprobe2',str(seed),str(n)],capture_output=True,text=True)
    if out.returncode!=0: return (seed,'CRASH '+out.stderr[-300:])
    opened=set(); ended=set(); rst={}; last_id=0; hist=[]
    for line in out.stdout.splitlines():
        if not line.startswith('#STEP'): continue
        head,_,tx=line.partition(' | ')
        hist.append(head)
        for fr in [x for x in tx.split('; ') if x.strip()]:
            m=dict(kv.split('=') for kv in fr.split())
            t=int(m['t']); f=int(m['f']); s=int(m['s']); l=int(m['l'])
            prob=None
            if t in (0,1,3,5,9) and s==0: prob='stream frame on stream 0'
            if t in (4,6,7) and s!=0: prob='conn frame on stream'
            if s!=0:
                if t==1 and s not in opened:
                    if s%2!=1: prob='even id from client'
                    if s<=last_id: prob=f'id {s} not increasing (last {last_id})'
                    last_id=max(last_id,s); opened.add(s)
                    if f&1: ended.add(s)
                elif s not in opened:
                    prob=f'frame type {t} on idle stream {s}'
                else:
                    if s in rst and t!=2: prob=f'frame type {t} after RST_STREAM on {s}' + (' (duplicate RST)' if t==3 else '')
                    elif s in ended and t in (0,1): prob=f'DATA/HEADERS after END_STREAM on {s}'
                    if t in (0,1) and f&1: ended.add(s)
                    if t==3: rst[s]=rst.get(s,0)+1
            if prob: return (seed, prob+' at '+head+' :: '+' / '.join(hist[-6:]))
    return None
with cf.ThreadPoolExecutor(16) as ex:
    res=[r for r in ex.map(run, range(int(sys.argv[1]),int(sys.argv[2]))) if r]
print('bad',len(res))
seen=set()
for seed,p in res:
    k=re.sub(r'\d+','N',p.split(' at ')[0])
    if k in seen: continue
    seen.add(k); print(seed,p[:700])
