use std::pin::Pin;
use std::task::{Context, Poll, Wake, Waker};
use std::sync::{Arc, Mutex};
use std::future::Future;
use tokio::io::{AsyncRead, AsyncWrite, ReadBuf};
use bytes::Bytes;
#[derive(Default)]
struct Inner { wr: Vec<u8>, rd: Vec<u8> }
#[derive(Default, Clone)]
struct Io(Arc<Mutex<Inner>>);
impl std::fmt::Debug for Io { fn fmt(&self, f: &mut std::fmt::Formatter<'_>) -> std::fmt::Result { write!(f, "Io") } }
impl AsyncRead for Io {
    fn poll_read(self: Pin<&mut Self>, _cx: &mut Context<'_>, buf: &mut ReadBuf<'_>) -> Poll<std::io::Result<()>> {
        let mut i = self.0.lock().unwrap();
        if i.rd.is_empty() { return Poll::Pending; }
        let n = buf.remaining().min(i.rd.len());
        let d: Vec<u8> = i.rd.drain(..n).collect();
        buf.put_slice(&d);
        Poll::Ready(Ok(()))
    }
}
impl AsyncWrite for Io {
    fn poll_write(self: Pin<&mut Self>, _cx: &mut Context<'_>, b: &[u8]) -> Poll<std::io::Result<usize>> { self.0.lock().unwrap().wr.extend_from_slice(b); Poll::Ready(Ok(b.len())) }
    fn poll_flush(self: Pin<&mut Self>, _cx: &mut Context<'_>) -> Poll<std::io::Result<()>> { Poll::Ready(Ok(())) }
    fn poll_shutdown(self: Pin<&mut Self>, _cx: &mut Context<'_>) -> Poll<std::io::Result<()>> { Poll::Ready(Ok(())) }
}
struct W; impl Wake for W { fn wake(self: Arc<Self>) {} }
fn frame(ty: u8, flags: u8, sid: u32, payload: &[u8]) -> Vec<u8> {
    let mut v = vec![(payload.len()>>16) as u8, (payload.len()>>8) as u8, payload.len() as u8, ty, flags];
    v.extend_from_slice(&sid.to_be_bytes()); v.extend_from_slice(payload); v
}
fn dump(wr: &mut Vec<u8>) {
    let mut i = 0;
    if wr.starts_with(b"PRI") { i = 24; }
    while i + 9 <= wr.len() {
        let len = ((wr[i] as usize)<<16)|((wr[i+1] as usize)<<8)|wr[i+2] as usize;
        println!("    tx type={} flags={:#x} sid={} len={}", wr[i+3], wr[i+4], u32::from_be_bytes([wr[i+5],wr[i+6],wr[i+7],wr[i+8]]), len);
        i += 9 + len;
    }
    wr.clear();
}
fn flows(conn: &impl std::fmt::Debug) {
    let s = format!("{:?}", conn);
    let i = s.find("prioritize: Prioritize").unwrap();
    let j = s[i..].find("flow: FlowControl").unwrap();
    println!("    conn send flow: {}", &s[i+j..i+j+80]);
}
fn dumpw(io: &Io) {
    let mut w = io.0.lock().unwrap(); let wr = &mut w.wr; let mut i = 0; if wr.starts_with(b"PRI") { i = 24; }
    while i + 9 <= wr.len() { let len = ((wr[i] as usize)<<16)|((wr[i+1] as usize)<<8)|wr[i+2] as usize; println!("    tx type={} flags={:#x} sid={} len={}", wr[i+3], wr[i+4], wr[i+8], len); i += 9 + len; }
    wr.clear();
}
fn main() {
    let waker = Waker::from(Arc::new(W));
    let mut cx = Context::from_waker(&waker);
    let io = Io::default();
    io.0.lock().unwrap().rd.extend_from_slice(b"PRI * HTTP/2.0\r\n\r\nSM\r\n\r\n");
    io.0.lock().unwrap().rd.extend(frame(4, 0, 0, &[]));
    let mut hs = Box::pin(h2::server::Builder::new().handshake::<_, Bytes>(io.clone()));
    let mut conn = match hs.as_mut().poll(&mut cx) { Poll::Ready(Ok(x)) => x, _ => panic!() };
    let _ = conn.poll_accept(&mut cx); dumpw(&io);
    // PRIORITY on idle stream 5 depending on itself
    io.0.lock().unwrap().rd.extend(frame(2, 0, 5, &[0,0,0,5, 16]));
    let r = conn.poll_accept(&mut cx);
    println!("  after self-dependent PRIORITY on idle stream 5: {:?}", r.map(|x| x.map(|y| y.map(|_| ())))); dumpw(&io);
    // now a perfectly legal request on stream 1 (lower id, still idle for the peer)
    io.0.lock().unwrap().rd.extend(frame(1, 0x5, 1, &[0x82, 0x86, 0x84, 0x41, 0x01, b'a']));
    let r = conn.poll_accept(&mut cx);
    println!("  legal HEADERS on stream 1 afterwards: {:?}", r.map(|x| x.map(|y| y.map(|_| ())))); dumpw(&io);
}
