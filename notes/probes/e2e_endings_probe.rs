// e2e strict-executor liveness probe (throw-away)
use std::collections::VecDeque;
use std::future::Future;
use std::pin::Pin;
use std::sync::{Arc, Mutex};
use std::task::{Context, Poll, Wake, Waker};
use tokio::io::{AsyncRead, AsyncWrite, ReadBuf};
use bytes::Bytes;

struct Rng(u64);
impl Rng { fn next(&mut self) -> u64 { self.0 ^= self.0 << 13; self.0 ^= self.0 >> 7; self.0 ^= self.0 << 17; self.0 }
  fn below(&mut self, n: u64) -> u64 { (self.next() >> 11) % n } }

#[derive(Default)]
struct PipeInner { data: VecDeque<u8>, cap: usize, rw: Option<Waker>, ww: Option<Waker>, chunk: usize, eof: bool, err: bool }
#[derive(Clone, Default)]
struct Pipe(Arc<Mutex<PipeInner>>);
struct Io { rd: Pipe, wr: Pipe }
impl std::fmt::Debug for Io { fn fmt(&self, f: &mut std::fmt::Formatter<'_>) -> std::fmt::Result { write!(f, "Io") } }
impl AsyncRead for Io {
    fn poll_read(self: Pin<&mut Self>, cx: &mut Context<'_>, buf: &mut ReadBuf<'_>) -> Poll<std::io::Result<()>> {
        let mut p = self.rd.0.lock().unwrap();
        if p.err { return Poll::Ready(Err(std::io::Error::new(std::io::ErrorKind::ConnectionReset, "reset"))); }
        if p.data.is_empty() { if p.eof { return Poll::Ready(Ok(())); } p.rw = Some(cx.waker().clone()); return Poll::Pending; }
        let n = buf.remaining().min(p.data.len()).min(p.chunk.max(1));
        let d: Vec<u8> = p.data.drain(..n).collect();
        buf.put_slice(&d);
        if let Some(w) = p.ww.take() { w.wake(); }
        Poll::Ready(Ok(()))
    }
}
impl AsyncWrite for Io {
    fn poll_write(self: Pin<&mut Self>, cx: &mut Context<'_>, b: &[u8]) -> Poll<std::io::Result<usize>> {
        let mut p = self.wr.0.lock().unwrap();
        if p.err || p.eof { return Poll::Ready(Err(std::io::Error::new(std::io::ErrorKind::BrokenPipe, "closed"))); }
        let free = p.cap.saturating_sub(p.data.len());
        if free == 0 { p.ww = Some(cx.waker().clone()); return Poll::Pending; }
        let n = b.len().min(free).min(p.chunk.max(1));
        p.data.extend(&b[..n]);
        if let Some(w) = p.rw.take() { w.wake(); }
        Poll::Ready(Ok(n))
    }
    fn poll_flush(self: Pin<&mut Self>, _cx: &mut Context<'_>) -> Poll<std::io::Result<()>> { Poll::Ready(Ok(())) }
    fn poll_shutdown(self: Pin<&mut Self>, _cx: &mut Context<'_>) -> Poll<std::io::Result<()>> { let mut p = self.wr.0.lock().unwrap(); p.eof = true; if let Some(w) = p.rw.take() { w.wake(); } Poll::Ready(Ok(())) }
}
impl Drop for Io { fn drop(&mut self) {
    { let mut p = self.wr.0.lock().unwrap(); p.eof = true; if let Some(w) = p.rw.take() { w.wake(); } }
    { let mut p = self.rd.0.lock().unwrap(); p.err = true; if let Some(w) = p.ww.take() { w.wake(); } }
} }

struct Flags(Mutex<Vec<bool>>);
struct FW { id: usize, flags: Arc<Flags> }
impl Wake for FW { fn wake(self: Arc<Self>) { let mut f = self.flags.0.lock().unwrap(); if f.len() <= self.id { f.resize(self.id + 1, false); } f[self.id] = true; } }
fn waker(id: usize, flags: &Arc<Flags>) -> Waker { Waker::from(Arc::new(FW { id, flags: flags.clone() })) }

enum CState { Sending, AwaitResp, Reading, Done, Failed(String) }
const CHAOS: bool = true;
struct CTask { is_final: bool, ss: Option<h2::SendStream<Bytes>>, rf: Option<h2::client::ResponseFuture>, body: Option<h2::RecvStream>, to_send: usize, sent: usize, got: usize, expect: usize, st: CState, chunk: usize, requested: bool }
enum SState { ReadingReq, Sending, Done, Failed(String) }
struct STask { is_final: bool, cancelled: bool, body: Option<h2::RecvStream>, resp: Option<h2::server::SendResponse<Bytes>>, ss: Option<h2::SendStream<Bytes>>, got: usize, to_send: usize, sent: usize, st: SState, chunk: usize, requested: bool }

fn send_loop(ss: &mut h2::SendStream<Bytes>, cx: &mut Context<'_>, to_send: usize, sent: &mut usize, chunk: usize, requested: &mut bool) -> Result<bool, String> {
    // returns Ok(true) when everything was submitted (with END_STREAM)
    loop {
        if *sent == to_send { ss.send_data(Bytes::new(), true).map_err(|e| format!("send eos {:?}", e))?; return Ok(true); }
        let want = (to_send - *sent).min(chunk);
        if !*requested { ss.reserve_capacity(want); *requested = true; }
        let cap = ss.capacity();
        if cap == 0 {
            match ss.poll_capacity(cx) {
                Poll::Ready(Some(Ok(_))) => continue,
                Poll::Ready(Some(Err(e))) => return Err(format!("poll_capacity {:?}", e)),
                Poll::Ready(None) => return Err("poll_capacity None".into()),
                Poll::Pending => return Ok(false),
            }
        }
        let n = cap.min(want);
        let last = *sent + n == to_send;
        ss.send_data(Bytes::from(vec![7u8; n]), last).map_err(|e| format!("send_data {:?}", e))?;
        *sent += n; *requested = false;
        if last { return Ok(true); }
    }
}

fn main() {
    let seed: u64 = std::env::args().nth(1).map(|s| s.parse().unwrap()).unwrap_or(1);
    let verbose = std::env::args().nth(2).is_some();
    let mut rng = Rng(seed.wrapping_mul(0x9E3779B97F4A7C15) | 1);
    let flags = Arc::new(Flags(Mutex::new(vec![true, true])));
    let c2s = Pipe::default(); let s2c = Pipe::default();
    let caps = [64usize, 65, 100, 1000, 16384, 100000, 1 << 30];
    let chunks = [1usize, 9, 10, 100, 1000, 16384, 100000, 1 << 30];
    c2s.0.lock().unwrap().cap = caps[rng.below(caps.len() as u64) as usize]; s2c.0.lock().unwrap().cap = caps[rng.below(caps.len() as u64) as usize];
    c2s.0.lock().unwrap().chunk = chunks[rng.below(chunks.len() as u64) as usize]; s2c.0.lock().unwrap().chunk = chunks[rng.below(chunks.len() as u64) as usize];
    let wins = [1u32, 2, 10, 100, 1000, 16384, 65535, 100000, 1 << 20];
    let mut cb = h2::client::Builder::new(); let mut sb = h2::server::Builder::new();
    let ciw = wins[rng.below(wins.len() as u64) as usize]; let siw = wins[rng.below(wins.len() as u64) as usize];
    cb.initial_window_size(ciw); sb.initial_window_size(siw); cb.data_frame_budget(usize::MAX); sb.data_frame_budget(usize::MAX);
    if rng.below(2) == 0 { cb.initial_connection_window_size(wins[3 + rng.below(6) as usize].max(65535)); }
    if rng.below(2) == 0 { sb.initial_connection_window_size(wins[3 + rng.below(6) as usize].max(65535)); }
    let mcs = [1u32, 2, 3, 100][rng.below(4) as usize]; sb.max_concurrent_streams(mcs);
    let sbuf = [1usize, 10, 1000, 16384, 400 * 1024][rng.below(5) as usize]; cb.max_send_buffer_size(sbuf); sb.max_send_buffer_size(sbuf);
    if rng.below(3) == 0 { let m = [16384u32, 16385, 65536, 1 << 20][rng.below(4) as usize]; cb.max_frame_size(m); sb.max_frame_size(m); }
    let nreq = 1 + rng.below(6) as usize;
    let sizes = [0usize, 1, 10, 1000, 16384, 16385, 65535, 65536, 200000];
    let (pa, pc) = { let p = c2s.0.lock().unwrap(); (p.cap, p.chunk) }; let (pb, pd) = { let p = s2c.0.lock().unwrap(); (p.cap, p.chunk) };
    let cfg = format!("seed={} ciw={} siw={} mcs={} sbuf={} nreq={} pipes=({},{},{},{})", seed, ciw, siw, mcs, sbuf, nreq, pa, pb, pc, pd);
    let cio = Io { rd: s2c.clone(), wr: c2s.clone() }; let sio = Io { rd: c2s.clone(), wr: s2c.clone() };
    let mut chs = Box::pin(cb.handshake::<_, Bytes>(cio));
    let mut shs = Box::pin(sb.handshake::<_, Bytes>(sio));
    let mut cconn: Option<h2::client::Connection<Io, Bytes>> = None; let mut sr: Option<h2::client::SendRequest<Bytes>> = None;
    let mut sconn: Option<h2::server::Connection<Io, Bytes>> = None;
    let mut ctasks: Vec<CTask> = vec![]; let mut stasks: Vec<STask> = vec![];
    let mut started = 0usize; let mut sr_dead = false;
    let mut sr_task_flag_id = 2usize; // task id 2 = request starter
    flags.0.lock().unwrap().push(true);
    let mut steps = 0u64; let end_kind = rng.below(6); let end_at = 5 + rng.below(3000); let mut ended = false;
    let mut conn_done = (false, false); let mut chaos_any = false;
    loop {
        steps += 1; if steps > 2_000_000 { println!("BUSY {}", cfg); return; }
        if !ended && steps >= end_at && cconn.is_some() && sconn.is_some() && !conn_done.0 && !conn_done.1 {
            ended = true;
            let wake_all = |p: &Pipe| { let mut g = p.0.lock().unwrap(); if let Some(w) = g.rw.take() { w.wake(); } if let Some(w) = g.ww.take() { w.wake(); } };
            match end_kind {
                0 => { c2s.0.lock().unwrap().eof = true; s2c.0.lock().unwrap().eof = true; wake_all(&c2s); wake_all(&s2c); }
                1 => { c2s.0.lock().unwrap().err = true; s2c.0.lock().unwrap().err = true; wake_all(&c2s); wake_all(&s2c); }
                2 => { s2c.0.lock().unwrap().eof = true; wake_all(&s2c); }
                3 => { sconn.as_mut().unwrap().graceful_shutdown(); flags.0.lock().unwrap()[1] = true; }
                4 => { sconn.as_mut().unwrap().abrupt_shutdown(h2::Reason::INTERNAL_ERROR); flags.0.lock().unwrap()[1] = true; }
                _ => { cconn = None; conn_done.0 = true; let mut f = flags.0.lock().unwrap(); for x in f.iter_mut() { *x = *x; } }
            }
        }
        let ready: Vec<usize> = { let f = flags.0.lock().unwrap(); (0..f.len()).filter(|i| f[*i]).collect() };
        if ready.is_empty() { break; }
        let id = ready[rng.below(ready.len() as u64) as usize];
        flags.0.lock().unwrap()[id] = false;
        let w = waker(id, &flags); let mut cx = Context::from_waker(&w);
        if id == 0 {
            if conn_done.0 { continue; }
            if cconn.is_none() && ended { continue; }
            if cconn.is_none() { match chs.as_mut().poll(&mut cx) { Poll::Ready(Ok((s, c))) => { sr = Some(s); cconn = Some(c); flags.0.lock().unwrap()[0] = true; flags.0.lock().unwrap()[2] = true; } Poll::Ready(Err(e)) => { println!("FAIL client hs {:?} {}", e, cfg); return; } Poll::Pending => {} } }
            else { match Pin::new(cconn.as_mut().unwrap()).poll(&mut cx) { Poll::Ready(r) => { conn_done.0 = true; if verbose { println!("client conn done {:?}", r); } cconn = None; } Poll::Pending => {} } }
        } else if id == 1 {
            if conn_done.1 { continue; }
            if sconn.is_none() && ended { continue; }
            if sconn.is_none() { match shs.as_mut().poll(&mut cx) { Poll::Ready(Ok(c)) => { sconn = Some(c); flags.0.lock().unwrap()[1] = true; } Poll::Ready(Err(e)) => { println!("FAIL server hs {:?} {}", e, cfg); return; } Poll::Pending => {} } }
            else { let mut drop_s = false; loop { match sconn.as_mut().unwrap().poll_accept(&mut cx) {
                Poll::Ready(Some(Ok((req, resp)))) => { let tid = 100 + stasks.len() * 2 + 1; let to_send = sizes[rng.below(sizes.len() as u64) as usize]; stasks.push(STask { is_final: false, cancelled: false, body: Some(req.into_body()), resp: Some(resp), ss: None, got: 0, to_send, sent: 0, st: SState::ReadingReq, chunk: [1usize, 100, 16384, 100000][rng.below(4) as usize], requested: false }); let mut f = flags.0.lock().unwrap(); if f.len() <= tid { f.resize(tid + 1, false); } f[tid] = true; }
                Poll::Ready(Some(Err(e))) => { if ended { conn_done.1 = true; drop_s = true; let _ = &e; break; } println!("FAIL accept {:?} {}", e, cfg); return; }
                Poll::Ready(None) => { conn_done.1 = true; drop_s = true; break; }
                Poll::Pending => break } } if drop_s { sconn = None; } }
        } else if id == 2 {
            // request starter: start requests when ready
            let _ = sr_task_flag_id; sr_task_flag_id = 2;
            if let Some(s) = sr.as_mut() {
                while started < nreq {
                    if started + 1 == nreq && !ctasks.iter().all(|t| matches!(t.st, CState::Done | CState::Failed(_))) { break; }
                    match s.poll_ready(&mut cx) { Poll::Ready(Ok(())) => {}, Poll::Ready(Err(e)) => { if ended { started = nreq; sr_dead = true; break; } println!("FAIL poll_ready {:?} {}", e, cfg); return; } Poll::Pending => break }
                    let to_send = if started + 1 == nreq { 200000 } else { sizes[rng.below(sizes.len() as u64) as usize] };
                    let req = http::Request::builder().method("POST").uri("http://a/b").body(()).unwrap();
                    match s.send_request(req, false) {
                        Ok((rf, ss)) => { let tid = 100 + ctasks.len() * 2; ctasks.push(CTask { is_final: started + 1 == nreq, ss: Some(ss), rf: Some(rf), body: None, to_send, sent: 0, got: 0, expect: 0, st: CState::Sending, chunk: [1usize, 100, 16384, 100000][rng.below(4) as usize], requested: false }); let mut f = flags.0.lock().unwrap(); if f.len() <= tid { f.resize(tid + 1, false); } f[tid] = true; started += 1; }
                        Err(e) => { if ended { started = nreq; sr_dead = true; break; } println!("FAIL send_request {:?} {}", e, cfg); return; }
                    }
                }
                if started == nreq || sr_dead { sr = None; } // drop the SendRequest handle so that the client can close when idle
            }
        } else if id >= 100 && (id - 100) % 2 == 0 {
            let k = (id - 100) / 2; let t = &mut ctasks[k];
            if CHAOS && !t.is_final && !matches!(t.st, CState::Done | CState::Failed(_)) && rng.below(10) == 0 {
                match rng.below(4) {
                    0 => { if let Some(ss) = t.ss.as_mut() { ss.send_reset(h2::Reason::CANCEL); } t.ss = None; t.rf = None; t.body = None; }
                    1 => { t.ss = None; t.rf = None; t.body = None; }
                    2 => { t.rf = None; t.body = None; t.ss = None; }
                    _ => { t.body = None; t.rf = None; t.ss = None; }
                }
                t.st = CState::Done; t.to_send = usize::MAX; flags.0.lock().unwrap()[2] = true; continue;
            }
            loop { match t.st {
                CState::Sending => match send_loop(t.ss.as_mut().unwrap(), &mut cx, t.to_send, &mut t.sent, t.chunk, &mut t.requested) { Ok(true) => { t.st = CState::AwaitResp; t.ss = None; } Ok(false) => break, Err(e) => { if e.contains("REFUSED") || e.contains("InactiveStreamId") || e.contains("None") { t.st = CState::AwaitResp; t.ss = None; t.to_send = usize::MAX; } else { t.st = CState::Failed(e); break } } },
                CState::AwaitResp => match Pin::new(t.rf.as_mut().unwrap()).poll(&mut cx) { Poll::Ready(Ok(r)) => { t.body = Some(r.into_body()); t.rf = None; t.st = CState::Reading; } Poll::Ready(Err(e)) => { if e.reason() == Some(h2::Reason::REFUSED_STREAM) { t.st = CState::Done; t.rf = None; t.to_send = usize::MAX; } else { t.st = CState::Failed(format!("resp {:?}", e)); } break } Poll::Pending => break },
                CState::Reading => match t.body.as_mut().unwrap().poll_data(&mut cx) { Poll::Ready(Some(Ok(d))) => { t.got += d.len(); let _ = t.body.as_mut().unwrap().flow_control().release_capacity(d.len()); } Poll::Ready(Some(Err(e))) => { t.st = CState::Failed(format!("data {:?}", e)); break } Poll::Ready(None) => { t.st = CState::Done; t.body = None; break } Poll::Pending => break },
                _ => break } }
            let _ = t.expect; if matches!(t.st, CState::Done | CState::Failed(_)) { t.ss = None; t.rf = None; t.body = None; flags.0.lock().unwrap()[2] = true; }
        } else if id >= 100 {
            let k = (id - 100) / 2; let t = &mut stasks[k];
            if CHAOS && started < nreq && !matches!(t.st, SState::Done | SState::Failed(_)) && rng.below(10) == 0 && !t.is_final {
                match rng.below(3) {
                    0 => { if let Some(r) = t.resp.as_mut() { r.send_reset(h2::Reason::INTERNAL_ERROR); } }
                    1 => { if let Some(ss) = t.ss.as_mut() { ss.send_reset(h2::Reason::CANCEL); } }
                    _ => {}
                }
                t.resp = None; t.ss = None; t.body = None; t.cancelled = true; t.st = SState::Done; chaos_any = true;
                // the RecvStream (t.body) is dropped by replacing the task's body with a closed marker: we cannot move out, so just stop polling it
                continue;
            }
            loop { match t.st {
                SState::ReadingReq => match t.body.as_mut().unwrap().poll_data(&mut cx) { Poll::Ready(Some(Ok(d))) => { t.got += d.len(); let _ = t.body.as_mut().unwrap().flow_control().release_capacity(d.len()); } Poll::Ready(Some(Err(e))) => { t.st = SState::Failed(format!("req data {:?}", e)); break } Poll::Ready(None) => { let ss = t.resp.as_mut().unwrap().send_response(http::Response::new(()), false); match ss { Ok(ss) => { t.ss = Some(ss); t.st = SState::Sending; } Err(e) => { t.st = SState::Failed(format!("respond {:?}", e)); break } } } Poll::Pending => break },
                SState::Sending => match send_loop(t.ss.as_mut().unwrap(), &mut cx, t.to_send, &mut t.sent, t.chunk, &mut t.requested) { Ok(true) => { t.st = SState::Done; t.ss = None; t.resp = None; break } Ok(false) => break, Err(e) => { t.st = SState::Failed(e); break } },
                _ => break } }
            if matches!(t.st, SState::Done | SState::Failed(_)) { t.body = None; t.ss = None; t.resp = None; }
        }
    }
    // quiescent: evaluate
    let mut problems = vec![];
    if started < nreq && !ended { problems.push(format!("only {}/{} requests started", started, nreq)); }
    for (k, t) in ctasks.iter().enumerate() { match &t.st { CState::Done => { if t.got != stasks.get(k).map(|s| s.to_send).unwrap_or(usize::MAX) && false { } } CState::Failed(e) => { if !ended && (!CHAOS || t.is_final) { problems.push(format!("client task {} failed: {}", k, e)) } }, CState::Sending => problems.push(format!("client task {} STUCK sending {}/{} cap={}", k, t.sent, t.to_send, t.ss.as_ref().map(|s| s.capacity()).unwrap_or(0))), CState::AwaitResp => problems.push(format!("client task {} STUCK awaiting response", k)), CState::Reading => problems.push(format!("client task {} STUCK reading got {}", k, t.got)) } }
    for (k, t) in stasks.iter().enumerate() { match &t.st { SState::Done => {}, SState::Failed(e) => { if !CHAOS { problems.push(format!("server task {} failed: {}", k, e)) } }, SState::ReadingReq => problems.push(format!("server task {} STUCK reading request got {}", k, t.got)), SState::Sending => problems.push(format!("server task {} STUCK sending {}/{}", k, t.sent, t.to_send)) } }
    let refused = ctasks.iter().any(|t| t.to_send == usize::MAX); let sent_c: usize = ctasks.iter().filter(|t| t.to_send != usize::MAX).map(|t| t.to_send).sum(); let got_s: usize = stasks.iter().map(|t| t.got).sum();
    if !CHAOS && problems.is_empty() && !refused && sent_c != got_s { problems.push(format!("byte count mismatch c->s {} vs {}", sent_c, got_s)); }
    let sent_s: usize = stasks.iter().map(|t| t.to_send).sum(); let got_c: usize = ctasks.iter().map(|t| t.got).sum();
    if !CHAOS && problems.is_empty() && !refused && sent_s != got_c { problems.push(format!("byte count mismatch s->c {} vs {}", sent_s, got_c)); }
    let _ = chaos_any; if let Some(t) = ctasks.iter().find(|t| t.is_final) { if matches!(t.st, CState::Done) && t.to_send != usize::MAX && t.got == 0 && false { problems.push("final got nothing".into()); } }
    if ended && !conn_done.1 && end_kind != 5 { problems.push(format!("server connection did not complete after ending kind {}", end_kind)); }
    if ended && !conn_done.0 { problems.push(format!("client connection did not complete after ending kind {}", end_kind)); }
    if problems.is_empty() && !conn_done.0 { problems.push("client connection did not complete after all handles were dropped".into()); }
    if problems.is_empty() { println!("OK {} steps={} end={}@{} ended={}", cfg, steps, end_kind, end_at, ended); } else { println!("STALL {} steps={} end={}@{} ended={}", cfg, steps, end_kind, end_at, ended); for p in problems { println!("   {}", p); } }
}
