use std::pin::Pin;
use std::task::{Context, Poll, Wake, Waker};
use std::sync::{Arc, Mutex};
use std::future::Future;
use tokio::io::{AsyncRead, AsyncWrite, ReadBuf};
use bytes::Bytes;

#[derive(Default)]
struct Inner { wr: Vec<u8>, rd: Vec<u8>, budget: usize }
#[derive(Default, Clone)]
struct Io(Arc<Mutex<Inner>>);
impl std::fmt::Debug for Io { fn fmt(&self, f: &mut std::fmt::Formatter<'_>) -> std::fmt::Result { write!(f, "Io") } }
impl AsyncRead for Io {
    fn poll_read(self: Pin<&mut Self>, _cx: &mut Context<'_>, buf: &mut ReadBuf<'_>) -> Poll<std::io::Result<()>> {
        let mut i = self.0.lock().unwrap();
        if i.rd.is_empty() { return Poll::Pending; }
        let n = buf.remaining().min(i.rd.len());
        let d: Vec<u8> = i.rd.drain(..n).collect();
        buf.put_slice(&d);
        Poll::Ready(Ok(()))
    }
}
impl AsyncWrite for Io {
    fn poll_write(self: Pin<&mut Self>, _cx: &mut Context<'_>, b: &[u8]) -> Poll<std::io::Result<usize>> {
        let mut i = self.0.lock().unwrap();
        if i.budget == 0 { return Poll::Pending; }
        let n = b.len().min(i.budget); i.budget -= n;
        i.wr.extend_from_slice(&b[..n]); Poll::Ready(Ok(n)) }
    fn poll_flush(self: Pin<&mut Self>, _cx: &mut Context<'_>) -> Poll<std::io::Result<()>> { Poll::Ready(Ok(())) }
    fn poll_shutdown(self: Pin<&mut Self>, _cx: &mut Context<'_>) -> Poll<std::io::Result<()>> { Poll::Ready(Ok(())) }
}
struct W; impl Wake for W { fn wake(self: Arc<Self>) {} }
fn frame(ty: u8, flags: u8, sid: u32, payload: &[u8]) -> Vec<u8> {
    let mut v = vec![(payload.len()>>16) as u8, (payload.len()>>8) as u8, payload.len() as u8, ty, flags];
    v.extend_from_slice(&sid.to_be_bytes()); v.extend_from_slice(payload); v
}
struct Rng(u64);
impl Rng { fn next(&mut self) -> u64 { self.0 ^= self.0 << 13; self.0 ^= self.0 >> 7; self.0 ^= self.0 << 17; self.0 }
  fn below(&mut self, n: u64) -> u64 { (self.next() >> 11) % n } }

struct St { body: Option<h2::RecvStream>, fc: Option<h2::FlowControl>, resp: Option<h2::server::SendResponse<Bytes>>, ss: Option<h2::SendStream<Bytes>>, id: u32, held: usize }

// Parses written frames, tracking WINDOW_UPDATE increments per stream
fn scan(wr: &mut Vec<u8>, wu: &mut std::collections::BTreeMap<u32, u64>, log: &mut Vec<String>) {
    let mut i = 0;
    while i + 9 <= wr.len() {
        let len = ((wr[i] as usize)<<16)|((wr[i+1] as usize)<<8)|wr[i+2] as usize;
        if i + 9 + len > wr.len() { break; }
        let ty = wr[i+3]; let sid = u32::from_be_bytes([wr[i+5],wr[i+6],wr[i+7],wr[i+8]]) & 0x7fffffff;
        if ty == 8 { let inc = u32::from_be_bytes([wr[i+9],wr[i+10],wr[i+11],wr[i+12]]) as u64; *wu.entry(sid).or_insert(0) += inc; log.push(format!("WU sid={} inc={}", sid, inc)); }
        else if ty == 3 { log.push(format!("RST sid={} code={}", sid, u32::from_be_bytes([wr[i+9],wr[i+10],wr[i+11],wr[i+12]]))); }
        else if ty == 7 { log.push(format!("GOAWAY code={}", u32::from_be_bytes([wr[i+13],wr[i+14],wr[i+15],wr[i+16]]))); }
        i += 9 + len;
    }
    wr.drain(..i);
}

fn main() {
    let seed: u64 = std::env::args().nth(1).map(|s| s.parse().unwrap()).unwrap_or(1);
    let nops: usize = std::env::args().nth(2).map(|s| s.parse().unwrap()).unwrap_or(200);
    let mut rng = Rng(seed.wrapping_mul(0x9E3779B97F4A7C15) | 1);
    let waker = Waker::from(Arc::new(W));
    let mut cx = Context::from_waker(&waker);
    let io = Io::default(); io.0.lock().unwrap().budget = usize::MAX;
    io.0.lock().unwrap().rd.extend_from_slice(b"PRI * HTTP/2.0\r\n\r\nSM\r\n\r\n");
    io.0.lock().unwrap().rd.extend(frame(4, 0, 0, &[]));
    let mut b = h2::server::Builder::new();
    b.reset_stream_duration(std::time::Duration::from_secs(3600));
    let iws = [65535u32, 1000, 100, 200000][rng.below(4) as usize];
    b.initial_window_size(iws);
    if rng.below(2) == 0 { b.max_concurrent_streams([1u32, 2, 5][rng.below(3) as usize]); }
    let mut hs = Box::pin(b.handshake::<_, Bytes>(io.clone()));
    let mut conn = match hs.as_mut().poll(&mut cx) { Poll::Ready(Ok(x)) => x, _ => panic!() };
    // peer acks our settings
    io.0.lock().unwrap().rd.extend(frame(4, 1, 0, &[]));
    let mut streams: Vec<St> = vec![];
    let mut next_id = 1u32;
    let mut open_ids: Vec<u32> = vec![];
    let sizes = [0usize, 1, 5, 100, 999, 1000, 5000, 16384];
    println!("#CFG iws={}", iws);
    let mut wu = std::collections::BTreeMap::new();
    let mut log = vec![];
    for step in 0..nops {
        let op = rng.below(20);
        let desc: String;
        match op {
            0 | 1 => { // peer opens stream
                let eos = rng.below(5) == 0;
                io.0.lock().unwrap().rd.extend(frame(1, 0x4 | if eos {1} else {0}, next_id, &[0x83, 0x86, 0x84, 0x41, 0x01, b'a']));
                desc = format!("peer HEADERS sid={} eos={}", next_id, eos); if !eos { open_ids.push(next_id); } next_id += 2;
            }
            2 | 3 | 4 | 5 => { // peer DATA
                if open_ids.is_empty() { continue; }
                let k = rng.below(open_ids.len() as u64) as usize; let sid = open_ids[k];
                let len = sizes[rng.below(sizes.len() as u64) as usize];
                let eos = rng.below(8) == 0;
                let padded = rng.below(4) == 0;
                let mut p = vec![];
                let mut flags = if eos {1} else {0};
                if padded { let pad = rng.below(20) as u8; flags |= 8; p.push(pad); p.extend(vec![1u8; len]); p.extend(vec![0u8; pad as usize]); } else { p.extend(vec![1u8; len]); }
                io.0.lock().unwrap().rd.extend(frame(0, flags, sid, &p));
                if eos { open_ids.remove(k); }
                desc = format!("peer DATA sid={} len={} fc={} eos={}", sid, len, p.len(), eos);
            }
            6 => { if open_ids.is_empty() { continue; } let k = rng.below(open_ids.len() as u64) as usize; let sid = open_ids.remove(k);
                io.0.lock().unwrap().rd.extend(frame(3, 0, sid, &[0,0,0,8])); desc = format!("peer RST sid={}", sid); }
            7 | 8 => { // accept
                match conn.poll_accept(&mut cx) {
                    Poll::Ready(Some(Ok((req, resp)))) => { let body = req.into_body(); let id = body.stream_id().as_u32(); streams.push(St{body: Some(body), fc: None, resp: Some(resp), ss: None, id, held: 0}); desc = format!("accept -> {}", id); }
                    Poll::Ready(Some(Err(e))) => { desc = format!("accept err {:?}", e); println!("#STEP {} {}", step, desc); break; }
                    Poll::Ready(None) => { desc = "accept none".into(); println!("#STEP {} {}", step, desc); break; }
                    Poll::Pending => { desc = "accept pending".into(); }
                }
            }
            9 | 10 | 11 => { // read data
                if streams.is_empty() { continue; }
                let k = rng.below(streams.len() as u64) as usize;
                let id = streams[k].id;
                if let Some(b) = streams[k].body.as_mut() {
                    match b.poll_data(&mut cx) { Poll::Ready(Some(Ok(d))) => { streams[k].held += d.len(); desc = format!("read id={} -> {}", id, d.len()); }
                        Poll::Ready(Some(Err(e))) => { desc = format!("read id={} err {:?}", id, e.reason()); }
                        Poll::Ready(None) => { desc = format!("read id={} none", id); }
                        Poll::Pending => { desc = format!("read id={} pending", id); } }
                } else { continue; }
            }
            12 | 13 => { // release
                if streams.is_empty() { continue; }
                let k = rng.below(streams.len() as u64) as usize;
                let id = streams[k].id; let held = streams[k].held;
                if held == 0 { continue; }
                let n = if rng.below(2) == 0 { held } else { 1 + rng.below(held as u64) as usize };
                let r = if let Some(b) = streams[k].body.as_mut() { b.flow_control().release_capacity(n) } else if let Some(fc) = streams[k].fc.as_mut() { fc.release_capacity(n) } else { continue };
                if r.is_ok() { streams[k].held -= n; }
                desc = format!("release id={} n={} -> {:?}", id, n, r.is_ok());
            }
            14 => { // drop body (maybe keep a FlowControl clone)
                if streams.is_empty() { continue; }
                let k = rng.below(streams.len() as u64) as usize;
                if streams[k].body.is_none() { continue; }
                let keepfc = rng.below(2) == 0;
                let mut b = streams[k].body.take().unwrap();
                if keepfc { streams[k].fc = Some(b.flow_control().clone()); }
                drop(b); desc = format!("drop body id={} keepfc={}", streams[k].id, keepfc);
            }
            15 => { // respond / reset / drop resp
                if streams.is_empty() { continue; }
                let k = rng.below(streams.len() as u64) as usize;
                let id = streams[k].id;
                match rng.below(4) {
                    0 => { if let Some(r) = streams[k].resp.as_mut() { let eos = rng.below(2)==0; match r.send_response(http::Response::new(()), eos) { Ok(ss) => { streams[k].ss = Some(ss); desc = format!("respond id={} eos={}", id, eos); } Err(e) => { desc = format!("respond id={} err {:?}", id, e); } } } else { continue; } }
                    1 => { if let Some(r) = streams[k].resp.as_mut() { r.send_reset(h2::Reason::CANCEL); desc = format!("reset id={}", id); } else { continue; } }
                    2 => { streams[k].resp = None; streams[k].ss = None; desc = format!("drop resp+ss id={}", id); }
                    _ => { streams[k].fc = None; desc = format!("drop fc id={}", id); }
                }
            }
            16 => { let t = [0u32, 1000, 65535, 100000, 1<<20][rng.below(5) as usize]; conn.set_target_window_size(t); desc = format!("set_target {}", t); }
            17 => { let w = [0u32, 10, 1000, 65535, 100000][rng.below(5) as usize]; let r = conn.set_initial_window_size(w); desc = format!("set_initial_window {} -> {:?}", w, r.is_ok());
                    if r.is_ok() { let _ = conn.poll_closed(&mut cx); io.0.lock().unwrap().rd.extend(frame(4, 1, 0, &[])); } }
            18 => { let bud = [0usize, 1, 9, 100, 20000, usize::MAX][rng.below(6) as usize]; io.0.lock().unwrap().budget = bud; desc = format!("budget {}", bud); }
            _ => { let r = conn.poll_closed(&mut cx); desc = format!("poll conn -> {:?}", r.is_ready()); if r.is_ready() { println!("#STEP {} {}", step, desc); break; } }
        }
        log.clear();
        scan(&mut io.0.lock().unwrap().wr, &mut wu, &mut log);
        println!("#STEP {} {} | {}", step, desc, log.join("; "));
        println!("{:#?}", conn);
    }
}
