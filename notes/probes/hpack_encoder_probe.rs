use std::pin::Pin;
use std::task::{Context, Poll, Wake, Waker};
use std::sync::{Arc, Mutex};
use tokio::io::{AsyncRead, AsyncWrite, ReadBuf};
use bytes::Bytes;
use http::{HeaderMap, header::{HeaderName, HeaderValue}};

#[derive(Default)]
struct Inner { wr: Vec<u8> }
#[derive(Default, Clone)]
struct Io(Arc<Mutex<Inner>>);
impl AsyncRead for Io { fn poll_read(self: Pin<&mut Self>, _cx: &mut Context<'_>, _buf: &mut ReadBuf<'_>) -> Poll<std::io::Result<()>> { Poll::Pending } }
impl AsyncWrite for Io {
    fn poll_write(self: Pin<&mut Self>, _cx: &mut Context<'_>, b: &[u8]) -> Poll<std::io::Result<usize>> { self.0.lock().unwrap().wr.extend_from_slice(b); Poll::Ready(Ok(b.len())) }
    fn poll_flush(self: Pin<&mut Self>, _cx: &mut Context<'_>) -> Poll<std::io::Result<()>> { Poll::Ready(Ok(())) }
    fn poll_shutdown(self: Pin<&mut Self>, _cx: &mut Context<'_>) -> Poll<std::io::Result<()>> { Poll::Ready(Ok(())) }
}
struct W; impl Wake for W { fn wake(self: Arc<Self>) {} }
struct Rng(u64);
impl Rng { fn next(&mut self) -> u64 { self.0 ^= self.0 << 13; self.0 ^= self.0 >> 7; self.0 ^= self.0 << 17; self.0 }
  fn below(&mut self, n: u64) -> u64 { (self.next() >> 11) % n } }
fn hex(b: &[u8]) -> String { b.iter().map(|x| format!("{:02x}", x)).collect() }

fn main() {
    let seed: u64 = std::env::args().nth(1).map(|s| s.parse().unwrap()).unwrap_or(1);
    let nblocks: usize = std::env::args().nth(2).map(|s| s.parse().unwrap()).unwrap_or(50);
    let mut rng = Rng(seed.wrapping_mul(0x9E3779B97F4A7C15) | 1);
    let waker = Waker::from(Arc::new(W));
    let mut cx = Context::from_waker(&waker);
    let io = Io::default();
    let mut codec: h2::Codec<Io, Bytes> = h2::Codec::new(io.clone());
    let names_static = ["accept", "cookie", "content-length", "age", "etag", "location", "set-cookie", "user-agent", "accept-encoding", "authorization", "content-type", "via"];
    let mut names: Vec<String> = names_static.iter().map(|s| s.to_string()).collect();
    let ncustom = 3 + rng.below(40);
    for i in 0..ncustom { names.push(format!("x-{}{}", ["a","bb","ccc","hdr-name-long-ish"][rng.below(4) as usize], i)); }
    let sizes = [0usize, 33, 60, 100, 150, 200, 500, 4096, 10000];
    let small = rng.below(2) == 0;
    for blk in 0..nblocks {
        if rng.below(4) == 0 {
            let sz = if small { sizes[rng.below(6) as usize] } else { sizes[rng.below(sizes.len() as u64) as usize] };
            codec.set_send_header_table_size(sz);
            println!("resize {}", sz);
            if rng.below(3) == 0 { let sz2 = sizes[rng.below(sizes.len() as u64) as usize]; codec.set_send_header_table_size(sz2); println!("resize {}", sz2); }
        }
        let mut map = HeaderMap::new();
        let nf = rng.below(12);
        for _ in 0..nf {
            let name = &names[rng.below(names.len() as u64) as usize];
            let vlen = [0u64, 1, 3, 8, 20, 60, 130, 300][rng.below(8) as usize];
            let v: String = if rng.below(3) == 0 { ["", "gzip, deflate", "v", "value", "0", "abc"][rng.below(6) as usize].to_string() } else { (0..vlen).map(|_| (b'a' + rng.below(26) as u8) as char).collect() };
            let mut hv = HeaderValue::from_str(&v).unwrap();
            if rng.below(8) == 0 { hv.set_sensitive(true); }
            map.append(HeaderName::from_bytes(name.as_bytes()).unwrap(), hv);
        }
        let pseudo = if rng.below(2) == 0 {
            let m = ["GET", "POST", "PATCH", "DELETE"][rng.below(4) as usize];
            let uri = ["http://a/", "https://example.com/index.html", "http://b.example/x/y?z=1", "https://example.com/"][rng.below(4) as usize];
            h2::frame::Pseudo::request(http::Method::from_bytes(m.as_bytes()).unwrap(), uri.parse().unwrap(), None)
        } else {
            let st = [200u16, 204, 206, 304, 400, 404, 500, 201, 302, 100][rng.below(10) as usize];
            h2::frame::Pseudo::response(http::StatusCode::from_u16(st).unwrap())
        };
        // expected list
        let mut exp: Vec<(Vec<u8>, Vec<u8>)> = vec![];
        if let Some(m) = &pseudo.method { exp.push((b":method".to_vec(), m.as_str().as_bytes().to_vec())); }
        if let Some(v) = &pseudo.scheme { exp.push((b":scheme".to_vec(), v.as_bytes().to_vec())); }
        if let Some(v) = &pseudo.authority { exp.push((b":authority".to_vec(), v.as_bytes().to_vec())); }
        if let Some(v) = &pseudo.path { exp.push((b":path".to_vec(), v.as_bytes().to_vec())); }
        if let Some(v) = &pseudo.status { exp.push((b":status".to_vec(), v.as_str().as_bytes().to_vec())); }
        for (n, v) in map.iter() { exp.push((n.as_str().as_bytes().to_vec(), v.as_bytes().to_vec())); }
        let frame = h2::frame::Headers::new((2 * blk as u32 + 1).into(), pseudo, map);
        // make sure codec is ready
        match codec.poll_ready(&mut cx) { Poll::Ready(Ok(())) => {}, x => panic!("not ready {:?}", x) }
        codec.buffer(frame.into()).unwrap();
        match codec.flush(&mut cx) { Poll::Ready(Ok(())) => {}, x => panic!("flush {:?}", x) }
        // parse frames
        let wr: Vec<u8> = std::mem::take(&mut io.0.lock().unwrap().wr);
        let mut i = 0; let mut block = vec![]; let mut nfr = 0;
        while i + 9 <= wr.len() {
            let len = ((wr[i] as usize)<<16)|((wr[i+1] as usize)<<8)|wr[i+2] as usize;
            assert!(wr[i+3] == 1 || wr[i+3] == 9);
            assert!(len <= 16384);
            block.extend_from_slice(&wr[i+9..i+9+len]); i += 9 + len; nfr += 1;
        }
        assert_eq!(i, wr.len());
        println!("block {} frames={} exp={}", hex(&block), nfr, exp.iter().map(|(n,v)| format!("{}:{}", hex(n), hex(v))).collect::<Vec<_>>().join(","));
    }
}
