import sys, subprocess
sys.path.insert(0,'/mnt/sandboxing/model_tools_env/v1/python/install/lib/python3.11/site-packages')
import hpack
def run(seed, n):
    out=subprocess.run(['/tmp/probe/h4/target/release/hprobe4',str(seed),str(n)],capture_output=True,text=True)
    if out.returncode!=0:
        print('seed',seed,'CRASH',out.stderr[-400:]); return True
    d=hpack.Decoder(max_header_list_size=1<<30)
    maxsz=4096
    for ln,line in enumerate(out.stdout.splitlines()):
        if line.startswith('resize'):
            v=min(int(line.split()[1]), 1<<30)
            d.max_allowed_table_size=v   # what our SETTINGS would allow
            continue
        _,blk,fr,exp=line.split(' ',3)
        exp=exp[4:]
        expl=[tuple(bytes.fromhex(x) for x in e.split(':')) for e in exp.split(',')] if exp else []
        try:
            got=d.decode(bytes.fromhex(blk), raw=True)
        except Exception as e:
            print('seed',seed,'line',ln,'DECODE ERROR',repr(e), 'max_allowed', d.max_allowed_table_size, 'blk', blk[:60]); return True
        got=[(bytes(a),bytes(b)) for a,b in got]
        if got!=expl:
            print('seed',seed,'line',ln,'MISMATCH'); 
            for i,(g,e) in enumerate(zip(got,expl)):
                if g!=e: print('   first diff at',i,g,e); break
            print('   lens',len(got),len(expl)); return True
        if d.header_table_size > min(4096, d.max_allowed_table_size) and False:
            print('table too big')
    return False
bad=0
for s in range(int(sys.argv[1]),int(sys.argv[2])):
    if run(s,int(sys.argv[3])): bad+=1
print('bad',bad)
