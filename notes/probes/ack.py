import sys, subprocess, re, concurrent.futures as cf
def run(seed,n=600):
    out=subprocess.run(['/tmp/probe/h8/target/release/hprobe8',str(seed),str(n)],capture_output=True,text=True)
    if out.returncode!=0: return (seed,'CRASH '+out.stderr[-300:])
    pings=[]; pongs=[]; settings=0; acks=0; dead=False
    for line in out.stdout.splitlines():
        if not line.startswith('#STEP'): continue
        head,_,tx=line.partition(' | ')
        m=re.search(r'peer PING (\w+)',head)
        if m: pings.append(m.group(1))
        if 'peer SETTINGS' in head: settings+=1
        if 'poll conn -> true' in head: dead=True
        for fr in [x for x in tx.split('; ') if x.strip()]:
            d=dict(kv.split('=') for kv in fr.split())
            if d['t']=='6' and d.get('ack')=='1': pongs.append(d['p'])
            if d['t']=='4' and d['f']=='1': acks+=1
            if d['t']=='7': dead=True
    settings+=1 # initial settings injected by the probe
    if pongs!=pings[:len(pongs)]: return (seed,f'PONG order/payload mismatch {pongs[:3]} vs {pings[:3]}')
    if acks>settings: return (seed,f'more ACKs {acks} than SETTINGS {settings}')
    if not dead and (len(pongs)!=len(pings) or acks!=settings): return (seed,f'after drain: pongs {len(pongs)}/{len(pings)} acks {acks}/{settings}')
    return None
with cf.ThreadPoolExecutor(16) as ex:
    res=[r for r in ex.map(run, range(int(sys.argv[1]),int(sys.argv[2]))) if r]
print('bad',len(res))
for r in res[:10]: print(r)
