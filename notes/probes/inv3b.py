import sys, subprocess, re
sys.path.insert(0,'/tmp/probe/py')
from dbg import *
def run(seed, nops):
    out=subprocess.run(['/tmp/probe/h3/target/release/hprobe3',str(seed),str(nops)],capture_output=True,text=True)
    if out.returncode!=0:
        print('seed',seed,'CRASH',out.stderr[-800:]); return True
    chunks=out.stdout.split('#STEP ')
    hist=[]
    target=65535
    for ch in chunks[1:]:
        head,_,body=ch.partition('\n')
        hist.append(head)
        m=re.search(r'set_target (\d+)',head)
        if m: target=int(m.group(1))
        if not body.strip(): continue
        d=parse(body)
        inner=d['connection']['inner']['streams']['inner']['data']
        rv=inner['actions']['recv']
        cw=win(rv['flow']['window_size']); ca=win(rv['flow']['available']); infl=int(rv['in_flight_data'])
        init=int(rv['init_window_sz'])
        probs=[]
        if ca+infl!=target: probs.append(f'conn: avail {ca} + in_flight {infl} != target {target}')
        if cw>target and False: probs.append(f'conn window {cw} > target {target}')
        slab=inner['store']['slab']
        suminfl=0; ncounted=0
        for k,s in slab.items():
            if k=='_': continue
            rf=s['recv_flow']; w=win(rf['window_size']); a=win(rf['available']); fl=int(s['in_flight_recv_data'])
            suminfl+=fl
            sid=tup(s['id'])
            st=s['state']
            if w>a: probs.append(f'stream {sid}: window {w} > available {a}')
            closed = isinstance(st,dict) and st.get('_')=='Closed'
            ps_empty = 'pending_send' not in s
            refc=int(s['ref_count']); buf=int(s['buffered_send_data'])
            queued=any(k2 in s for k2 in ('is_pending_send','is_pending_send_capacity','is_pending_accept','is_pending_window_update','is_pending_open','reset_at'))
            if closed and ps_empty and buf==0 and refc==0 and not queued: probs.append(f'stream {sid} is_released but in slab')
            if s['is_counted']=='true': ncounted=ncounted+1
            if refc==0 and not closed and 'is_pending_accept' not in s and not (isinstance(st,dict) and st.get('_')=='Closed'): probs.append(f'stream {sid} ref 0, not closed, not pending accept: state {st}')
        if int(inner['counts']['num_recv_streams'])!=ncounted: probs.append(f"num_recv_streams {inner['counts']['num_recv_streams']} != counted {ncounted}")
        if suminfl>infl: probs.append(f'sum stream in_flight {suminfl} > conn in_flight {infl}')
        if probs:
            print('seed',seed,'step',head)
            for p in probs: print('   ',p)
            print('   history tail:', hist[-10:])
            return True
    return False
bad=0
for seed in range(int(sys.argv[1]),int(sys.argv[2])):
    if run(seed,int(sys.argv[3])): bad+=1
print('bad',bad)
