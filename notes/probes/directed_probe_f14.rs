use std::pin::Pin;
use std::task::{Context, Poll, Wake, Waker};
use std::sync::{Arc, Mutex};
use std::future::Future;
use tokio::io::{AsyncRead, AsyncWrite, ReadBuf};
use bytes::Bytes;
#[derive(Default)]
struct Inner { wr: Vec<u8>, rd: Vec<u8> }
#[derive(Default, Clone)]
struct Io(Arc<Mutex<Inner>>);
impl std::fmt::Debug for Io { fn fmt(&self, f: &mut std::fmt::Formatter<'_>) -> std::fmt::Result { write!(f, "Io") } }
impl AsyncRead for Io {
    fn poll_read(self: Pin<&mut Self>, _cx: &mut Context<'_>, buf: &mut ReadBuf<'_>) -> Poll<std::io::Result<()>> {
        let mut i = self.0.lock().unwrap();
        if i.rd.is_empty() { return Poll::Pending; }
        let n = buf.remaining().min(i.rd.len());
        let d: Vec<u8> = i.rd.drain(..n).collect();
        buf.put_slice(&d);
        Poll::Ready(Ok(()))
    }
}
impl AsyncWrite for Io {
    fn poll_write(self: Pin<&mut Self>, _cx: &mut Context<'_>, b: &[u8]) -> Poll<std::io::Result<usize>> { self.0.lock().unwrap().wr.extend_from_slice(b); Poll::Ready(Ok(b.len())) }
    fn poll_flush(self: Pin<&mut Self>, _cx: &mut Context<'_>) -> Poll<std::io::Result<()>> { Poll::Ready(Ok(())) }
    fn poll_shutdown(self: Pin<&mut Self>, _cx: &mut Context<'_>) -> Poll<std::io::Result<()>> { Poll::Ready(Ok(())) }
}
struct W; impl Wake for W { fn wake(self: Arc<Self>) {} }
fn frame(ty: u8, flags: u8, sid: u32, payload: &[u8]) -> Vec<u8> {
    let mut v = vec![(payload.len()>>16) as u8, (payload.len()>>8) as u8, payload.len() as u8, ty, flags];
    v.extend_from_slice(&sid.to_be_bytes()); v.extend_from_slice(payload); v
}
fn dump(wr: &mut Vec<u8>) {
    let mut i = 0;
    if wr.starts_with(b"PRI") { i = 24; }
    while i + 9 <= wr.len() {
        let len = ((wr[i] as usize)<<16)|((wr[i+1] as usize)<<8)|wr[i+2] as usize;
        println!("    tx type={} flags={:#x} sid={} len={}", wr[i+3], wr[i+4], u32::from_be_bytes([wr[i+5],wr[i+6],wr[i+7],wr[i+8]]), len);
        i += 9 + len;
    }
    wr.clear();
}
fn flows(conn: &impl std::fmt::Debug) {
    let s = format!("{:?}", conn);
    let i = s.find("prioritize: Prioritize").unwrap();
    let j = s[i..].find("flow: FlowControl").unwrap();
    println!("    conn send flow: {}", &s[i+j..i+j+80]);
}
fn dumpw(io: &Io) {
    let mut w = io.0.lock().unwrap(); let wr = &mut w.wr; let mut i = 0; if wr.starts_with(b"PRI") { i = 24; }
    while i + 9 <= wr.len() { let len = ((wr[i] as usize)<<16)|((wr[i+1] as usize)<<8)|wr[i+2] as usize; println!("    tx type={} flags={:#x} sid={} len={}", wr[i+3], wr[i+4], wr[i+8], len); i += 9 + len; }
    wr.clear();
}
fn main() {
    let waker = Waker::from(Arc::new(W));
    let mut cx = Context::from_waker(&waker);
    let io = Io::default();
    let mut hs = Box::pin(h2::client::Builder::new().handshake::<_, Bytes>(io.clone()));
    let (mut sr, mut conn) = match hs.as_mut().poll(&mut cx) { Poll::Ready(Ok(x)) => x, _ => panic!() };
    io.0.lock().unwrap().rd.extend(frame(4, 0, 0, &[]));
    let req = |p: &str| http::Request::builder().uri(format!("http://a/{}", p)).body(()).unwrap();
    let (r1, mut s1) = sr.send_request(req("one"), false).unwrap();
    let (mut r2, _s2) = sr.send_request(req("two"), true).unwrap();
    let _ = Pin::new(&mut conn).poll(&mut cx);
    s1.send_reset(h2::Reason::CANCEL);            // the client resets stream 1 ...
    let _ = Pin::new(&mut conn).poll(&mut cx);
    dumpw(&io);
    // ... while the server (not having seen the RST yet) promised a push on it and starts answering the pushed stream
    let mut pp = 2u32.to_be_bytes().to_vec(); pp.extend_from_slice(&[0x82, 0x86, 0x84, 0x41, 0x01, b'a']);
    io.0.lock().unwrap().rd.extend(frame(5, 0x4, 1, &pp));
    let r = Pin::new(&mut conn).poll(&mut cx);
    println!("  after PUSH_PROMISE(1 -> 2) on the stream we reset: conn poll = {:?}", r); dumpw(&io);
    io.0.lock().unwrap().rd.extend(frame(1, 0x5, 2, &[0x88]));   // pushed response HEADERS on promised stream 2
    let r = Pin::new(&mut conn).poll(&mut cx);
    println!("  after HEADERS on promised stream 2: conn poll = {:?}", r); dumpw(&io);
    io.0.lock().unwrap().rd.extend(frame(1, 0x5, 3, &[0x88]));   // response for the innocent stream 3
    let _ = Pin::new(&mut conn).poll(&mut cx);
    println!("  innocent stream 3: {:?}", Pin::new(&mut r2).poll(&mut cx).map(|r| r.map(|x| x.status())));
    drop(r1);
}
