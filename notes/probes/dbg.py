import re, sys
TOK = re.compile(r'\s*(b?"(?:[^"\\]|\\.)*"|[{}()\[\]:,]|[^\s{}()\[\]:,]+)')
def tokenize(s):
    pos=0; out=[]
    while True:
        m=TOK.match(s,pos)
        if not m: break
        out.append(m.group(1)); pos=m.end()
    return out
class P:
    def __init__(s,toks): s.t=toks; s.i=0
    def peek(s): return s.t[s.i] if s.i<len(s.t) else None
    def next(s): x=s.t[s.i]; s.i+=1; return x
    def value(s):
        t=s.peek()
        if t=='{': return s.braces(None)
        if t=='[': return s.list(']')
        if t=='(': return s.paren(None)
        name=s.next()
        # atoms made of several tokens (e.g. "1s", "0x..") are single tokens already
        n=s.peek()
        if n=='{': return s.braces(name)
        if n=='(': return s.paren(name)
        return name
    def braces(s,name):
        assert s.next()=='{'
        # struct fields "ident: value," or map "value: value,"
        items=[]
        while s.peek()!='}':
            if s.peek()=='..':
                s.next(); continue
            k=s.value()
            if s.peek()==':':
                s.next(); v=s.value(); items.append((k,v))
            else:
                items.append((None,k))
            if s.peek()==',': s.next()
        s.next()
        d={'_':name}
        if all(isinstance(k,str) for k,_ in items):
            for k,v in items: d[k]=v
        else:
            d['_items']=items
        return d
    def paren(s,name):
        assert s.next()=='('
        # flags: (0x5: A | B)
        if s.peek() and s.peek().startswith('0x') and name is None:
            toks=[]
            while s.peek()!=')': toks.append(s.next())
            s.next(); return {'_':'flags','v':' '.join(toks)}
        vals=[]
        while s.peek()!=')':
            vals.append(s.value())
            if s.peek()==',': s.next()
        s.next()
        return {'_':name,'_t':vals}
    def list(s,close):
        s.next(); vals=[]
        while s.peek()!=close:
            vals.append(s.value())
            if s.peek()==',': s.next()
        s.next(); return vals
def parse(text): return P(tokenize(text)).value()
def tup(v): return v['_t'][0]
def win(v): return int(tup(v))
