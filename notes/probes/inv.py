import sys, subprocess
sys.path.insert(0,'/tmp/probe/py')
from dbg import *
def run(seed, nops):
    out=subprocess.run(['/tmp/probe/h2/target/release/hprobe2',str(seed),str(nops)],capture_output=True,text=True)
    if out.returncode!=0:
        print('seed',seed,'CRASH',out.stderr[-500:]); return
    chunks=out.stdout.split('#STEP ')
    hist=[]
    for ch in chunks[1:]:
        head,_,body=ch.partition('\n')
        hist.append(head)
        if not body.strip(): continue
        d=parse(body)
        inner=d['inner']['streams']['inner']['data']
        pr=inner['actions']['send']['prioritize']
        cw=win(pr['flow']['window_size']); ca=win(pr['flow']['available'])
        counts=inner['counts']
        slab=inner['store']['slab']
        items=[(k,v) for k,v in slab.items() if k!='_'] if isinstance(slab,dict) else []
        tot=0; ncounted=0; probs=[]
        for k,s in items:
            sf=s['send_flow']; w=win(sf['window_size']); a=win(sf['available'])
            req=int(s['requested_send_capacity']); buf=int(s['buffered_send_data'])
            tot+=a
            if s['is_counted']=='true': ncounted+=1
            st=s['state']
            closed = isinstance(st,dict) and st.get('_')=='Closed'
            ps_empty = 'pending_send' not in s
            sid=tup(s['id'])
            if a<0: probs.append(f'stream {sid} avail<0 {a}')
            if a>max(0,w): probs.append(f'stream {sid} avail {a} > max(0,window {w})')
            if a>req: probs.append(f'stream {sid} avail {a} > requested {req}')
            if closed and ps_empty and buf==0 and a!=0: probs.append(f'stream {sid} closed+flushed but avail {a}')
            refc=int(s['ref_count'])
            queued=any(k2 in s for k2 in ('is_pending_send','is_pending_send_capacity','is_pending_accept','is_pending_window_update','is_pending_open','reset_at'))
            if closed and ps_empty and buf==0 and refc==0 and not queued: probs.append(f'stream {sid} is_released but in slab')
        if ca<0: probs.append(f'conn avail<0 {ca}')
        if ca+tot!=cw: probs.append(f'conservation: conn.avail {ca} + sum {tot} != conn.window {cw}')
        if int(counts['num_send_streams'])!=ncounted: probs.append(f"num_send_streams {counts['num_send_streams']} != counted {ncounted}")
        if probs:
            print('seed',seed,'step',head); 
            for p in probs: print('   ',p)
            print('   history tail:', hist[-8:])
            return True
    return False
bad=0
for seed in range(int(sys.argv[1]),int(sys.argv[2])):
    if run(seed,int(sys.argv[3])): bad+=1
print('bad',bad)
