use std::pin::Pin;
use std::task::{Context, Poll, Wake, Waker};
use std::sync::{Arc, Mutex};
use std::future::Future;
use tokio::io::{AsyncRead, AsyncWrite, ReadBuf};
use bytes::Bytes;
#[derive(Default)]
struct Inner { wr: Vec<u8>, rd: Vec<u8> }
#[derive(Default, Clone)]
struct Io(Arc<Mutex<Inner>>);
impl std::fmt::Debug for Io { fn fmt(&self, f: &mut std::fmt::Formatter<'_>) -> std::fmt::Result { write!(f, "Io") } }
impl AsyncRead for Io {
    fn poll_read(self: Pin<&mut Self>, _cx: &mut Context<'_>, buf: &mut ReadBuf<'_>) -> Poll<std::io::Result<()>> {
        let mut i = self.0.lock().unwrap();
        if i.rd.is_empty() { return Poll::Pending; }
        let n = buf.remaining().min(i.rd.len());
        let d: Vec<u8> = i.rd.drain(..n).collect();
        buf.put_slice(&d);
        Poll::Ready(Ok(()))
    }
}
impl AsyncWrite for Io {
    fn poll_write(self: Pin<&mut Self>, _cx: &mut Context<'_>, b: &[u8]) -> Poll<std::io::Result<usize>> { self.0.lock().unwrap().wr.extend_from_slice(b); Poll::Ready(Ok(b.len())) }
    fn poll_flush(self: Pin<&mut Self>, _cx: &mut Context<'_>) -> Poll<std::io::Result<()>> { Poll::Ready(Ok(())) }
    fn poll_shutdown(self: Pin<&mut Self>, _cx: &mut Context<'_>) -> Poll<std::io::Result<()>> { Poll::Ready(Ok(())) }
}
struct W; impl Wake for W { fn wake(self: Arc<Self>) {} }
fn frame(ty: u8, flags: u8, sid: u32, payload: &[u8]) -> Vec<u8> {
    let mut v = vec![(payload.len()>>16) as u8, (payload.len()>>8) as u8, payload.len() as u8, ty, flags];
    v.extend_from_slice(&sid.to_be_bytes()); v.extend_from_slice(payload); v
}
fn dump(wr: &mut Vec<u8>) {
    let mut i = 0;
    if wr.starts_with(b"PRI") { i = 24; }
    while i + 9 <= wr.len() {
        let len = ((wr[i] as usize)<<16)|((wr[i+1] as usize)<<8)|wr[i+2] as usize;
        println!("    tx type={} flags={:#x} sid={} len={}", wr[i+3], wr[i+4], u32::from_be_bytes([wr[i+5],wr[i+6],wr[i+7],wr[i+8]]), len);
        i += 9 + len;
    }
    wr.clear();
}
fn flows(conn: &impl std::fmt::Debug) {
    let s = format!("{:?}", conn);
    let i = s.find("prioritize: Prioritize").unwrap();
    let j = s[i..].find("flow: FlowControl").unwrap();
    println!("    conn send flow: {}", &s[i+j..i+j+80]);
}
fn dumpw(io: &Io) {
    let mut w = io.0.lock().unwrap(); let wr = &mut w.wr; let mut i = 0; if wr.starts_with(b"PRI") { i = 24; }
    while i + 9 <= wr.len() { let len = ((wr[i] as usize)<<16)|((wr[i+1] as usize)<<8)|wr[i+2] as usize; println!("    tx type={} flags={:#x} sid={} len={}", wr[i+3], wr[i+4], wr[i+8], len); i += 9 + len; }
    wr.clear();
}
fn main() {
    let waker = Waker::from(Arc::new(W));
    let mut cx = Context::from_waker(&waker);
    let io = Io::default();
    let mut hs = Box::pin(h2::client::Builder::new().handshake::<_, Bytes>(io.clone()));
    let (mut sr, mut conn) = match hs.as_mut().poll(&mut cx) { Poll::Ready(Ok(x)) => x, _ => panic!() };
    // server SETTINGS: max_concurrent_streams = 1
    io.0.lock().unwrap().rd.extend(frame(4, 0, 0, &[0,3,0,0,0,1]));
    let _ = Pin::new(&mut conn).poll(&mut cx);
    let req = |p: &str| http::Request::builder().uri(format!("http://a/{}", p)).body(()).unwrap();
    let (mut r1, _s1) = sr.send_request(req("one"), true).unwrap();
    let _ = Pin::new(&mut conn).poll(&mut cx);
    let (mut r2, _s2) = sr.send_request(req("two"), true).unwrap();   // parked in pending_open
    let _ = Pin::new(&mut conn).poll(&mut cx);
    println!("  after two requests with limit 1:"); dumpw(&io);
    // graceful shutdown notice: GOAWAY(last_stream_id = 2^31-1, NO_ERROR)
    io.0.lock().unwrap().rd.extend(frame(7, 0, 0, &[0x7f,0xff,0xff,0xff, 0,0,0,0]));
    let _ = Pin::new(&mut conn).poll(&mut cx);
    println!("  after GOAWAY(MAX): send_request now -> {:?}", sr.send_request(req("three"), true).map(|_| ()).map_err(|e| e.to_string()));
    dumpw(&io);
    // stream 1 completes
    io.0.lock().unwrap().rd.extend(frame(1, 0x5, 1, &[0x88]));
    let _ = Pin::new(&mut conn).poll(&mut cx);
    println!("  after stream 1 completed (GOAWAY already received):"); dumpw(&io);
    println!("  r1: {:?}", Pin::new(&mut r1).poll(&mut cx).map(|r| r.map(|x| x.status())));
    println!("  r2: {:?}", Pin::new(&mut r2).poll(&mut cx).map(|r| r.map(|x| x.status())));
}
