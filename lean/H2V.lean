import H2V.Model.Basic
import H2V.Model.Huffman
import H2V.Model.HpackInt
import H2V.Model.HttpTypes
import H2V.Model.HpackDec
