import H2V.Model.Basic
/-
  Validators of the `http` crate (1.x) and of `std::str::from_utf8` that HPACK decoding goes through.
  These are *modelled, not verified* (trusted base): character classes copied from
  http-1.x `HEADER_CHARS_H2`, `METHOD_CHARS`, `HeaderValue::is_valid`, `StatusCode::from_bytes`;
  the correspondence check exercises them through the real decoder on every run.
-/
namespace H2V.Model.Http
open H2V

def isDigit (b : Nat) : Bool := 48 ≤ b && b ≤ 57
def isLower (b : Nat) : Bool := 97 ≤ b && b ≤ 122
def isUpper (b : Nat) : Bool := 65 ≤ b && b ≤ 90

/-- http `HEADER_CHARS_H2[b] != 0` -/
def nameCharH2 (b : Nat) : Bool :=
  (33 ≤ b && b ≤ 39) || b == 42 || b == 43 || b == 45 || b == 46 || isDigit b ||
  b == 94 || b == 95 || b == 96 || isLower b || b == 124 || b == 126

/-- http `METHOD_CHARS[b] != 0` -/
def methodChar (b : Nat) : Bool :=
  b == 33 || (35 ≤ b && b ≤ 39) || b == 42 || b == 43 || b == 45 || b == 46 || isDigit b ||
  isUpper b || b == 94 || b == 95 || b == 96 || isLower b || b == 124 || b == 126

/-- http `HeaderValue::is_valid` -/
def valueChar (b : Nat) : Bool := (b ≥ 32 && b != 127) || b == 9

def MAX_HEADER_NAME_LEN : Nat := 65535

/-- `HeaderName::from_lowercase(..).is_ok()` -/
def validName (n : Bytes) : Bool := !n.isEmpty && n.length ≤ MAX_HEADER_NAME_LEN && n.all nameCharH2

/-- `HeaderValue::from_bytes(..).is_ok()` -/
def validValue (v : Bytes) : Bool := v.all valueChar

/-- `Method::from_bytes(..).is_ok()` -/
def validMethod (v : Bytes) : Bool := !v.isEmpty && v.all methodChar

/-- `StatusCode::from_bytes(..).is_ok()` -/
def validStatus (v : Bytes) : Bool :=
  match v with
  | [a, b, c] => 49 ≤ a && a ≤ 57 && isDigit b && isDigit c
  | _ => false

def isCont (b : Nat) : Bool := 128 ≤ b && b ≤ 191

/-- `std::str::from_utf8(..).is_ok()` (well-formed UTF-8, Unicode table 3-7) -/
def validUtf8 : Bytes → Bool
  | [] => true
  | b0 :: rest =>
    if b0 < 128 then validUtf8 rest
    else if 194 ≤ b0 && b0 ≤ 223 then
      match rest with
      | b1 :: r => isCont b1 && validUtf8 r
      | _ => false
    else if 224 ≤ b0 && b0 ≤ 239 then
      match rest with
      | b1 :: b2 :: r =>
        (if b0 == 224 then 160 ≤ b1 && b1 ≤ 191
         else if b0 == 237 then 128 ≤ b1 && b1 ≤ 159
         else isCont b1) && isCont b2 && validUtf8 r
      | _ => false
    else if 240 ≤ b0 && b0 ≤ 244 then
      match rest with
      | b1 :: b2 :: b3 :: r =>
        (if b0 == 240 then 144 ≤ b1 && b1 ≤ 191
         else if b0 == 244 then 128 ≤ b1 && b1 ≤ 143
         else isCont b1) && isCont b2 && isCont b3 && validUtf8 r
      | _ => false
    else false

def str (s : String) : Bytes := s.toUTF8.toList.map (·.toNat)

end H2V.Model.Http
