import H2V.Model.Basic
import H2V.Generated.Static
/-
  A2 — mirror of `decode_int` (src/hpack/decoder.rs) and `encode_int` (src/hpack/encoder.rs).
-/
namespace H2V.Model.Hpack
open H2V H2V.Generated.Static

inductive NeedMore where
  | unexpectedEndOfStream | integerUnderflow | stringUnderflow
  deriving Repr, DecidableEq

/-- `hpack::DecoderError` -/
inductive DErr where
  | invalidRepresentation | invalidIntegerPrefix | invalidTableIndex | invalidHuffmanCode
  | invalidUtf8 | invalidStatusCode | invalidPseudoheader | invalidMaxDynamicSize
  | integerOverflow
  | needMore (k : NeedMore)
  | fuel   -- not a Rust value: the model's fuel ran out (proved unreachable)
  | panic  -- not a Rust value: a `panic!` site was reached (proved unreachable)
  deriving Repr, DecidableEq

def DErr.name : DErr → String
  | .invalidRepresentation => "InvalidRepresentation"
  | .invalidIntegerPrefix => "InvalidIntegerPrefix"
  | .invalidTableIndex => "InvalidTableIndex"
  | .invalidHuffmanCode => "InvalidHuffmanCode"
  | .invalidUtf8 => "InvalidUtf8"
  | .invalidStatusCode => "InvalidStatusCode"
  | .invalidPseudoheader => "InvalidPseudoheader"
  | .invalidMaxDynamicSize => "InvalidMaxDynamicSize"
  | .integerOverflow => "IntegerOverflow"
  | .needMore .unexpectedEndOfStream => "NeedMore(UnexpectedEndOfStream)"
  | .needMore .integerUnderflow => "NeedMore(IntegerUnderflow)"
  | .needMore .stringUnderflow => "NeedMore(StringUnderflow)"
  | .fuel => "MODEL-FUEL"
  | .panic => "MODEL-PANIC"

def DErr.isNeedMore : DErr → Bool
  | .needMore _ => true
  | _ => false

/-- the `while buf.has_remaining()` loop of `decode_int`: (ret, bytes, shift) -/
def decodeIntLoop : Bytes → Nat → Nat → Nat → Except DErr (Nat × Bytes)
  | [], _, _, _ => .error (.needMore .integerUnderflow)
  | b :: rest, ret, bytes, shift =>
    let bytes' := bytes + 1
    let ret' := ret + ((b &&& 127) <<< shift)
    if b &&& 128 = 0 then .ok (ret', rest)
    else if bytes' = DECODE_INT_MAX_BYTES then .error .integerOverflow
    else decodeIntLoop rest ret' bytes' (shift + 7)

/-- `decode_int(buf, prefix_size)`: value and the rest of the buffer -/
def decodeInt (buf : Bytes) (prefixSize : Nat) : Except DErr (Nat × Bytes) :=
  if prefixSize < 1 ∨ prefixSize > 8 then .error .invalidIntegerPrefix
  else match buf with
    | [] => .error (.needMore .integerUnderflow)
    | b0 :: rest =>
      let mask := 2 ^ prefixSize - 1
      let ret := b0 &&& mask
      if ret < mask then .ok (ret, rest)
      else decodeIntLoop rest ret 1 0

/-- the `while value >= 128` loop of `encode_int` -/
def encodeIntLoop : Nat → Nat → Bytes
  | 0, _ => []
  | fuel + 1, value =>
    if value ≥ 128 then (128 ||| (value % 128)) :: encodeIntLoop fuel (value >>> 7)
    else [value]

/-- `encode_int(value, prefix_bits, first_byte, dst)` -/
def encodeInt (value prefixBits firstByte : Nat) : Bytes :=
  let low := 2 ^ prefixBits - 1
  if value < low then [firstByte ||| value]
  else (firstByte ||| low) :: encodeIntLoop 11 (value - low)

end H2V.Model.Hpack
