import H2V.Model.ConnProto
/-
  Connection-level model, part 10 — the op interpreter: the user-side handles of the harness
  (`SendRequest` + clones, one `Slot` per request with its `SendStream` / `ResponseFuture` /
  `RecvStream` / `FlowControl` / `SendResponse`), one pure `step` per op line, and the rendering of the answer line
  (`r=… tx=… wk=… st=…`) in the format of `harness/src/conn.rs`.
  `step` is pure: `World × op words → World × answer`.  Both roles (`cn_new client|server`).
-/
namespace H2V.Model.Conn
open H2V H2V.Model

/-- the harness's `Slot` -/
structure Slot where
  key : Nat          -- store key held by the handles
  sid : Nat
  send : Bool := false
  respFut : Bool := false
  body : Bool := false
  fc : Bool := false
  responder : Bool := false
  sentOff : Nat := 0
  pushes : Bool := false        -- `client::PushPromises` taken from the response future
  pushesTaken : Bool := false   -- `push_promises()` may be called once
  pushedFut : Bool := false     -- `client::PushedResponseFuture` (the slot of a promised stream)
  pushedResp : Bool := false    -- the slot's responder is a `server::SendPushedResponse` (no informational, no push)
  deriving Repr

/-- `client::SendRequest`: the `pending` stream reference -/
structure SendRequest where
  pending : Option Nat := none
  deriving Repr

/-- everything `h2v run` holds between two op lines -/
structure World where
  conn : Option Conn := none
  sr : Option SendRequest := none
  clones : List SendRequest := []
  slots : List Slot := []
  /-- `ConnKind::Server` -/
  isServer : Bool := false
  /-- the harness holds the `h2::PingPong` handle -/
  pingHandle : Bool := false
  /-- `ConnKind::Gone` after `cn_dropconn`: the handles of the slots still reach the stream state -/
  connGone : Bool := false
  /-- the model gave up on this history (until the next `cn_new`) -/
  gaveUp : Bool := false
  deriving Repr

/-- fuel handed to every loop of one op (frames read / written per op are far below) -/
def OP_FUEL : Nat := 200000

-- ===================================================================== rendering

def renderInt (i : Int) : String := if i < 0 then "-" ++ toString i.natAbs else toString i.toNat

def renderUsize (n : Nat) : String := if n == USIZE_MAX then "max" else toString n

def renderOptId : Option Nat → String
  | some n => toString n
  | none => "Err"

def b01 (b : Bool) : String := if b then "1" else "0"

def streamFlags (st : Stream) : String :=
  let fl := [(st.isPendingSend, "s"), (st.isPendingSendCapacity, "c"), (st.isPendingOpen, "o"), (st.isPendingPush, "p"),
             (st.isPendingAccept, "a"), (st.isPendingWindowUpdate, "w"), (st.resetAt, "r"),
             (!st.pendingSend.isEmpty, "S"), (!st.pendingRecv.isEmpty, "R"), (st.isRecv, "v"),
             (st.sendTask.isSome, "t"), (st.recvTask.isSome, "u"), (st.pushTask.isSome, "q"), (st.isCounted, "k")]
  let s := String.join (fl.filterMap fun (b, c) => if b then some c else none)
  if s.isEmpty then "-" else s

def renderStream (st : Stream) : String :=
  s!"S{st.id}:{st.state.render},{renderInt st.sendFlow.windowSize.val},{renderInt st.sendFlow.available.val}," ++
  s!"{st.requestedSendCapacity},{st.bufferedSendData},{renderInt st.recvFlow.windowSize.val},{renderInt st.recvFlow.available.val}," ++
  s!"{st.inFlightRecvData},{st.refCount},{streamFlags st}"

/-- the harness sorts the pairs (id, rendered stream): ties (two slab entries with one stream id)
    are ordered by the rendering -/
def insertById (st : Nat × String) : List (Nat × String) → List (Nat × String)
  | [] => [st]
  | x :: rest => if st.1 < x.1 || (st.1 == x.1 && st.2 ≤ x.2) then st :: x :: rest else x :: insertById st rest

def sortById (l : List (Nat × String)) : List (Nat × String) := l.foldr insertById []

/-- the harness's `digest()` -/
def digest (c : Conn) : String :=
  let s := c.streams
  let p := s.prio
  let r := s.recv
  let n := s.counts
  let q := fun (l : List Nat) => b01 (!l.isEmpty)
  let segs : List String :=
    [s!"C:{renderInt p.flow.windowSize.val},{renderInt p.flow.available.val},{renderInt r.flow.windowSize.val},{renderInt r.flow.available.val},{r.inFlightData}",
     s!"N:{n.numSendStreams},{n.numRecvStreams},{n.numLocalResetStreams},{n.numRemoteResetStreams},{n.numLocalErrorResetStreams},{renderUsize n.maxSendStreams},{renderUsize n.maxRecvStreams}",
     s!"X:{s.actions.send.initWindowSz},{r.initWindowSz},{renderOptId s.actions.send.nextStreamId},{renderOptId r.nextStreamId},{s.refs}",
     s!"Q:{q p.pendingSend}{q p.pendingCapacity}{q p.pendingOpen}{q r.pendingWindowUpdates}{q r.pendingAccept}{q r.pendingResetExpired}",
     s!"B:{s.recvBufferLen}"]
    ++ (sortById (s.store.slab.map fun st => (st.id, renderStream st))).map (·.2)
    ++ [s!"K:{c.state.name},{b01 c.goAway.goingAway.isSome},{b01 c.pingPong.pendingPong.isSome},{c.settings.loc.name},{b01 c.settings.remote.isSome}",
        s!"SB:{s.sendBufferLen}"]
  "|".intercalate segs

def dedup : List String → List String → List String
  | [], acc => acc
  | x :: rest, acc => if acc.contains x then dedup rest acc else dedup rest (acc ++ [x])

/-- the harness's `perr` on the public error -/
def renderApiErr : ApiErr → String
  | .proto (.io kind _) => s!"io:Some({kind})"
  | .proto (.goAway _ r i) => s!"goaway:{r}:{i.lower}"
  | .proto (.reset _ r i) => s!"reset:{r}:{i.lower}"
  | .user e => "user:" ++ ("user error: " ++ e.display).replace " " "_"

def renderFieldsHex (f : Fields) : String :=
  let items := f.flatMap fun (n, vs) => vs.map fun v => Hex.ofBytes n ++ "=" ++ Hex.ofBytes v
  if items.isEmpty then "-" else ",".intercalate items

def bytesToString (b : Bytes) : String := String.ofList (b.map Char.ofNat)

/-- the harness's `chk` -/
def chk (d : Bytes) : String :=
  let sum := d.foldl (fun a b => (a + b) % 65521) 0
  s!"{d.head?.getD 0}-{d.getLast?.getD 0}-{sum}"

-- ===================================================================== op helpers

def field (name value : String) : Hpack.Field :=
  { h := (Http.str name, Http.str value), sensitive := false, nameless := false }

/-- `k=v,k=v` with hex encoded halves -/
def parseExtra (s : String) : Option (List Hpack.Field) :=
  if s == "-" then some []
  else (s.splitOn ",").mapM fun kv =>
    match kv.splitOn "=" with
    | [k, v] =>
      match Hex.toBytes? k, Hex.toBytes? v with
      | some k, some v => some { h := (k, v), sensitive := false, nameless := false }
      | _, _ => none
    | _ => none

def parseCfg (ws : List String) : Option Conn.Cfg :=
  ws.foldlM (fun (g : Conn.Cfg) w =>
    match w.splitOn "=" with
    | [k, v] =>
      match v.toNat? with
      | none => none
      | some n =>
        match k with
        | "iws" => some { g with iws := some n }
        | "cws" => some { g with cws := some n }
        | "mcs" => some { g with mcs := some n }
        | "mfs" => some { g with mfs := some n }
        | "mhl" => some { g with mhl := some n }
        | "hts" => some { g with hts := some n }
        | "push" => some { g with push := some n }
        | "sendbuf" => some { g with sendbuf := n }
        | "reset_max" => some { g with resetMax := n }
        | "pend_accept_reset" => some { g with pendAcceptReset := n }
        | "init_max_send" => some { g with initMaxSend := n }
        | "budget" => some { g with budget := n }
        | "first_id" => some { g with firstId := n }
        | "reset_secs" => some { g with resetSecs := n }
        | "ecp" => some g
        | _ => none
    | _ => none) ({} : Conn.Cfg)

/-- the harness's `io_kind` -/
def ioKind (k : String) : String :=
  if k == "BrokenPipe" || k == "ConnectionReset" || k == "UnexpectedEof" || k == "TimedOut" then k else "Other"

/-- answer line -/
def finish (w : World) (c : Conn) (r : String) (wkKnown : Bool := true) : World × String :=
  let tx := if c.codec.io.tx.isEmpty then "-" else ";".intercalate c.codec.io.tx
  let wk := dedup c.streams.wakes []
  let wks := if !wkKnown then "?" else if wk.isEmpty then "-" else ",".intercalate wk
  let bad := c.unsupported.isSome || c.codec.w.unsupported || c.streams.unsupported.isSome
  if c.streams.panicked.isSome then ({ w with conn := some c, gaveUp := true }, "panic")
  else if bad then ({ w with conn := some c, gaveUp := true }, "unmodelled")
  else
    let c := { c with codec := { c.codec with io := { c.codec.io with tx := [] } }, streams := { c.streams with wakes := [] } }
    ({ w with conn := some c }, s!"r={r} tx={tx} wk={wks} st={if w.connGone then "gone" else digest c}")

def withStreams (c : Conn) (s : Streams) : Conn := { c with streams := s }

def getSlot (w : World) (k : String) : Option (Nat × Slot) :=
  match k.toNat? with
  | some i => (w.slots[i]?).map fun s => (i, s)
  | none => none

def setSlot (w : World) (i : Nat) (s : Slot) : World := { w with slots := w.slots.set i s }

/-- drop the handles of a slot named by `which`, in the harness's order -/
def dropHandles (s : Streams) (slot : Slot) (which : String) : Streams × Slot :=
  let dSend := fun (p : Streams × Slot) =>
    if p.2.send then (p.1.dropStreamRef p.2.key, { p.2 with send := false }) else p
  let dResp := fun (p : Streams × Slot) =>
    let p := if p.2.respFut then (p.1.dropStreamRef p.2.key, { p.2 with respFut := false }) else p
    if p.2.pushedFut then (p.1.dropStreamRef p.2.key, { p.2 with pushedFut := false }) else p
  let dPushes := fun (p : Streams × Slot) =>
    if p.2.pushes then (p.1.dropStreamRef p.2.key, { p.2 with pushes := false }) else p
  let dBody := fun (p : Streams × Slot) =>
    if p.2.body then ((p.1.refClearRecvBuffer p.2.key).dropStreamRef p.2.key, { p.2 with body := false }) else p
  let dFc := fun (p : Streams × Slot) =>
    if p.2.fc then (p.1.dropStreamRef p.2.key, { p.2 with fc := false }) else p
  let dResponder := fun (p : Streams × Slot) =>
    if p.2.responder then (p.1.dropStreamRef p.2.key, { p.2 with responder := false }) else p
  match which with
  | "send" => dSend (s, slot)
  | "resp" => dResp (s, slot)
  | "body" => dBody (s, slot)
  | "fc" => dFc (s, slot)
  | "responder" => dResponder (s, slot)
  | "pushes" => dPushes (s, slot)
  | _ => dPushes (dResponder (dFc (dBody (dResp (dSend (s, slot))))))

/-- the harness drops `ConnKind::Client(conn, sr, clones)` field by field: `Drop for proto::Connection`
    (`recv_eof(true)`), the connection's fields (`ping_pong` — `UserPingsRx` — before `streams`),
    the `SendRequest` (its `Streams` handle, then its `pending` reference), the clones -/
def dropConnKind (c : Conn) (sr : Option SendRequest) (clones : List SendRequest) : Conn :=
  let c := { c with streams := c.streams.recvEof true }
  let c := c.dropUserPingsRx
  let s := c.streams.dropHandle
  let dropSr := fun (s : Streams) (sr : SendRequest) =>
    let s := s.dropHandle
    match sr.pending with | some p => s.dropStreamRef p | none => s
  let s := match sr with | some sr => dropSr s sr | none => s
  { c with streams := clones.foldl dropSr s }

/-- The wakers that fire while the harness replaces the previous connection (`new_conn`): the slots
    are cleared first (their wakes are wiped with the log), then — after the new handshake — the old
    connection is dropped.  `none` = the model lost track of the old world. -/
def teardownWakes (w : World) : Option (List String) :=
  if w.gaveUp then none
  else match w.conn with
    | none => some []
    | some c =>
      let s := w.slots.foldl (fun s slot => (dropHandles s slot "all").1) c.streams
      let c := { c with streams := { s with wakes := [] } }
      let c := if w.connGone then c else dropConnKind c w.sr w.clones
      if c.streams.panicked.isSome then none else some c.streams.wakes

-- ===================================================================== step

/-- one op line against a live connection -/
def stepConn (w : World) (c : Conn) (ws : List String) : Option (World × String) :=
  match ws with
  | ["cn_peer", h] =>
    match Hex.toBytes? h with
    | none => none
    | some b =>
      let io := { c.codec.io with rd := c.codec.io.rd ++ b }
      let (io, wk) := match io.readWaker with
        | some t => ({ io with readWaker := none }, [t])
        | none => (io, [])
      let c := { c with codec := { c.codec with io := io }, streams := c.streams.wake wk }
      some (finish w c "ok")
  | ["cn_budget", n] =>
    let budget : Option (Option Nat) := if n == "inf" then some none else n.toNat?.map some
    match budget with
    | none => none
    | some b =>
      let io := { c.codec.io with budget := b }
      let (io, wk) :=
        if b != some 0 then
          match io.writeWaker with
          | some t => ({ io with writeWaker := none }, [t])
          | none => (io, [])
        else (io, [])
      let c := { c with codec := { c.codec with io := io }, streams := c.streams.wake wk }
      some (finish w c "ok")
  | ["cn_eof"] =>
    let io := { c.codec.io with eof := true }
    let (io, wk) := match io.readWaker with
      | some t => ({ io with readWaker := none }, [t])
      | none => (io, [])
    some (finish w { c with codec := { c.codec with io := io }, streams := c.streams.wake wk } "ok")
  | ["cn_rderr", k] =>
    let io := { c.codec.io with rdErr := some (ioKind k) }
    let (io, wk) := match io.readWaker with
      | some t => ({ io with readWaker := none }, [t])
      | none => (io, [])
    some (finish w { c with codec := { c.codec with io := io }, streams := c.streams.wake wk } "ok")
  | ["cn_wrerr", k] =>
    let io := { c.codec.io with wrErr := some (ioKind k) }
    let (io, wk) := match io.writeWaker with
      | some t => ({ io with writeWaker := none }, [t])
      | none => (io, [])
    some (finish w { c with codec := { c.codec with io := io }, streams := c.streams.wake wk } "ok")
  | ["cn_takeping"] =>
    if w.connGone then some (finish w c "ok:0")
    else
      let (c, ok) := c.takeUserPings
      some (finish { w with pingHandle := w.pingHandle || ok } c s!"ok:{b01 ok}")
  | ["cn_ping"] =>
    if !w.pingHandle then some (finish w c "nohandle")
    else
      match c.userSendPing with
      | (c, none) => some (finish w c "ok")
      | (c, some true) => some (finish w c "err:io:Some(BrokenPipe)")
      | (c, some false) => some (finish w c ("err:" ++ renderApiErr (.user .sendPingWhilePending)))
  | ["cn_pollpong"] =>
    if !w.pingHandle then some (finish w c "nohandle")
    else
      match c.userPollPong "g" with
      | (c, none) => some (finish w c "pending")
      | (c, some true) => some (finish w c "pong")
      | (c, some false) => some (finish w c "err:io:Some(BrokenPipe)")
  | ["cn_dropconn"] =>
    if w.connGone then some (finish w c "ok")
    else
      let c := dropConnKind c w.sr w.clones
      some (finish { w with connGone := true, sr := none, clones := [] } c "ok")
  | ["cn_poll"] =>
    if w.connGone then some (finish w c "gone") else
    let c := { c with cx := WAKER_CONN }
    let (c, r) := if w.isServer then c.protoPoll OP_FUEL else c.clientPoll OP_FUEL
    let rs := match r with
      | .pending => "pending"
      | .ready (.ok _) => "done"
      | .ready (.error e) => "err:" ++ renderApiErr (.proto e)
    some (finish w c rs)
  | ["cn_req", eos, method, path, extra] =>
    match parseExtra extra with
    | none => none
    | some ex =>
      match w.sr with
      | none => some (finish w c "nohandle")
      | some sr =>
        -- `Pseudo::request`: CONNECT (without `:protocol`) carries neither `:scheme` nor `:path`
        let pseudo := if method == "CONNECT" then [field ":method" method, field ":authority" "example.com"]
          else [field ":method" method, field ":scheme" "http", field ":authority" "example.com",
                field ":path" (if path.isEmpty then (if method == "OPTIONS" then "*" else "/") else path)]
        let fields := pseudo ++ ex
        match c.streams.sendRequest (method == "HEAD") fields (eos == "1") sr.pending with
        | (s, .error e) => some (finish w (withStreams c s) ("err:" ++ renderApiErr e))
        | (s, .ok (key, isFull)) =>
          let sid := (s.stream key).id
          -- `SendRequest::send_request`: maybe remember the stream as pending, then the response handle
          let (s, sr) :=
            if (s.stream key).isPendingOpen && isFull then
              let s := s.cloneStreamRef key
              let s := match sr.pending with | some old => s.dropStreamRef old | none => s
              (s, { sr with pending := some key })
            else (s, sr)
          let s := s.cloneStreamRef key
          let w := { w with sr := some sr, slots := w.slots ++ [{ key := key, sid := sid, send := true, respFut := true }] }
          some (finish w (withStreams c s) s!"ok:{w.slots.length - 1}:{sid}")
  | ["cn_reqc", eos, method, path, extra] =>
    -- a request through a fresh clone of the `SendRequest` handle that is dropped right afterwards
    -- (`sr.clone()` per task): the only way to have several requests waiting in `pending_open`
    match parseExtra extra with
    | none => none
    | some ex =>
      match w.sr with
      | none => some (finish w c "nohandle")
      | some _ =>
        let pseudo := if method == "CONNECT" then [field ":method" method, field ":authority" "example.com"]
          else [field ":method" method, field ":scheme" "http", field ":authority" "example.com",
                field ":path" (if path.isEmpty then (if method == "OPTIONS" then "*" else "/") else path)]
        let fields := pseudo ++ ex
        match c.streams.cloneHandle.sendRequest (method == "HEAD") fields (eos == "1") none with
        | (s, .error e) => some (finish w (withStreams c s.dropHandle) ("err:" ++ renderApiErr e))
        | (s, .ok (key, isFull)) =>
          let sid := (s.stream key).id
          let pend := (s.stream key).isPendingOpen && isFull
          let s := if pend then s.cloneStreamRef key else s
          let s := s.cloneStreamRef key
          -- drop of the clone: `inner` (the `Streams` handle) first, then `pending`
          let s := s.dropHandle
          let s := if pend then s.dropStreamRef key else s
          let w := { w with slots := w.slots ++ [{ key := key, sid := sid, send := true, respFut := true }] }
          some (finish w (withStreams c s) s!"ok:{w.slots.length - 1}:{sid}")
  | ["cn_ready"] =>
    match w.sr with
    | none => some (finish w c "nohandle")
    | some sr =>
      match c.streams.pollPendingOpen sr.pending "q" with
      | (s, .error e) => some (finish w (withStreams c s) ("err:" ++ renderApiErr e))
      | (s, .ok false) => some (finish w (withStreams c s) "pending")
      | (s, .ok true) =>
        let s := match sr.pending with | some old => s.dropStreamRef old | none => s
        some (finish { w with sr := some { sr with pending := none } } (withStreams c s) "ready")
  | ["cn_accept"] =>
    if !w.isServer || w.connGone then some (finish w c "nohandle")
    else
      let (c, r) := ({ c with cx := "a" }).protoPoll OP_FUEL
      match r with
      | .ready (.ok _) => some (finish w c "none")
      | .ready (.error e) => some (finish w c ("err:" ++ renderApiErr (.proto e)))
      | .pending =>
        match c.streams.nextIncoming with
        | (s, none) => some (finish w (withStreams c s) "pending")
        | (s, some key) =>
          match s.recvTakeRequest key with
          | (s, none) => some (finish w (withStreams c s) "panic")
          | (s, some (method, uri, fields)) =>
            -- `RecvStream::new(FlowControl::new(inner.clone_to_opaque()))`
            let s := s.cloneStreamRef key
            let sid := (s.stream key).id
            let w := { w with slots := w.slots ++ [{ key := key, sid := sid, body := true, responder := true }] }
            some (finish w (withStreams c s)
              s!"ok:{w.slots.length - 1}:{sid}:{bytesToString method}:{Hex.render uri}:{renderFieldsHex fields}")
  | ["cn_respond", k, status, eos] =>
    match getSlot w k, status.toNat? with
    | some (i, slot), some st =>
      if st > 65535 then none                         -- the harness parses a `u16`
      else if !slot.responder then some (finish w c "nohandle")
      else if st < 100 || st > 999 then none          -- `Response::builder().status(..)` refuses it: bad-op
      else
        match c.streams.refSendResponse slot.key [field ":status" status] (eos == "1") with
        | (s, .error e) => some (finish w (withStreams c s) ("err:" ++ renderApiErr (.user e)))
        | (s, .ok _) =>
          -- `SendStream::new(self.inner.clone())`, then the slot's old `send` (if any) is dropped
          let s := s.cloneStreamRef slot.key
          let s := if slot.send then s.dropStreamRef slot.key else s
          some (finish (setSlot w i { slot with send := true }) (withStreams c s) "ok")
    | _, _ => none
  | ["cn_inform", k, status] =>
    match getSlot w k, status.toNat? with
    | some (_, slot), some st =>
      if st > 65535 then none
      else if !slot.responder || slot.pushedResp then some (finish w c "nohandle")
      else if st < 100 || st > 999 then none
      else if st ≥ 200 then some (finish w c ("err:" ++ renderApiErr (.user .invalidInformationalStatusCode)))
      else
        match c.streams.refSendInformationalHeaders slot.key [field ":status" status] with
        | (s, .error e) => some (finish w (withStreams c s) ("err:" ++ renderApiErr (.user e)))
        | (s, .ok _) => some (finish w (withStreams c s) "ok")
    | _, _ => none
  | ["cn_push", k, path] =>
    match getSlot w k with
    | some (_, slot) =>
      if !slot.responder || slot.pushedResp then some (finish w c "nohandle")
      else
        let fields := [field ":method" "GET", field ":scheme" "http", field ":authority" "example.com",
                       field ":path" (if path.isEmpty then "/" else path)]
        match c.streams.refSendPushPromise slot.key true fields with
        | (s, .error e) => some (finish w (withStreams c s) ("err:" ++ renderApiErr (.user e)))
        | (s, .ok child) =>
          let sid := (s.stream child).id
          -- the harness drops the `SendPushedResponse` at once
          some (finish w (withStreams c (s.dropStreamRef child)) s!"ok:{sid}")
    | none => none
  | ["cn_pushk", k, path] =>
    match getSlot w k with
    | some (_, slot) =>
      if !slot.responder || slot.pushedResp then some (finish w c "nohandle")
      else
        let fields := [field ":method" "GET", field ":scheme" "http", field ":authority" "example.com",
                       field ":path" (if path.isEmpty then "/" else path)]
        match c.streams.refSendPushPromise slot.key true fields with
        | (s, .error e) => some (finish w (withStreams c s) ("err:" ++ renderApiErr (.user e)))
        | (s, .ok child) =>
          let sid := (s.stream child).id
          -- the harness keeps the `SendPushedResponse` in a new slot
          let w := { w with slots := w.slots ++ [{ key := child, sid := sid, responder := true, pushedResp := true }] }
          some (finish w (withStreams c s) s!"ok:{w.slots.length - 1}:{sid}")
    | none => none
  | ["cn_graceful"] =>
    if !w.isServer || w.connGone then some (finish w c "nohandle")
    else some (finish w c.goAwayGracefully "ok")
  | ["cn_abrupt", code] =>
    match code.toNat? with
    | some code =>
      if code > U32_MAX then none
      else if !w.isServer || w.connGone then some (finish w c "nohandle")
      else some (finish w (c.goAwayFromUser code) "ok")
    | none => none
  | ["cn_clone_sr"] =>
    match w.sr with
    | none => some (finish w c "nohandle")
    | some _ =>
      let w := { w with clones := w.clones ++ [{}] }
      some (finish w (withStreams c c.streams.cloneHandle) s!"ok:{w.clones.length}")
  | ["cn_drop_sr", which] =>
    if w.connGone || w.isServer then some (finish w c "nohandle")
    else if which == "main" then
      match w.sr with
      | some sr =>
        -- field order of `SendRequest { inner, pending }`: the `Streams` handle goes first
        let s := c.streams.dropHandle
        let s := match sr.pending with | some p => s.dropStreamRef p | none => s
        some (finish { w with sr := none } (withStreams c s) "ok")
      | none => some (finish w c "ok")
    else
      match w.clones.getLast? with
      | some cl =>
        let s := c.streams.dropHandle
        let s := match cl.pending with | some p => s.dropStreamRef p | none => s
        some (finish { w with clones := w.clones.dropLast } (withStreams c s) "ok")
      | none => some (finish w c "ok")
  | ["cn_data", k, len, eos] =>
    match getSlot w k, len.toNat? with
    | some (i, slot), some len =>
      if !slot.send then some (finish w c "nohandle")
      else
        match c.streams.refSendData slot.key len (eos == "1") with
        | (s, .ok _) => some (finish (setSlot w i { slot with sentOff := slot.sentOff + len }) (withStreams c s) "ok")
        | (s, .error e) => some (finish w (withStreams c s) ("err:" ++ renderApiErr (.user e)))
    | _, _ => none
  | ["cn_trailers", k] =>
    match getSlot w k with
    | some (_, slot) =>
      if !slot.send then some (finish w c "nohandle")
      else
        match c.streams.refSendTrailers slot.key [field "x-trailer" "t"] with
        | (s, .ok _) => some (finish w (withStreams c s) "ok")
        | (s, .error e) => some (finish w (withStreams c s) ("err:" ++ renderApiErr (.user e)))
    | none => none
  | ["cn_reserve", k, n] =>
    match getSlot w k, n.toNat? with
    | some (_, slot), some n =>
      if !slot.send then some (finish w c "nohandle")
      else some (finish w (withStreams c (c.streams.refReserveCapacity slot.key (usizeAsU32 n))) "ok")
    | _, _ => none
  | ["cn_cap", k] =>
    match getSlot w k with
    | some (_, slot) =>
      if !slot.send then some (finish w c "nohandle")
      else some (finish w c s!"cap:{c.streams.sendCapacity slot.key}")
    | none => none
  | ["cn_pollcap", k] =>
    match getSlot w k with
    | some (_, slot) =>
      if !slot.send then some (finish w c "nohandle")
      else
        let (s, r) := c.streams.pollCapacity slot.key s!"s{k}"
        let rs := match r with
          | .pending => "pending"
          | .none => "none"
          | .cap n => s!"cap:{n}"
        some (finish w (withStreams c s) rs)
    | none => none
  | ["cn_reset", k, code] =>
    match getSlot w k, code.toNat? with
    | some (_, slot), some code =>
      if code > U32_MAX then none
      else if !slot.send && !slot.responder then some (finish w c "nohandle")
      else some (finish w (withStreams c (c.streams.refSendReset slot.key code)) "ok")
    | _, _ => none
  | ["cn_pollreset", k] =>
    match getSlot w k with
    | some (_, slot) =>
      if !slot.send && !slot.responder then some (finish w c "nohandle")
      else
        -- `SendStream::poll_reset` (Streaming) wins over `SendResponse::poll_reset` (AwaitingHeaders)
        let (s, r) := c.streams.pollReset slot.key (if slot.send then .streaming else .awaitingHeaders) s!"s{k}"
        let rs := match r with
          | .ok none => "pending"
          | .ok (some reason) => s!"reset:{reason}"
          | .error e => "err:" ++ renderApiErr e
        some (finish w (withStreams c s) rs)
    | none => none
  | ["cn_takepushes", k] =>
    match getSlot w k with
    | some (i, slot) =>
      -- `ResponseFuture::push_promises()` (a clone of the stream reference); it panics when called twice, which the
      -- harness does not do
      if !slot.respFut || slot.pushesTaken then some (finish w c "nohandle")
      else
        let s := c.streams.cloneStreamRef slot.key
        some (finish (setSlot w i { slot with pushes := true, pushesTaken := true }) (withStreams c s) "ok")
    | none => none
  | ["cn_pollpushed", k] =>
    match getSlot w k with
    | some (_, slot) =>
      if !slot.pushes then some (finish w c "nohandle")
      else
        match c.streams.refPollPushed slot.key s!"q{k}" with
        | (s, .pending) => some (finish w (withStreams c s) "pending")
        | (s, .none) => some (finish w (withStreams c s) "none")
        | (s, .err e) => some (finish w (withStreams c s) ("err:" ++ renderApiErr (.proto e)))
        | (s, .panic) => some (finish w (withStreams c s) "panic")
        | (s, .pushed child method uri fields) =>
          let sid := (s.stream child).id
          let w := { w with slots := w.slots ++ [{ key := child, sid := sid, pushedFut := true }] }
          some (finish w (withStreams c s)
            s!"ok:{w.slots.length - 1}:{sid}:{bytesToString method}:{Hex.render uri}:{renderFieldsHex fields}")
    | none => none
  | ["cn_resp", k] =>
    match getSlot w k with
    | some (i, slot) =>
      if !slot.respFut && !slot.pushedFut then some (finish w c "nohandle")
      else
        match Streams.recvPollResponse ((c.streams.stream slot.key).pendingRecv.length + 1) c.streams slot.key s!"p{k}" with
        | (s, .pending) => some (finish w (withStreams c s) "pending")
        | (s, .response status f) =>
          -- `RecvStream::new(FlowControl::new(self.inner.clone()))`, then the harness drops the future
          let s := (s.cloneStreamRef slot.key).dropStreamRef slot.key
          some (finish (setSlot w i { slot with body := true, respFut := false, pushedFut := false }) (withStreams c s)
            s!"ok:{bytesToString status}:{renderFieldsHex f}")
        | (s, .err e) =>
          let s := s.dropStreamRef slot.key
          some (finish (setSlot w i { slot with respFut := false, pushedFut := false }) (withStreams c s) ("err:" ++ renderApiErr (.proto e)))
        | (s, .panic) => some (finish w (withStreams c s) "panic")
    | none => none
  | ["cn_info", k] =>
    match getSlot w k with
    | some (_, slot) =>
      if !slot.respFut then some (finish w c "nohandle")
      else
        let (s, r) := c.streams.recvPollInformational slot.key s!"p{k}"
        let rs := match r with
          | .pending => "pending"
          | .none => "none"
          | .response status => s!"ok:{bytesToString status}"
          | .err e => "err:" ++ renderApiErr (.proto e)
        some (finish w (withStreams c s) rs)
    | none => none
  | ["cn_read", k] =>
    match getSlot w k with
    | some (_, slot) =>
      if !slot.body then some (finish w c "nohandle")
      else
        let (s, r) := c.streams.refPollData slot.key s!"b{k}"
        let rs := match r with
          | .pending => "pending"
          | .none => "none"
          | .data d _ => s!"data:{d.length}:{chk d}"
          | .err e => "err:" ++ renderApiErr (.proto e)
        some (finish w (withStreams c s) rs)
    | none => none
  | ["cn_rtrailers", k] =>
    match getSlot w k with
    | some (_, slot) =>
      if !slot.body then some (finish w c "nohandle")
      else
        let (s, r) := c.streams.recvPollTrailers slot.key s!"b{k}"
        let rs := match r with
          | .pending => "pending"
          | .none => "none"
          | .trailers f => s!"trailers:{renderFieldsHex f}"
          | .err e => "err:" ++ renderApiErr (.proto e)
        some (finish w (withStreams c s) rs)
    | none => none
  | ["cn_eos", k] =>
    match getSlot w k with
    | some (_, slot) =>
      if !slot.body then some (finish w c "nohandle")
      else some (finish w c s!"eos:{b01 (c.streams.isEndStream slot.key)}")
    | none => none
  | ["cn_release", k, n] =>
    match getSlot w k, n.toNat? with
    | some (_, slot), some n =>
      if !slot.body && !slot.fc then some (finish w c "nohandle")
      else if n > Generated.Consts.MAX_WINDOW_SIZE then
        some (finish w c ("err:" ++ renderApiErr (.user .releaseCapacityTooBig)))
      else
        match c.streams.refReleaseCapacity slot.key n with
        | (s, .ok _) => some (finish w (withStreams c s) "ok")
        | (s, .error e) => some (finish w (withStreams c s) ("err:" ++ renderApiErr (.user e)))
    | _, _ => none
  | ["cn_fcinfo", k] =>
    match getSlot w k with
    | some (_, slot) =>
      if !slot.body && !slot.fc then some (finish w c "nohandle")
      else
        let st := c.streams.stream slot.key
        some (finish w c s!"fc:{renderInt st.recvFlow.available.val}:{st.inFlightRecvData}")
    | none => none
  | ["cn_keepfc", k] =>
    match getSlot w k with
    | some (i, slot) =>
      if !slot.body then some (finish w c "nohandle")
      else
        -- `s.fc = Some(clone)`: the new handle exists before the old one (if any) is dropped
        let s := c.streams.cloneStreamRef slot.key
        let s := if slot.fc then s.dropStreamRef slot.key else s
        some (finish (setSlot w i { slot with fc := true }) (withStreams c s) "ok")
    | none => none
  | ["cn_drop", k, which] =>
    match getSlot w k with
    | some (i, slot) =>
      let (s, slot) := dropHandles c.streams slot which
      some (finish (setSlot w i slot) (withStreams c s) "ok")
    | none => none
  | ["cn_target", n] =>
    match n.toNat? with
    | some n =>
      if n > U32_MAX then none                       -- the harness parses a `u32`
      else if w.connGone then some (finish w c "ok")
      else if n > Generated.Consts.MAX_WINDOW_SIZE then some (finish w (c.panic "assertion failed: size <= proto::MAX_WINDOW_SIZE") "ok")
      else some (finish w (c.setTargetWindowSize n) "ok")
    | none => none
  | ["cn_iws", n] =>
    match n.toNat? with
    | some n =>
      if n > U32_MAX then none
      else if w.connGone then some (finish w c "ok")
      else if n > Generated.Consts.MAX_WINDOW_SIZE then some (finish w (c.panic "assertion failed: size <= proto::MAX_WINDOW_SIZE") "ok")
      else
      match c.setInitialWindowSize n with
      | (c, .ok _) => some (finish w c "ok")
      | (c, .error e) => some (finish w c ("err:" ++ renderApiErr (.user e)))
    | none => none
  | "cn_note" :: _ => some (finish w c "ok")
  | ["cn_io"] =>
    let io := c.codec.io
    -- how much of the input h2 has pulled out of the transport depends on tokio-util's buffer
    -- management; the model only knows the answer when nothing at all is left unprocessed
    let r := if io.rd.isEmpty && c.codec.r.buf.isEmpty then
        s!"io:rd=0:shutdown={b01 io.shutdownCalled}:unparsed={io.partialOctets}"
      else "?"
    some (finish w c r)
  | _ => none

/-- ops the harness knows and the model does not -/
def notModelled : List String := []

/-- one op line: the new world and the answer line (`unmodelled` when the model has no answer) -/
def step (w : World) (ws : List String) : World × String :=
  match ws with
  | "cn_new" :: "server" :: opts =>
    let peerHex := (opts.find? (·.startsWith "peer_settings=")).map fun o => (o.drop "peer_settings=".length).toString
    let peerFirst : Option Bytes := match peerHex with
      | some h => (Hex.toBytes? h).orElse fun _ => some [0, 0, 0, 4, 0, 0, 0, 0, 0]
      | none => some [0, 0, 0, 4, 0, 0, 0, 0, 0]
    let ecp := opts.any fun o => o.startsWith "ecp=" && o != "ecp=0"
    match parseCfg (opts.filter fun o => !(o.startsWith "peer_settings=")), peerFirst with
    | some g, some pf =>
      let c := Conn.initServer g ecp pf
      let w' : World := { conn := none, sr := none, clones := [], slots := [], isServer := true, gaveUp := false }
      match teardownWakes w with
      | some wk => finish w' { c with streams := c.streams.wake wk } "ok"
      | none => finish w' c "ok" (wkKnown := false)
    | _, _ => ({ conn := none, gaveUp := true }, "unmodelled")
  | "cn_new" :: role :: opts =>
    if role != "client" then ({ conn := none, gaveUp := true }, "unmodelled")
    else match parseCfg opts with
      | none => ({ conn := none, gaveUp := true }, "unmodelled")
      | some g =>
        let c := Conn.init g
        -- the wakers that fire while the harness drops the previous connection land in this answer
        let w' : World := { conn := none, sr := some {}, clones := [], slots := [], gaveUp := false }
        match teardownWakes w with
        | some wk => finish w' { c with streams := c.streams.wake wk } "ok"
        | none => finish w' c "ok" (wkKnown := false)
  | _ =>
    if w.gaveUp then (w, "unmodelled")
    else match w.conn with
      | none => (w, "unmodelled")
      | some c =>
        match stepConn w c ws with
        | some r => r
        | none =>
          -- ops of the harness that the model does not cover; anything else the harness itself
          -- rejects (`bad-op`: unknown op, wrong arity, unparsable number, slot that does not exist)
          if notModelled.contains (ws.headD "") then ({ w with gaveUp := true }, "unmodelled")
          else (w, "bad-op")

end H2V.Model.Conn
