import H2V.Model.HpackEnc
import H2V.Model.ConnCounts
/-
  Connection-level model, part 4 — mirror of `src/proto/streams/stream.rs`, `store.rs`, `buffer.rs`
  and of the state containers of `prioritize.rs`/`send.rs`/`recv.rs`/`streams.rs` (`Prioritize`,
  `Send`, `Recv`, `Actions`, `Inner` — called `Streams` here because `Inner` is the state enum).

  * a stream entry is identified by its `key`, a number handed out by `Store.insert` and never
    reused (it stands for `store::Key` = slab index + stream id; the slab reuses indices, but nothing
    observable depends on the index itself).  The stream id is NOT a key: h2 can hold two slab
    entries with the same stream id (see ConnNOTES.md, "RST_STREAM twice").  `Store.slab` is the slab
    (all entries that still exist), `Store.ids` is the `IndexMap` stream id -> key (the streams the
    protocol still knows), in index order, with `swap_remove` semantics for `unlink`;
  * the intrusive queues are lists of ids; the `is_pending_*` flags stay on the stream and `push`
    looks at the flag exactly like `Queue::push`;
  * `buffer::Deque`s are lists of frame descriptors stored in the stream; the slab sizes the harness
    prints (`B:`, `SB:`) are the sums of their lengths;
  * a `Waker` is the tag the harness gave it; `wake()` appends the tag to `Streams.wakes`;
  * `Instant`s are not modelled: `reset_at` is a flag.
-/
namespace H2V.Model.Conn
open H2V H2V.Model

/-- a frame in a stream's `pending_send` -/
inductive SFrame where
  | headers (eos : Bool) (fields : List Hpack.Field)      -- request head / trailers (`eos`)
  | data (len : Nat) (eos : Bool)                         -- only the length of the payload matters
  | reset (reason : Reason)
  | pushPromise (promisedKey promisedId : Nat) (fields : List Hpack.Field)
  deriving Repr, DecidableEq

def SFrame.isData : SFrame → Bool
  | .data .. => true
  | _ => false

/-- header fields as `HeaderMap` iteration hands them over -/
abbrev Fields := List (Bytes × List Bytes)

/-- `recv::Event` -/
inductive REvent where
  | headers (status : Bytes) (fields : Fields)            -- `Headers(Client(response))`
  | request (method uri : Bytes) (fields : Fields)        -- `Headers(Server(request))`, `uri` as `Display` prints it
  | informational (status : Bytes) (fields : Fields)
  | data (payload : Bytes) (isBudgeted : Bool)
  | trailers (fields : Fields)
  deriving Repr, DecidableEq

/-- `stream::ContentLength` -/
inductive ContentLength where
  | omitted | head | remaining (n : Nat)
  deriving Repr, DecidableEq

/-- `stream::Stream` -/
structure Stream where
  key : Nat := 0
  id : Nat
  state : State := {}
  isCounted : Bool := false
  refCount : Nat := 0
  isPendingSend : Bool := false
  sendFlow : FlowControl := {}
  requestedSendCapacity : Nat := 0
  bufferedSendData : Nat := 0
  sendTask : Option String := none
  openTask : Option String := none
  pendingSend : List SFrame := []
  isPendingSendCapacity : Bool := false
  sendCapacityInc : Bool := false
  isPendingOpen : Bool := false
  isPendingPush : Bool := false
  isPendingAccept : Bool := false
  recvFlow : FlowControl := {}
  inFlightRecvData : Nat := 0
  isPendingWindowUpdate : Bool := false
  resetAt : Bool := false
  pendingRecv : List REvent := []
  isRecv : Bool := true
  recvTask : Option String := none
  pushTask : Option String := none
  /-- `pending_push_promises: Queue<NextAccept>`: keys of the promised streams (their
      `is_pending_accept` flag is the queue's flag) -/
  pendingPushPromises : List Nat := []
  contentLength : ContentLength := .omitted
  deriving Repr

namespace Stream

/-- `Stream::new(id, init_send_window, init_recv_window)`; the `expect`s cannot fire for window
    sizes that passed SETTINGS validation (≤ 2^31-1) -/
def new (id initSendWindow initRecvWindow : Nat) : Stream :=
  let recvFlow := (FlowControl.new.incWindow initRecvWindow).1
  let recvFlow := (recvFlow.assignCapacity initRecvWindow).1
  let sendFlow := (FlowControl.new.incWindow initSendWindow).1
  { id := id, sendFlow := sendFlow, recvFlow := recvFlow }

/-- `Stream::is_pending_reset_expiration` -/
def isPendingResetExpiration (s : Stream) : Bool := s.resetAt

/-- `Stream::is_send_ready` -/
def isSendReady (s : Stream) : Bool := !s.isPendingOpen && !s.isPendingPush

/-- `Stream::is_closed` -/
def isClosed (s : Stream) : Bool :=
  s.state.isClosed && s.pendingSend.isEmpty && s.bufferedSendData == 0

/-- `Stream::is_released` -/
def isReleased (s : Stream) : Bool :=
  s.isClosed && s.refCount == 0 && !s.isPendingSend && !s.isPendingSendCapacity &&
  !s.isPendingAccept && !s.isPendingWindowUpdate && !s.isPendingOpen && !s.resetAt

/-- `Stream::is_canceled_interest` -/
def isCanceledInterest (s : Stream) : Bool := s.refCount == 0 && !s.state.isClosed

/-- `Stream::capacity(max_buffer_size)` -/
def capacity (s : Stream) (maxBufferSize : Nat) : Nat :=
  usizeAsU32 ((min s.sendFlow.available.asSize maxBufferSize) - s.bufferedSendData)

/-- `Stream::notify_send`: the stream and the tags woken -/
def notifySend (s : Stream) : Stream × List String :=
  let (s, w1) := match s.sendTask with
    | some t => ({ s with sendTask := none }, [t])
    | none => (s, [])
  match s.openTask with
  | some t => ({ s with openTask := none }, w1 ++ [t])
  | none => (s, w1)

/-- `Stream::notify_recv` -/
def notifyRecv (s : Stream) : Stream × List String :=
  match s.recvTask with
  | some t => ({ s with recvTask := none }, [t])
  | none => (s, [])

/-- `Stream::notify_push` -/
def notifyPush (s : Stream) : Stream × List String :=
  match s.pushTask with
  | some t => ({ s with pushTask := none }, [t])
  | none => (s, [])

/-- `Stream::notify_capacity` -/
def notifyCapacity (s : Stream) : Stream × List String :=
  ({ s with sendCapacityInc := true }).notifySend

/-- `Stream::assign_capacity(capacity, max_buffer_size)` (the `Result` of the flow call is dropped) -/
def assignCapacity (s : Stream) (capacity maxBufferSize : Nat) : Stream × List String :=
  let prev := s.capacity maxBufferSize
  let s1 := { s with sendFlow := (s.sendFlow.assignCapacity capacity).1 }
  if prev < s1.capacity maxBufferSize then s1.notifyCapacity else (s1, [])

/-- `Stream::send_data(len, max_buffer_size)`; the third component is `true` when the `assert!`
    inside `FlowControl::send_data` fired -/
def sendData (s : Stream) (len maxBufferSize : Nat) : Stream × List String × Bool :=
  let prev := s.capacity maxBufferSize
  let (fl, r) := s.sendFlow.sendData len
  let s1 := { s with sendFlow := fl,
                     bufferedSendData := wrapSubUsize s.bufferedSendData len,
                     requestedSendCapacity := wrapSubU32 s.requestedSendCapacity len }
  let (s2, w) := if prev < s1.capacity maxBufferSize then s1.notifyCapacity else (s1, [])
  (s2, w, match r with | .error .assertFailed => true | _ => false)

/-- `Stream::dec_content_length`: `none` = `Err(())` -/
def decContentLength (s : Stream) (len : Nat) : Option Stream :=
  match s.contentLength with
  | .remaining rem => if rem ≥ len then some { s with contentLength := .remaining (rem - len) } else none
  | .head => if len ≠ 0 then none else some s
  | .omitted => some s

/-- `Stream::ensure_content_length_zero().is_ok()` -/
def ensureContentLengthZero (s : Stream) : Bool :=
  match s.contentLength with
  | .remaining 0 => true
  | .remaining _ => false
  | _ => true

/-- `Stream::wait_open(cx)` -/
def waitOpen (s : Stream) (tag : String) : Stream := { s with openTask := some tag }

/-- `Stream::wait_send(cx)` -/
def waitSend (s : Stream) (tag : String) : Stream := { s with sendTask := some tag }

/-- `Stream::set_reset(reason, initiator)` -/
def setReset (s : Stream) (reason : Reason) (init : Initiator) : Stream × List String :=
  let s0 := { s with state := s.state.setReset s.id reason init }
  let (s1, w1) := s0.notifySend
  let (s2, w2) := s1.notifyPush
  let (s3, w3) := s2.notifyRecv
  (s3, w1 ++ w2 ++ w3)

end Stream

/-- `store::Store` -/
structure Store where
  slab : List Stream := []
  ids : List (Nat × Nat) := []      -- (stream id, key), in `IndexMap` index order
  nextKey : Nat := 0
  deriving Repr

namespace Store

/-- the slab entry behind a key (`Index<Key>`; a dangling key panics in the Rust) -/
def get? (st : Store) (k : Nat) : Option Stream := st.slab.find? (·.key == k)

/-- `Store::find_mut(id)` / `find_entry(id)`: the key the id map holds for a stream id -/
def findKey? (st : Store) (id : Nat) : Option Nat := (st.ids.find? (·.1 == id)).map (·.2)

def contains (st : Store) (id : Nat) : Bool := (st.findKey? id).isSome

def set (st : Store) (s : Stream) : Store :=
  { st with slab := st.slab.map fun x => if x.key == s.key then s else x }

/-- `Store::insert` / `VacantEntry::insert`: the store and the new key.
    (`Store::insert` asserts that the id was not mapped; `IndexMap::insert` on a mapped id would
    replace the value in place — modelled that way, the assert is checked by the caller.) -/
def insert (st : Store) (s : Stream) : Store × Nat :=
  let k := st.nextKey
  let ids := if st.ids.any (·.1 == s.id) then st.ids.map fun e => if e.1 == s.id then (s.id, k) else e
             else st.ids ++ [(s.id, k)]
  ({ slab := st.slab ++ [{ s with key := k }], ids := ids, nextKey := k + 1 }, k)

/-- `IndexMap::swap_remove(id)`: the last entry takes the place of the removed one -/
def swapRemove (ids : List (Nat × Nat)) (id : Nat) : List (Nat × Nat) :=
  match ids.findIdx? (·.1 == id) with
  | none => ids
  | some i =>
    match ids.getLast? with
    | none => ids
    | some last =>
      let init := ids.dropLast
      if i + 1 = ids.length then init else init.set i last

/-- `Ptr::unlink`: removes the id-map entry of the *stream id* (whatever key it maps to) -/
def unlink (st : Store) (id : Nat) : Store := { st with ids := swapRemove st.ids id }

/-- `Ptr::remove` (slab removal) -/
def remove (st : Store) (k : Nat) : Store := { st with slab := st.slab.filter (·.key != k) }

end Store

/-- `prioritize::InFlightData` -/
inductive InFlightData where
  | nothing
  | dataFrame (key : Nat)
  | drop
  deriving Repr, DecidableEq

/-- `prioritize::Prioritize` -/
structure Prioritize where
  pendingSend : List Nat := []
  pendingCapacity : List Nat := []
  pendingOpen : List Nat := []
  flow : FlowControl := {}
  inFlightDataFrame : InFlightData := .nothing
  maxBufferSize : Nat := Generated.Consts.DEFAULT_MAX_SEND_BUFFER_SIZE
  deriving Repr

/-- `send::Send` (`next_stream_id: Err(StreamIdOverflow)` is `none`) -/
structure Send where
  nextStreamId : Option Nat := some 1
  maxStreamId : Nat := 2147483647
  initWindowSz : Nat := Generated.Consts.DEFAULT_INITIAL_WINDOW_SIZE
  prioritize : Prioritize := {}
  isPushEnabled : Bool := true
  isExtendedConnectProtocolEnabled : Bool := false
  deriving Repr

/-- `recv::Recv`; `resetDurationZero` stands for `reset_duration` (only "zero or not" matters to the
    model, see the driver) -/
structure Recv where
  initWindowSz : Nat := Generated.Consts.DEFAULT_INITIAL_WINDOW_SIZE
  flow : FlowControl := {}
  inFlightData : Nat := 0
  nextStreamId : Option Nat := some 2
  lastProcessedId : Nat := 0
  maxStreamId : Nat := 2147483647
  pendingWindowUpdates : List Nat := []
  pendingAccept : List Nat := []
  pendingResetExpired : List Nat := []
  resetDurationZero : Bool := false
  refused : Option Nat := none
  isPushEnabled : Bool := true
  isExtendedConnectProtocolEnabled : Bool := false
  deriving Repr

/-- `streams::Actions` -/
structure Actions where
  recv : Recv := {}
  send : Send := {}
  task : Option String := none
  connError : Option PErr := none
  deriving Repr

/-- `streams::Inner` + the shared `SendBuffer` (implicit in the streams' `pendingSend` lists) +
    model bookkeeping: the wake log and the first panic -/
structure Streams where
  counts : Counts := {}
  actions : Actions := {}
  store : Store := {}
  refs : Nat := 1
  /-- entries of `recv.buffer`'s slab that belonged to streams already removed from the store (a
      removed stream's `pending_recv` is never drained: the entries stay in the slab for ever) -/
  recvBufferLeaked : Nat := 0
  wakes : List String := []
  panicked : Option String := none
  /-- set when the model meets an input it does not cover -/
  unsupported : Option String := none
  deriving Repr

/-- the six intrusive queues -/
inductive QName where
  | pendingSend | pendingCapacity | pendingOpen | pendingWindowUpdates | pendingAccept | pendingResetExpired
  deriving Repr, DecidableEq

/-- `Next::is_queued` -/
def Stream.isQueued (s : Stream) : QName → Bool
  | .pendingSend => s.isPendingSend
  | .pendingCapacity => s.isPendingSendCapacity
  | .pendingOpen => s.isPendingOpen
  | .pendingWindowUpdates => s.isPendingWindowUpdate
  | .pendingAccept => s.isPendingAccept
  | .pendingResetExpired => s.resetAt

/-- `Next::set_queued` -/
def Stream.setQueued (s : Stream) (q : QName) (v : Bool) : Stream :=
  match q with
  | .pendingSend => { s with isPendingSend := v }
  | .pendingCapacity => { s with isPendingSendCapacity := v }
  | .pendingOpen => { s with isPendingOpen := v }
  | .pendingWindowUpdates => { s with isPendingWindowUpdate := v }
  | .pendingAccept => { s with isPendingAccept := v }
  | .pendingResetExpired => { s with resetAt := v }

namespace Streams

def panic (s : Streams) (msg : String) : Streams :=
  match s.panicked with
  | some _ => s
  | none => { s with panicked := some msg }

def unsup (s : Streams) (msg : String) : Streams :=
  match s.unsupported with
  | some _ => s
  | none => { s with unsupported := some msg }

def wake (s : Streams) (tags : List String) : Streams := { s with wakes := s.wakes ++ tags }

/-- `task.take().wake()` on `actions.task` -/
def notifyTask (s : Streams) : Streams :=
  match s.actions.task with
  | some t => { s with actions := { s.actions with task := none }, wakes := s.wakes ++ [t] }
  | none => s

/-- `store.resolve(key)` then deref; a dangling key (a panic in the Rust) yields a blank stream -/
def stream (s : Streams) (k : Nat) : Stream := (s.store.get? k).getD { key := k, id := 0 }

def setStream (s : Streams) (st : Stream) : Streams := { s with store := s.store.set st }

def modStream (s : Streams) (id : Nat) (f : Stream → Stream) : Streams :=
  match s.store.get? id with
  | some st => s.setStream (f st)
  | none => s.panic s!"dangling store key {id}"

/-- apply a stream method that may wake tasks -/
def modStreamW (s : Streams) (id : Nat) (f : Stream → Stream × List String) : Streams :=
  match s.store.get? id with
  | some st => let (st', w) := f st; (s.setStream st').wake w
  | none => s.panic s!"dangling store key {id}"

def prio (s : Streams) : Prioritize := s.actions.send.prioritize
def modPrio (s : Streams) (f : Prioritize → Prioritize) : Streams :=
  { s with actions := { s.actions with send := { s.actions.send with prioritize := f s.actions.send.prioritize } } }
def modSend (s : Streams) (f : Send → Send) : Streams :=
  { s with actions := { s.actions with send := f s.actions.send } }
def recv (s : Streams) : Recv := s.actions.recv
def modRecv (s : Streams) (f : Recv → Recv) : Streams :=
  { s with actions := { s.actions with recv := f s.actions.recv } }
def modCounts (s : Streams) (f : Counts → Counts) : Streams := { s with counts := f s.counts }

/-- apply a `Counts` method whose `assert!` may fire -/
def modCountsA (s : Streams) (what : String) (f : Counts → Option Counts) : Streams :=
  match f s.counts with
  | some c => { s with counts := c }
  | none => s.panic ("assertion failed: " ++ what)

def getQ (s : Streams) : QName → List Nat
  | .pendingSend => s.prio.pendingSend
  | .pendingCapacity => s.prio.pendingCapacity
  | .pendingOpen => s.prio.pendingOpen
  | .pendingWindowUpdates => s.recv.pendingWindowUpdates
  | .pendingAccept => s.recv.pendingAccept
  | .pendingResetExpired => s.recv.pendingResetExpired

def setQ (s : Streams) (q : QName) (l : List Nat) : Streams :=
  match q with
  | .pendingSend => s.modPrio fun p => { p with pendingSend := l }
  | .pendingCapacity => s.modPrio fun p => { p with pendingCapacity := l }
  | .pendingOpen => s.modPrio fun p => { p with pendingOpen := l }
  | .pendingWindowUpdates => s.modRecv fun r => { r with pendingWindowUpdates := l }
  | .pendingAccept => s.modRecv fun r => { r with pendingAccept := l }
  | .pendingResetExpired => s.modRecv fun r => { r with pendingResetExpired := l }

/-- `Queue::push(stream)`: `false` when the stream is already queued -/
def qPush (s : Streams) (q : QName) (id : Nat) : Streams × Bool :=
  if (s.stream id).isQueued q then (s, false)
  else (((s.modStream id fun st => st.setQueued q true).setQ q (s.getQ q ++ [id])), true)

/-- `Queue::push_front(stream)` -/
def qPushFront (s : Streams) (q : QName) (id : Nat) : Streams × Bool :=
  if (s.stream id).isQueued q then (s, false)
  else (((s.modStream id fun st => st.setQueued q true).setQ q (id :: s.getQ q)), true)

/-- `Queue::pop(store)` -/
def qPop (s : Streams) (q : QName) : Streams × Option Nat :=
  match s.getQ q with
  | [] => (s, none)
  | id :: rest => (((s.setQ q rest).modStream id fun st => st.setQueued q false), some id)

/-- `Counts::inc_num_send_streams(stream)` -/
def incNumSendStreams (s : Streams) (id : Nat) : Streams :=
  let s := if s.counts.canIncNumSendStreams then s else s.panic "assertion failed: self.can_inc_num_send_streams()"
  let s := if (s.stream id).isCounted then s.panic "assertion failed: !stream.is_counted" else s
  (s.modCounts fun c => { c with numSendStreams := c.numSendStreams + 1 }).modStream id fun st => { st with isCounted := true }

/-- `Counts::inc_num_recv_streams(stream)` -/
def incNumRecvStreams (s : Streams) (id : Nat) : Streams :=
  let s := if s.counts.canIncNumRecvStreams then s else s.panic "assertion failed: self.can_inc_num_recv_streams()"
  let s := if (s.stream id).isCounted then s.panic "assertion failed: !stream.is_counted" else s
  (s.modCounts fun c => { c with numRecvStreams := c.numRecvStreams + 1 }).modStream id fun st => { st with isCounted := true }

/-- `Counts::dec_num_streams(stream)` -/
def decNumStreams (s : Streams) (id : Nat) : Streams :=
  let s := if (s.stream id).isCounted then s else s.panic "assertion failed: stream.is_counted"
  if s.counts.isLocalInit (s.stream id).id then
    let s := if s.counts.numSendStreams > 0 then s else s.panic "assertion failed: self.num_send_streams > 0"
    (s.modCounts fun c => { c with numSendStreams := c.numSendStreams - 1 }).modStream id fun st => { st with isCounted := false }
  else
    let s := if s.counts.numRecvStreams > 0 then s else s.panic "assertion failed: self.num_recv_streams > 0"
    (s.modCounts fun c => { c with numRecvStreams := c.numRecvStreams - 1 }).modStream id fun st => { st with isCounted := false }

/-- `Counts::transition_after(stream, is_reset_counted)` -/
def transitionAfter (s : Streams) (id : Nat) (isResetCounted : Bool) : Streams :=
  let st := s.stream id
  -- the stream left the reset expiration queue during this transition (closed yet or not)
  let s :=
    if isResetCounted && !st.isPendingResetExpiration then
      s.modCountsA "self.num_local_reset_streams > 0" Counts.decNumResetStreams
    else s
  let s :=
    if st.isClosed then
      let s := if !st.isPendingResetExpiration then { s with store := s.store.unlink st.id } else s
      if !st.state.isScheduledReset && st.isCounted then s.decNumStreams id else s
    else s
  if (s.stream id).isReleased then
    -- a stream that is forgotten does not keep its concurrency slot
    let s := if (s.stream id).isCounted then s.decNumStreams id else s
    { s with store := s.store.remove id, recvBufferLeaked := s.recvBufferLeaked + (s.stream id).pendingRecv.length }
  else s

/-- number of entries of the shared send `Buffer` slab (`SB:`) -/
def sendBufferLen (s : Streams) : Nat := s.store.slab.foldl (fun n st => n + st.pendingSend.length) 0

/-- number of entries of `recv.buffer`'s slab (`B:`) -/
def recvBufferLen (s : Streams) : Nat :=
  s.store.slab.foldl (fun n st => n + st.pendingRecv.length) s.recvBufferLeaked

end Streams

end H2V.Model.Conn
