import H2V.Model.CodecRead
import H2V.Model.HpackEnc
import H2V.Model.ConnFlow
/-
  Connection-level model, part 5 — the codec as the connection sees it.

  Write side: an abstraction of `src/codec/framed_write.rs` in which the octets of the write buffer
  are replaced by their *count per frame* (`Seg`): what matters to the stream layer is when a frame
  can be buffered (`has_capacity`: `next` empty and `capacity - len ≥ chain_threshold + 9`), how many
  octets a flush gets rid of under the transport's byte budget, when a frame is complete on the wire
  (the harness's scanner reports a frame with its last octet), and which DATA frame comes back through
  `take_last_data_frame`.  The octet-exact encoder is `H2V.Model.CodecWrite`; header blocks are
  encoded with `H2V.Model.Hpack.Encoder` so that lengths (and the dynamic table) are exact.
  Header blocks longer than the peer's max frame size (CONTINUATION) set `unsupported`.

  Read side: `H2V.Model.CodecRead.Reader` fed from the scripted transport, one frame per `poll_next`.

  Transport: the harness's `Tio` (read queue, write byte budget, the two wakers, shutdown flag) and
  its `Scanner` position (`partialOctets` = octets of an incomplete frame already on the wire).
-/
namespace H2V.Model.Conn
open H2V H2V.Model

/-- octets of the write buffer belonging to one frame; `done` = the rendered frame that the last
    octet of this segment completes -/
structure Seg where
  bytes : Nat
  done : Option String
  deriving Repr, DecidableEq

/-- a DATA frame as the encoder keeps it (`frame::Data<Prioritized<B>>`): its stream (store key and id), the octets of
    the user's buffer that lie *behind* the chunk being sent (`inner.get_ref().remaining()` once the
    chunk is written) and `Prioritized::end_of_stream` -/
structure DataFrame where
  key : Nat
  sid : Nat
  rest : Nat
  eos : Bool
  deriving Repr, DecidableEq

/-- `Next::Data`: payload octets not yet accepted by the transport, the rendering of the frame -/
structure NextData where
  remaining : Nat
  render : String
  frame : DataFrame
  deriving Repr, DecidableEq

/-- `FramedWrite` + `Encoder` -/
structure Writer where
  buf : List Seg := []            -- the cursor view of `buf`: not yet written
  bufLen : Nat := 0               -- `buf.get_ref().len()`
  cap : Nat := Generated.Consts.DEFAULT_BUFFER_CAPACITY
  next : Option NextData := none
  lastDataFrame : Option DataFrame := none
  maxFrameSize : Nat := Generated.Consts.DEFAULT_MAX_FRAME_SIZE
  chainThreshold : Nat := Generated.Consts.CHAIN_THRESHOLD_WITHOUT_VECTORED_IO
  hpack : Hpack.Encoder := Hpack.Encoder.new Generated.Consts.DEFAULT_SETTINGS_HEADER_TABLE_SIZE
  finalFlushDone : Bool := false
  unsupported : Bool := false
  deriving Repr

/-- the scripted transport `Tio` and the scanner position -/
structure Tio where
  rd : Bytes := []
  eof : Bool := false
  rdErr : Option String := none     -- `io::ErrorKind` every read answers once `rd` is drained
  wrErr : Option String := none     -- `io::ErrorKind` every write answers
  budget : Option Nat := none
  shutdownCalled : Bool := false
  readWaker : Option String := none
  writeWaker : Option String := none
  partialOctets : Nat := 0
  tx : List String := []          -- frames completed on the wire since the op started
  deriving Repr

namespace Writer

def minBufferCapacity (w : Writer) : Nat := w.chainThreshold + Generated.Consts.HEADER_LEN

/-- `Encoder::has_capacity` -/
def hasCapacity (w : Writer) : Bool :=
  w.next.isNone && decide (w.cap - w.bufLen ≥ w.minBufferCapacity)

def bufRemaining (w : Writer) : Nat := w.buf.foldl (fun n s => n + s.bytes) 0

/-- append `n` octets to the `BytesMut` (capacity grows like a `Vec`: amortised doubling) -/
def put (w : Writer) (seg : Seg) : Writer :=
  let len := w.bufLen + seg.bytes
  { w with buf := w.buf ++ [seg], bufLen := len, cap := if len > w.cap then max (2 * w.cap) len else w.cap }

/-- `Encoder::is_empty` -/
def isEmpty (w : Writer) : Bool :=
  match w.next with
  | some n => n.remaining == 0
  | none => w.bufRemaining == 0

def renderData (sid : Nat) (eos : Bool) (len : Nat) : String :=
  s!"D:{sid}:{if eos then 1 else 0}:{len}"

/-- `Encoder::buffer(Frame::Data(v))`: `len` octets of `frame`'s buffer go out now with the
    END_STREAM flag `flagEos`; `none` = `Err(PayloadTooBig)` (which `buffer_pending` `expect`s away) -/
def bufferData (w : Writer) (len : Nat) (flagEos : Bool) (frame : DataFrame) : Option Writer :=
  if len > w.maxFrameSize then none
  else
    let r := renderData frame.sid flagEos len
    if len ≥ w.chainThreshold then
      let w1 := w.put { bytes := Generated.Consts.HEADER_LEN, done := none }
      if w1.bufLen < w.chainThreshold then
        let extra := w.chainThreshold - w1.bufRemaining
        let w2 := w1.put { bytes := extra, done := none }
        some { w2 with next := some { remaining := len - extra, render := r, frame := frame } }
      else some { w1 with next := some { remaining := len, render := r, frame := frame } }
    else
      some { (w.put { bytes := Generated.Consts.HEADER_LEN + len, done := some r }) with lastDataFrame := some frame }

/-- `Encoder::buffer` of a fixed-shape frame of `payloadLen` octets -/
def bufferSimple (w : Writer) (payloadLen : Nat) (render : String) : Writer :=
  w.put { bytes := Generated.Consts.HEADER_LEN + payloadLen, done := some render }

def renderFields (fs : List Hpack.Field) : String :=
  if fs.isEmpty then "-" else ",".intercalate (fs.map fun f => Hex.ofBytes f.h.1 ++ "=" ++ Hex.ofBytes f.h.2)

/-- `Encoder::buffer(Frame::Headers(v))` -/
def bufferHeaders (w : Writer) (sid : Nat) (eos : Bool) (fields : List Hpack.Field) : Writer :=
  match w.hpack.encode fields with
  | some (e', block) =>
    let w := { w with hpack := e' }
    let flags := 4 + (if eos then 1 else 0)
    let w := if block.length > w.maxFrameSize then { w with unsupported := true } else w
    w.put { bytes := Generated.Consts.HEADER_LEN + block.length,
            done := some s!"H:{sid}:{flags}:{block.length}:{renderFields fields}" }
  | none => { w with unsupported := true }

/-- `Encoder::buffer(Frame::PushPromise(v))`: the promised id (4 octets) precedes the block -/
def bufferPushPromise (w : Writer) (sid promised : Nat) (fields : List Hpack.Field) : Writer :=
  match w.hpack.encode fields with
  | some (e', block) =>
    let w := { w with hpack := e' }
    let w := if 4 + block.length > w.maxFrameSize then { w with unsupported := true } else w
    w.put { bytes := Generated.Consts.HEADER_LEN + 4 + block.length,
            done := some s!"PP:{sid}:{promised}:{4 + block.length}:{renderFields fields}" }
  | none => { w with unsupported := true }

/-- `Encoder::unset_frame` (no CONTINUATION in this abstraction) -/
def unsetFrame (w : Writer) : Writer :=
  let w := { w with buf := [], bufLen := 0 }
  match w.next with
  | some n => { w with next := none, lastDataFrame := some n.frame }
  | none => w

/-- `FramedWrite::take_last_data_frame` -/
def takeLastDataFrame (w : Writer) : Writer × Option DataFrame :=
  ({ w with lastDataFrame := none }, w.lastDataFrame)

end Writer

/-- hand `n` octets of the segment list to the transport: remaining segments, frames completed,
    octets of the trailing incomplete frame -/
def writeSegs : List Seg → Nat → Nat → List String → List Seg × Nat × List String
  | [], _, part, out => ([], part, out)
  | seg :: rest, n, part, out =>
    if n = 0 then (seg :: rest, part, out)
    else if n ≥ seg.bytes then
      match seg.done with
      | some r => writeSegs rest (n - seg.bytes) 0 (out ++ [r])
      | none => writeSegs rest (n - seg.bytes) (part + seg.bytes) out
    else ({ seg with bytes := seg.bytes - n } :: rest, part + n, out)

/-- `Poll<io::Result<()>>` of the write half -/
inductive WRes where
  | ready
  | pending
  | err (kind : String)
  deriving Repr, DecidableEq

/-- `FramedWrite::flush` against the transport's byte budget and error switch.  On `Pending` the
    transport keeps the waker `tag`.  Zero-length segments (a frame needs at least its 9 octets, so
    there are none) would not be written by the Rust either. -/
def flush (w : Writer) (io : Tio) (tag : String) : Writer × Tio × WRes :=
  let total := w.bufRemaining + (match w.next with | some n => n.remaining | none => 0)
  if total > 0 && io.wrErr.isSome then (w, io, .err (io.wrErr.getD ""))
  else
    let n := match io.budget with | none => total | some k => min k total
    let nBuf := min n w.bufRemaining
    let (buf', part, out) := writeSegs w.buf nBuf io.partialOctets []
    let nNext := n - nBuf
    let (next', part, out) :=
      match w.next with
      | some nd =>
        if nNext = 0 then (some nd, part, out)
        else if nNext ≥ nd.remaining then (some { nd with remaining := 0 }, 0, out ++ [nd.render])
        else (some { nd with remaining := nd.remaining - nNext }, part + nNext, out)
      | none => (none, part, out)
    let io := { io with budget := io.budget.map (· - n), partialOctets := part, tx := io.tx ++ out }
    let w := { w with buf := buf', next := next' }
    if n < total then (w, { io with writeWaker := some tag }, .pending)
    else (w.unsetFrame, io, .ready)

/-- `FramedWrite::poll_ready` -/
def pollReadyW (w : Writer) (io : Tio) (tag : String) : Writer × Tio × WRes :=
  if !w.hasCapacity then
    match flush w io tag with
    | (w, io, .ready) => (w, io, if w.hasCapacity then .ready else .pending)
    | r => r
  else (w, io, .ready)

/-- `FramedWrite::shutdown` (`poll_shutdown` of the harness transport is always ready) -/
def shutdownW (w : Writer) (io : Tio) (tag : String) : Writer × Tio × WRes :=
  let (w, io, r) := if !w.finalFlushDone then
      match flush w io tag with
      | (w, io, .ready) => ({ w with finalFlushDone := true }, io, WRes.ready)
      | r => r
    else (w, io, .ready)
  match r with
  | .ready => (w, { io with shutdownCalled := true }, .ready)
  | r => (w, io, r)

/-- the codec: writer, reader, transport; `hasErrored` / `eofSeen` are the flags of tokio-util's
    `FramedRead` state machine (`has_errored`, `eof`) -/
structure Codec where
  w : Writer := {}
  r : CodecRead.Reader := CodecRead.Reader.new Generated.Consts.DEFAULT_MAX_FRAME_SIZE
  io : Tio := {}
  hasErrored : Bool := false
  eofSeen : Bool := false
  deriving Repr

/-- what `Codec::poll_next` yields -/
inductive Polled where
  | pending
  | frame (f : Frame.Frame)
  | err (e : CodecRead.RErr)
  | ioErr (kind : String) (msg : Option String)
  | eof
  deriving Repr

/-- `FramedRead::poll_next` (h2's, on top of tokio-util's): everything the transport holds is moved
    into the reassembly buffer, then one frame at a time is decoded (`Reader.drain` with one unit of
    fuel; frames that decode to nothing — unknown types, header fragments — are skipped by the
    loop).  When no complete frame is left: read error, end of input (`decode_eof`: leftover octets
    are an error), or `Pending`.  After an error of the byte-level decoder or of the transport the
    next call answers end-of-stream once (`has_errored`). -/
def pollNext : Nat → Codec → String → Codec × Polled
  | 0, c, _ => (c, .pending)
  | fuel + 1, c, tag =>
    if c.hasErrored then ({ c with hasErrored := false }, .eof)
    else
      let r0 := { c.r with buf := c.r.buf ++ c.io.rd }
      let c := { c with r := r0, eofSeen := if c.io.rd.isEmpty then c.eofSeen else false, io := { c.io with rd := [] } }
      let (r1, items, _) := CodecRead.Reader.drain 1 r0 []
      let c1 := { c with r := r1 }
      match items with
      | .frame f :: _ => (c1, .frame f)
      | .err e :: _ =>
        -- a frame longer than the maximum is an error of `LengthDelimitedCodec` itself
        let lengthError := match e with | .goAway code _ => code == CodecRead.FRAME_SIZE_ERROR | _ => false
        ({ c1 with hasErrored := lengthError }, .err e)
      | [] =>
        if r1.buf.length < r0.buf.length then pollNext fuel c1 tag
        else match c.io.rdErr with
          | some kind => ({ c1 with hasErrored := true }, .ioErr kind none)
          | none =>
            if c.io.eof then
              if c1.eofSeen then (c1, .eof)
              else if r1.buf.isEmpty then ({ c1 with eofSeen := true }, .eof)
              else ({ c1 with eofSeen := true, hasErrored := true }, .ioErr "Other" (some "bytes remaining on stream"))
            else ({ c1 with io := { c1.io with readWaker := some tag } }, .pending)

end H2V.Model.Conn
