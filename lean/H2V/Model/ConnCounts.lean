import H2V.Model.ConnState
/-
  Connection-level model, part 3 — mirror of `src/proto/streams/counts.rs` as far as it does not
  touch a stream (`transition`, `transition_after`, `inc_num_*_streams(stream)`, `dec_num_streams`
  need the store and live in `ConnStore.lean`).
  `usize::MAX` is the number `USIZE_MAX`; an `assert!` that fails is `none`.
-/
namespace H2V.Model.Conn
open H2V

/-- `counts::Budget` -/
structure Budget where
  available : Nat
  max : Nat
  deriving Repr, DecidableEq

def Budget.new (max : Nat) : Budget := { available := max, max := max }

/-- `Budget::consume`: `none` = `Err(BudgetExhausted)` (the budget is left untouched) -/
def Budget.consume (b : Budget) (amount : Nat) : Option Budget :=
  if b.available ≥ amount then some { b with available := b.available - amount } else none

/-- `Budget::replenish` (`saturating_add` then `min(max)`) -/
def Budget.replenish (b : Budget) (amount : Nat) : Budget :=
  { b with available := min (min (b.available + amount) USIZE_MAX) b.max }

/-- `counts::Counts` (`peer` is the flag `isServer`) -/
structure Counts where
  isServer : Bool := false
  maxSendStreams : Nat := USIZE_MAX
  numSendStreams : Nat := 0
  maxRecvStreams : Nat := USIZE_MAX
  numRecvStreams : Nat := 0
  maxLocalResetStreams : Nat := Generated.Consts.DEFAULT_RESET_STREAM_MAX
  numLocalResetStreams : Nat := 0
  maxRemoteResetStreams : Nat := Generated.Consts.DEFAULT_REMOTE_RESET_STREAM_MAX
  numRemoteResetStreams : Nat := 0
  maxLocalErrorResetStreams : Option Nat := some Generated.Consts.DEFAULT_LOCAL_RESET_COUNT_MAX
  numLocalErrorResetStreams : Nat := 0
  dataFrameBudget : Budget := Budget.new Generated.Consts.DEFAULT_DATA_FRAME_BUDGET
  numRecvEmptyDataFrames : Nat := 0
  deriving Repr, DecidableEq

namespace Counts

/-- `peer::Dyn::is_local_init` (`id` non-zero; an id is server initiated iff it is even) -/
def isLocalInit (c : Counts) (id : Nat) : Bool := c.isServer == (id % 2 == 0)

/-- `Counts::record_data_frame`: `none` = `Err(BudgetExhausted)`.
    NOTE the empty-frame counter is incremented *before* the limit check, so it stays incremented
    when the check fails. -/
def recordDataFrame (c : Counts) (payloadLen : Nat) : Counts × Bool :=
  let thr := Generated.Consts.DEFAULT_DATA_FRAME_OVERHEAD_THRESHOLD
  if payloadLen = 0 then
    if c.numRecvEmptyDataFrames ≥ USIZE_MAX then (c, false)
    else
      let c1 := { c with numRecvEmptyDataFrames := c.numRecvEmptyDataFrames + 1 }
      (c1, decide (c1.numRecvEmptyDataFrames ≤ Generated.Consts.MAX_RECV_EMPTY_DATA_FRAMES))
  else if payloadLen < thr then
    match c.dataFrameBudget.consume (thr - payloadLen) with
    | some b => ({ c with dataFrameBudget := b }, true)
    | none => (c, false)
  else ({ c with dataFrameBudget := c.dataFrameBudget.replenish (payloadLen - thr) }, true)

/-- `Counts::release_data_frame` -/
def releaseDataFrame (c : Counts) (payloadLen : Nat) : Counts :=
  let thr := Generated.Consts.DEFAULT_DATA_FRAME_OVERHEAD_THRESHOLD
  if payloadLen ≠ 0 ∧ payloadLen < thr then
    { c with dataFrameBudget := c.dataFrameBudget.replenish (thr - payloadLen) }
  else c

/-- `Counts::next_send_stream_will_reach_capacity` (`num + 1` wraps like `usize`) -/
def nextSendStreamWillReachCapacity (c : Counts) : Bool :=
  decide (c.maxSendStreams ≤ (c.numSendStreams + 1) % USIZE_MOD)

/-- `Counts::has_streams` -/
def hasStreams (c : Counts) : Bool := c.numSendStreams != 0 || c.numRecvStreams != 0

/-- `Counts::can_inc_num_local_error_resets` -/
def canIncNumLocalErrorResets (c : Counts) : Bool :=
  match c.maxLocalErrorResetStreams with
  | some m => decide (m > c.numLocalErrorResetStreams)
  | none => true

/-- `Counts::inc_num_local_error_resets` (`none` = the `assert!`) -/
def incNumLocalErrorResets (c : Counts) : Option Counts :=
  if c.canIncNumLocalErrorResets then some { c with numLocalErrorResetStreams := c.numLocalErrorResetStreams + 1 } else none

/-- `Counts::can_inc_num_recv_streams` -/
def canIncNumRecvStreams (c : Counts) : Bool := decide (c.maxRecvStreams > c.numRecvStreams)

/-- `Counts::can_inc_num_send_streams` -/
def canIncNumSendStreams (c : Counts) : Bool := decide (c.maxSendStreams > c.numSendStreams)

/-- `Counts::can_inc_num_reset_streams` -/
def canIncNumResetStreams (c : Counts) : Bool := decide (c.maxLocalResetStreams > c.numLocalResetStreams)

/-- `Counts::inc_num_reset_streams` (`none` = the `assert!`) -/
def incNumResetStreams (c : Counts) : Option Counts :=
  if c.canIncNumResetStreams then some { c with numLocalResetStreams := c.numLocalResetStreams + 1 } else none

/-- `Counts::can_inc_num_remote_reset_streams` -/
def canIncNumRemoteResetStreams (c : Counts) : Bool := decide (c.maxRemoteResetStreams > c.numRemoteResetStreams)

/-- `Counts::inc_num_remote_reset_streams` -/
def incNumRemoteResetStreams (c : Counts) : Option Counts :=
  if c.canIncNumRemoteResetStreams then some { c with numRemoteResetStreams := c.numRemoteResetStreams + 1 } else none

/-- `Counts::dec_num_remote_reset_streams` -/
def decNumRemoteResetStreams (c : Counts) : Option Counts :=
  if c.numRemoteResetStreams > 0 then some { c with numRemoteResetStreams := c.numRemoteResetStreams - 1 } else none

/-- `Counts::apply_remote_settings` (`val` = SETTINGS_MAX_CONCURRENT_STREAMS of the frame, if present) -/
def applyRemoteSettings (c : Counts) (maxConcurrent : Option Nat) (isInitial : Bool) : Counts :=
  match maxConcurrent with
  | some v => { c with maxSendStreams := v }
  | none => if isInitial then { c with maxSendStreams := USIZE_MAX } else c

/-- `Counts::dec_num_reset_streams` (`none` = the `assert!`) -/
def decNumResetStreams (c : Counts) : Option Counts :=
  if c.numLocalResetStreams > 0 then some { c with numLocalResetStreams := c.numLocalResetStreams - 1 } else none

end Counts

end H2V.Model.Conn
