import H2V.Model.Frame
/-
  A5 (part 2) — mirror of `src/codec/framed_read.rs` (`decode_frame`, `Partial`, CONTINUATION
  bookkeeping) on top of a model of tokio-util's `LengthDelimitedCodec` as configured by
  `Codec::with_max_recv_frame_size` (3-octet big-endian length, +9 adjustment, header kept).
  The tokio-util reassembler is *modelled, not verified* (trusted base).
-/
namespace H2V.Model.CodecRead
open H2V H2V.Model.Hpack H2V.Model.Frame

/-- `proto::Error` as produced by the read path -/
inductive RErr where
  | goAway (code : Nat) (debug : String)
  | reset (sid code : Nat)
  | io (what : String)
  deriving Repr, DecidableEq

def PROTOCOL_ERROR : Nat := 1
def FRAME_SIZE_ERROR : Nat := 6
def COMPRESSION_ERROR : Nat := 9
def ENHANCE_YOUR_CALM : Nat := 11

inductive Continuable where
  | headers (sid : Nat) (eos : Bool) (dep : Option (Nat × Nat × Bool)) (blk : HeaderBlock)
  | pushPromise (sid promised : Nat) (blk : HeaderBlock)
  deriving Repr, DecidableEq

def Continuable.sid : Continuable → Nat
  | .headers sid .. => sid
  | .pushPromise sid .. => sid

def Continuable.blk : Continuable → HeaderBlock
  | .headers _ _ _ b => b
  | .pushPromise _ _ b => b

def Continuable.setBlk : Continuable → HeaderBlock → Continuable
  | .headers s e d _, b => .headers s e d b
  | .pushPromise s p _, b => .pushPromise s p b

def Continuable.toFrame : Continuable → Frame
  | .headers s e d b => .headers s e d b
  | .pushPromise s p b => .pushPromise s p b

structure Partial where
  frame : Continuable
  buf : Bytes
  count : Nat
  deriving Repr, DecidableEq

structure Reader where
  buf : Bytes := []                -- bytes read from the transport, not yet framed
  need : Option Nat := none        -- `DecodeState::Data(n)`: total octets of the frame being awaited
  maxFrameLen : Nat := Generated.Consts.DEFAULT_MAX_FRAME_SIZE
  hpack : Decoder := Decoder.new Generated.Consts.DEFAULT_SETTINGS_HEADER_TABLE_SIZE
  maxHeaderListSize : Nat := Generated.Consts.DEFAULT_SETTINGS_MAX_HEADER_LIST_SIZE
  maxContinuationFrames : Nat := 0
  partialBlk : Option Partial := none
  deriving Repr

/-- `calc_max_continuation_frames` -/
def calcMaxContinuationFrames (headerMax frameMax : Nat) : Nat :=
  let minFrames := max (headerMax / frameMax) 1
  max (minFrames + minFrames / 4) 5

def Reader.new (maxFrame : Nat) : Reader :=
  { maxFrameLen := maxFrame,
    maxContinuationFrames := calcMaxContinuationFrames Generated.Consts.DEFAULT_SETTINGS_MAX_HEADER_LIST_SIZE maxFrame }

def Reader.setMaxFrameSize (r : Reader) (v : Nat) : Reader :=
  { r with maxFrameLen := v, maxContinuationFrames := calcMaxContinuationFrames r.maxHeaderListSize v }

def Reader.setMaxHeaderListSize (r : Reader) (v : Nat) : Reader :=
  { r with maxHeaderListSize := v, maxContinuationFrames := calcMaxContinuationFrames v r.maxFrameLen }

/-- result of `decode_frame` -/
inductive DF where
  | frame (f : Frame)
  | none                 -- partial header block stored, or unknown frame type ignored
  | err (e : RErr)
  deriving Repr

def connErr : DF := .err (.goAway PROTOCOL_ERROR "")

/-- the `header_block!` macro / the CONTINUATION tail: interpret the result of `load_hpack` -/
def afterHpack (r : Reader) (c : Continuable) (tail : Bytes) (count : Nat) (endHeaders : Bool)
    (sid : Nat) (res : Except FErr Unit) : Reader × DF :=
  let cont : Reader × DF :=
    if endHeaders then ({ r with partialBlk := none }, .frame c.toFrame)
    else ({ r with partialBlk := some { frame := c, buf := tail, count := count } }, .none)
  match res with
  | .ok _ => cont
  | .error (.hpack e) => if e.isNeedMore ∧ ¬ endHeaders then cont else ({ r with partialBlk := none }, connErr)
  | .error .malformedMessage => ({ r with partialBlk := none }, .err (.reset sid PROTOCOL_ERROR))
  | .error .headerListWayTooLarge => ({ r with partialBlk := none }, .err (.goAway ENHANCE_YOUR_CALM "header_list_way_too_large"))
  | .error _ => ({ r with partialBlk := none }, connErr)

/-- `decode_frame(hpack, max_header_list_size, max_continuation_frames, partial, bytes)` on one complete frame -/
def decodeFrame (r : Reader) (bytes : Bytes) : Reader × DF :=
  let head := Head.parse bytes
  let payload := bytes.drop 9
  if r.partialBlk.isSome ∧ head.kind ≠ 9 then (r, connErr)
  else
    let simple := fun (x : Except FErr Frame) => match x with
      | .ok f => (r, DF.frame f)
      | .error _ => (r, connErr)
    match head.kind with
    | 4 => simple (loadSettings head payload)
    | 6 => simple (loadPing head payload)
    | 8 => simple (loadWindowUpdate head payload)
    | 0 => simple (loadData head payload)
    | 3 => simple (loadReset head payload)
    | 7 => if head.sid ≠ 0 then (r, connErr) else simple (loadGoAway payload)
    | 2 =>
      if head.sid = 0 then (r, connErr)
      else match loadPriority head payload with
        | .ok f => (r, .frame f)
        | .error .invalidDependencyId => (r, .err (.reset head.sid PROTOCOL_ERROR))
        | .error _ => (r, connErr)
    | 1 =>
      match loadHeadersHead head payload with
      | .error .invalidDependencyId => (r, .err (.reset head.sid PROTOCOL_ERROR))
      | .error _ => (r, connErr)
      | .ok (sid, eos, endHeaders, dep, frag) =>
        let (blk, dec, tail, res) := HeaderBlock.load {} frag r.maxHeaderListSize r.hpack
        afterHpack { r with hpack := dec } (.headers sid eos dep blk) tail 0 endHeaders head.sid res
    | 5 =>
      match loadPushPromiseHead head payload with
      | .error .invalidDependencyId => (r, .err (.reset head.sid PROTOCOL_ERROR))
      | .error _ => (r, connErr)
      | .ok (sid, promised, endHeaders, frag) =>
        let (blk, dec, tail, res) := HeaderBlock.load {} frag r.maxHeaderListSize r.hpack
        afterHpack { r with hpack := dec } (.pushPromise sid promised blk) tail 0 endHeaders head.sid res
    | 9 =>
      let endHeaders := head.flag &&& 4 = 4
      match r.partialBlk with
      | none => (r, connErr)
      | some p =>
        let r := { r with partialBlk := none }     -- `partial_inout.take()`
        if p.frame.sid ≠ head.sid then (r, connErr)
        else
          let cnt := if endHeaders then 0 else p.count + 1
          if ¬ endHeaders ∧ cnt > r.maxContinuationFrames then
            (r, .err (.goAway ENHANCE_YOUR_CALM "too_many_continuations"))
          else if ¬ p.buf.isEmpty ∧ p.frame.blk.isOverSize ∧ p.buf.length + bytes.length > r.maxHeaderListSize then
            (r, .err (.goAway COMPRESSION_ERROR ""))
          else
            let buf := p.buf ++ payload
            let (blk, dec, tail, res) := HeaderBlock.load p.frame.blk buf r.maxHeaderListSize r.hpack.continueBlock
            afterHpack { r with hpack := dec } (p.frame.setBlk blk) tail cnt endHeaders head.sid res
    | _ => (r, .none)

/-- what `FramedRead::poll_next` yields: a frame, an error (the stream is dead afterwards), or nothing more for now -/
inductive Item where
  | frame (f : Frame)
  | err (e : RErr)
  deriving Repr

/-- `LengthDelimitedCodec::decode` + `decode_frame`, repeated while complete frames are buffered.
    Fuel: one unit per frame. Returns the items produced (an error ends the stream). -/
def Reader.drain : Nat → Reader → List Item → Reader × List Item × Bool
  | 0, r, acc => (r, acc, false)
  | fuel + 1, r, acc =>
    -- decode_head: needs `num_head_bytes` = 3 octets; the size check happens here, before the payload is buffered
    let need? : Option (Except Unit Nat) :=
      match r.need with
      | some n => some (.ok n)
      | none =>
        if r.buf.length < 3 then none
        else
          let n := rd24 r.buf
          if n > r.maxFrameLen then some (.error ()) else some (.ok (n + 9))
    match need? with
    | none => (r, acc, false)
    | some (.error _) => (r, acc ++ [.err (.goAway FRAME_SIZE_ERROR "")], true)
    | some (.ok n) =>
      if r.buf.length < n then ({ r with need := some n }, acc, false)
      else
        let frameBytes := r.buf.take n
        let r1 := { r with buf := r.buf.drop n, need := none }
        match decodeFrame r1 frameBytes with
        | (r2, .frame f) => Reader.drain fuel r2 (acc ++ [.frame f])
        | (r2, .none) => Reader.drain fuel r2 acc
        | (r2, .err e) => (r2, acc ++ [.err e], true)

/-- the transport delivered `chunk`: items produced, and whether the stream died -/
def Reader.feed (r : Reader) (chunk : Bytes) : Reader × List Item × Bool :=
  let r := { r with buf := r.buf ++ chunk }
  Reader.drain (r.buf.length / 9 + 2) r []

end H2V.Model.CodecRead
