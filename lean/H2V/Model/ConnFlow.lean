import H2V.Generated.Consts
/-
  Connection-level model, part 1 — mirror of `src/proto/streams/flow_control.rs`.

  `Window(i32)` is an `Int` together with explicit range functions: every Rust `checked_add` /
  `checked_sub` / `overflowing_add` is spelled out, and the `u32 as i32` casts are explicit
  (`u32AsI32`).  Mutating methods return the new value *and* the `Result` because the Rust code
  mutates in place and several callers ignore the `Result` (`let _res = ...`), so a failing call can
  leave a partially updated `FlowControl` behind (`send_data`, `dec_recv_window`).

  The harness is built in release mode without overflow checks: plain `+=`/`-=` on `u32`/`usize`
  wrap; the helpers `wrapAddU32`, `wrapSubU32`, `wrapSubUsize` say so explicitly.
-/
namespace H2V.Model.Conn
open H2V

/-- `frame::Reason` as its wire code -/
abbrev Reason := Nat

def NO_ERROR : Reason := 0
def PROTOCOL_ERROR : Reason := 1
def INTERNAL_ERROR : Reason := 2
def FLOW_CONTROL_ERROR : Reason := 3
def SETTINGS_TIMEOUT : Reason := 4
def STREAM_CLOSED : Reason := 5
def FRAME_SIZE_ERROR : Reason := 6
def REFUSED_STREAM : Reason := 7
def CANCEL : Reason := 8
def COMPRESSION_ERROR : Reason := 9
def CONNECT_ERROR : Reason := 10
def ENHANCE_YOUR_CALM : Reason := 11

def I32_MIN : Int := -2147483648
def I32_MAX : Int := 2147483647
def U32_MOD : Nat := 4294967296
def USIZE_MOD : Nat := 18446744073709551616
def USIZE_MAX : Nat := 18446744073709551615
def U32_MAX : Nat := 4294967295

def inI32 (x : Int) : Bool := decide (I32_MIN ≤ x) && decide (x ≤ I32_MAX)

/-- `x as i32` for an `x : u32` (two's complement reinterpretation) -/
def u32AsI32 (x : Nat) : Int :=
  let m := x % U32_MOD
  if m < 2147483648 then (m : Int) else (m : Int) - (U32_MOD : Int)

/-- `i32` arithmetic in release mode: the result wraps -/
def wrapI32 (x : Int) : Int := u32AsI32 (x % (U32_MOD : Int)).toNat

/-- `i32::checked_add` -/
def checkedAdd (a b : Int) : Option Int := if inI32 (a + b) then some (a + b) else none
/-- `i32::checked_sub` -/
def checkedSub (a b : Int) : Option Int := if inI32 (a - b) then some (a - b) else none

/-- `u32` `+=` in release mode -/
def wrapAddU32 (a b : Nat) : Nat := (a + b) % U32_MOD
/-- `u32` `-=` in release mode -/
def wrapSubU32 (a b : Nat) : Nat := (a % U32_MOD + U32_MOD - b % U32_MOD) % U32_MOD
/-- `usize` `-=` in release mode -/
def wrapSubUsize (a b : Nat) : Nat := (a % USIZE_MOD + USIZE_MOD - b % USIZE_MOD) % USIZE_MOD
/-- `x as u32` for `x : usize` -/
def usizeAsU32 (x : Nat) : Nat := x % U32_MOD

/-- what a `FlowControl` method can answer besides `Ok(())` -/
inductive FlowErr where
  | reason (r : Reason)      -- `Err(Reason::FLOW_CONTROL_ERROR)`
  | assertFailed             -- the `assert!` of `FlowControl::send_data` fired (a panic)
  deriving Repr, DecidableEq

abbrev FlowRes := Except FlowErr Unit

/-- `Window(i32)` -/
structure Window where
  val : Int := 0
  deriving Repr, DecidableEq

namespace Window

/-- `Window::as_size` -/
def asSize (w : Window) : Nat := if w.val < 0 then 0 else w.val.toNat

/-- `Window::checked_size`: `none` is the `assert!(self.0 >= 0)` panic -/
def checkedSize (w : Window) : Option Nat := if w.val < 0 then none else some w.val.toNat

/-- `Window::decrease_by` -/
def decreaseBy (w : Window) (other : Nat) : Window × FlowRes :=
  match checkedSub w.val (u32AsI32 other) with
  | some v => ({ val := v }, .ok ())
  | none => (w, .error (.reason FLOW_CONTROL_ERROR))

/-- `Window::add` -/
def add (w : Window) (other : Nat) : Except FlowErr Window :=
  match checkedAdd w.val (u32AsI32 other) with
  | some v => .ok { val := v }
  | none => .error (.reason FLOW_CONTROL_ERROR)

/-- `Window::increase_by` -/
def increaseBy (w : Window) (other : Nat) : Window × FlowRes :=
  match w.add other with
  | .ok w' => (w', .ok ())
  | .error e => (w, .error e)

/-- `impl PartialOrd<usize> for Window`: `self < n` -/
def ltUsize (w : Window) (n : Nat) : Bool := if w.val < 0 then true else decide (w.val.toNat < n)
/-- `self > n` -/
def gtUsize (w : Window) (n : Nat) : Bool := if w.val < 0 then false else decide (w.val.toNat > n)
/-- `self <= n` -/
def leUsize (w : Window) (n : Nat) : Bool := if w.val < 0 then true else decide (w.val.toNat ≤ n)
/-- `impl PartialEq<usize> for Window`: `self == n` -/
def eqUsize (w : Window) (n : Nat) : Bool := if w.val < 0 then false else decide (w.val.toNat = n)

end Window

/-- `FlowControl { window_size, available }` -/
structure FlowControl where
  windowSize : Window := {}
  available : Window := {}
  deriving Repr, DecidableEq

namespace FlowControl

/-- `FlowControl::new` -/
def new : FlowControl := {}

/-- `FlowControl::window_size()` (clamped at 0) -/
def windowSz (f : FlowControl) : Nat := f.windowSize.asSize

/-- `FlowControl::has_unavailable` -/
def hasUnavailable (f : FlowControl) : Bool :=
  if f.windowSize.val < 0 then false else decide (f.windowSize.val > f.available.val)

/-- `FlowControl::claim_capacity` -/
def claimCapacity (f : FlowControl) (capacity : Nat) : FlowControl × FlowRes :=
  let (a, r) := f.available.decreaseBy capacity
  ({ f with available := a }, r)

/-- `FlowControl::assign_capacity` -/
def assignCapacity (f : FlowControl) (capacity : Nat) : FlowControl × FlowRes :=
  let (a, r) := f.available.increaseBy capacity
  ({ f with available := a }, r)

/-- `FlowControl::unclaimed_capacity` (ratio `UNCLAIMED_NUMERATOR / UNCLAIMED_DENOMINATOR`);
    `i32` division truncates toward zero (`Int.tdiv`); `unclaimed as WindowSize` -/
def unclaimedCapacity (f : FlowControl) : Option Nat :=
  if f.windowSize.val ≥ f.available.val then none
  else
    let unclaimed := wrapI32 (f.available.val - f.windowSize.val)
    let threshold := (f.windowSize.val.tdiv (Generated.Consts.UNCLAIMED_DENOMINATOR : Int)) * (Generated.Consts.UNCLAIMED_NUMERATOR : Int)
    if unclaimed < threshold then none
    else some (unclaimed % (U32_MOD : Int)).toNat

/-- `FlowControl::inc_window` (`overflowing_add(sz as i32)`, then the `MAX_WINDOW_SIZE` check) -/
def incWindow (f : FlowControl) (sz : Nat) : FlowControl × FlowRes :=
  let sum := f.windowSize.val + u32AsI32 sz
  if ¬ inI32 sum then (f, .error (.reason FLOW_CONTROL_ERROR))
  else if sum > (Generated.Consts.MAX_WINDOW_SIZE : Int) then (f, .error (.reason FLOW_CONTROL_ERROR))
  else ({ f with windowSize := { val := sum } }, .ok ())

/-- `FlowControl::dec_send_window` -/
def decSendWindow (f : FlowControl) (sz : Nat) : FlowControl × FlowRes :=
  let (w, r) := f.windowSize.decreaseBy sz
  ({ f with windowSize := w }, r)

/-- `FlowControl::dec_recv_window` (the second `?` can fail after the first step was applied) -/
def decRecvWindow (f : FlowControl) (sz : Nat) : FlowControl × FlowRes :=
  let (w, r) := f.windowSize.decreaseBy sz
  match r with
  | .error e => (f, .error e)
  | .ok _ =>
    let f1 := { f with windowSize := w }
    let (a, r2) := f1.available.decreaseBy sz
    ({ f1 with available := a }, r2)

/-- `FlowControl::send_data` -/
def sendData (f : FlowControl) (sz : Nat) : FlowControl × FlowRes :=
  if sz > 0 then
    if f.windowSize.val < u32AsI32 sz then (f, .error .assertFailed)
    else
      let (w, r) := f.windowSize.decreaseBy sz
      match r with
      | .error e => (f, .error e)
      | .ok _ =>
        let f1 := { f with windowSize := w }
        let (a, r2) := f1.available.decreaseBy sz
        ({ f1 with available := a }, r2)
  else (f, .ok ())

end FlowControl

end H2V.Model.Conn
