import H2V.Model.Huffman
import H2V.Model.HpackInt
import H2V.Model.HttpTypes
/-
  A3 — mirror of `src/hpack/decoder.rs` (`Decoder`, `Table`) and `src/hpack/header.rs`
  (`Header::new`, `Name::into_entry`, `Header::len`).

  A header is the pair (name bytes, value bytes); the variant of the Rust `Header` enum is a
  function of the name.  `decode` returns what the framing layer can observe: the fields handed to
  the callback, the new decoder state, the undecoded *tail* (everything after the last `consume`),
  and the result.  `NeedMore` is kept as a value: it is the framing layer that interprets it.
-/
namespace H2V.Model.Hpack
open H2V H2V.Generated.Static H2V.Model.Http

abbrev Header := Bytes × Bytes

/-- `Header::len` -/
def Header.size (h : Header) : Nat := 32 + h.1.length + h.2.length

structure Table where
  entries : List Header   -- front = newest = index 62
  size : Nat
  maxSize : Nat
  deriving Repr, DecidableEq

structure Decoder where
  maxSizeUpdate : Option Nat
  lastMaxUpdate : Nat
  table : Table
  /-- set by `continue_block`: the next `decode` resumes the block of the previous call -/
  continuing : Bool := false
  /-- the current header block has already started a field representation -/
  seenField : Bool := false
  deriving Repr, DecidableEq

def Decoder.new (size : Nat) : Decoder :=
  { maxSizeUpdate := none, lastMaxUpdate := size, table := { entries := [], size := 0, maxSize := size } }

/-- `Decoder::continue_block` (called by the CONTINUATION path of `framed_read`) -/
def Decoder.continueBlock (d : Decoder) : Decoder := { d with continuing := true }

/-- `Decoder::queue_size_update` -/
def Decoder.queueSizeUpdate (d : Decoder) (size : Nat) : Decoder :=
  { d with maxSizeUpdate := some (match d.maxSizeUpdate with | some v => max v size | none => size) }

/-- `Table::get` -/
def Table.get (t : Table) (index : Nat) : Except DErr Header :=
  if index = 0 then .error .invalidTableIndex
  else if index ≤ STATIC_LEN then
    match staticL[index - 1]? with
    | some h => .ok h
    | none => .error .invalidTableIndex
  else match t.entries[index - DYN_OFFSET]? with
    | some h => .ok h
    | none => .error .invalidTableIndex

/-- `Table::reserve`: evict from the back while `size + n > max_size` -/
def Table.reserve (t : Table) (n : Nat) : Table :=
  go t.entries.length t
where
  go : Nat → Table → Table
  | 0, t => t
  | fuel + 1, t =>
    if t.size + n > t.maxSize then
      match t.entries.getLast? with
      | some last => go fuel { t with entries := t.entries.dropLast, size := t.size - last.size }
      | none => t
    else t

/-- `Table::insert` -/
def Table.insert (t : Table) (h : Header) : Table :=
  let t := t.reserve h.size
  if t.size + h.size ≤ t.maxSize then { t with size := t.size + h.size, entries := h :: t.entries }
  else t

/-- `Table::consolidate` (after `set_max_size`); `none` = the `panic!` -/
def Table.consolidate : Nat → Table → Option Table
  | 0, t => if t.size > t.maxSize then none else some t
  | fuel + 1, t =>
    if t.size > t.maxSize then
      match t.entries.getLast? with
      | some last => Table.consolidate fuel { t with entries := t.entries.dropLast, size := t.size - last.size }
      | none => none
    else some t

def Table.setMaxSize (t : Table) (n : Nat) : Option Table :=
  Table.consolidate t.entries.length { t with maxSize := n }

def pAuthority : Bytes := [58, 97, 117, 116, 104, 111, 114, 105, 116, 121]
def pMethod : Bytes := [58, 109, 101, 116, 104, 111, 100]
def pScheme : Bytes := [58, 115, 99, 104, 101, 109, 101]
def pPath : Bytes := [58, 112, 97, 116, 104]
def pProtocol : Bytes := [58, 112, 114, 111, 116, 111, 99, 111, 108]
def pStatus : Bytes := [58, 115, 116, 97, 116, 117, 115]

/-- `Header::new(name, value)` -/
def mkHeader (name value : Bytes) : Except DErr Header :=
  if name.isEmpty then .error .invalidUtf8
  else if name.head? = some 58 then
    if name = pAuthority ∨ name = pScheme ∨ name = pPath ∨ name = pProtocol then
      if validUtf8 value then .ok (name, value) else .error .invalidUtf8
    else if name = pMethod then
      if validMethod value then .ok (name, value) else .error .invalidUtf8
    else if name = pStatus then
      if validStatus value then .ok (name, value) else .error .invalidUtf8
    else .error .invalidPseudoheader
  else if ¬ validName name then .error .invalidUtf8
  else if ¬ validValue value then .error .invalidUtf8
  else .ok (name, value)

/-- `Name::into_entry(value)` for the name of a table entry -/
def intoEntry (name value : Bytes) : Except DErr Header :=
  if name = pAuthority ∨ name = pScheme ∨ name = pPath ∨ name = pProtocol then
    if validUtf8 value then .ok (name, value) else .error .invalidUtf8
  else if name = pMethod then
    if validMethod value then .ok (name, value) else .error .invalidUtf8
  else if name = pStatus then
    if validStatus value then .ok (name, value) else .error .invalidStatusCode
  else if validValue value then .ok (name, value) else .error .invalidUtf8

/-- `try_decode_string` + `StringMarker::consume`: the decoded string, the rest of the buffer, and
    whether consuming it *permanently* removed the octets from the underlying `BytesMut`
    (`take` = `split_to` for a raw string; a Huffman string only advances the cursor). -/
def decodeString (buf : Bytes) : Except DErr (Bytes × Bytes × Bool) :=
  match buf with
  | [] => .error (.needMore .unexpectedEndOfStream)
  | hdr :: _ =>
    let huff := hdr &&& 128 = 128
    match decodeInt buf 7 with
    | .error e => .error e
    | .ok (len, rest) =>
      if len > rest.length then .error (.needMore .stringUnderflow)
      else
        let raw := rest.take len
        let rest' := rest.drop len
        if huff then
          match Huffman.decode raw with
          | .ok s => .ok (s, rest', false)
          | .err _ => .error .invalidHuffmanCode
          | .loop => .error .fuel
        else .ok (raw, rest', true)

/-- `decode_literal(buf, index)`.  An error carries what is left in the underlying buffer: strings
    are `consume`d *before* the header is validated, and consuming a raw string splits the buffer
    for good, so after a validation error the undecoded tail may start *after* the field. -/
def decodeLiteral (t : Table) (buf : Bytes) (index : Bool) : Except (DErr × Bytes) (Header × Bytes) :=
  match decodeInt buf (if index then 6 else 4) with
  | .error e => .error (e, buf)
  | .ok (tableIdx, rest) =>
    if tableIdx = 0 then
      match decodeString rest with
      | .error e => .error (e, buf)
      | .ok (name, rest1, nameRaw) =>
        match decodeString rest1 with
        | .error e => .error (e, buf)
        | .ok (value, rest2, valueRaw) =>
          match mkHeader name value with
          | .error e => .error (e, if valueRaw then rest2 else if nameRaw then rest1 else buf)
          | .ok h => .ok (h, rest2)
    else
      match t.get tableIdx with
      | .error e => .error (e, buf)
      | .ok e =>
        match decodeString rest with
        | .error er => .error (er, buf)
        | .ok (value, rest1, valueRaw) =>
          match intoEntry e.1 value with
          | .error er => .error (er, if valueRaw then rest1 else buf)
          | .ok h => .ok (h, rest1)

inductive Rep where
  | indexed | literalWithIndexing | literalWithoutIndexing | literalNeverIndexed | sizeUpdate
  deriving Repr, DecidableEq

/-- `Representation::load` -/
def Rep.load (b : Nat) : Except DErr Rep :=
  if b &&& 128 = 128 then .ok .indexed
  else if b &&& 64 = 64 then .ok .literalWithIndexing
  else if b &&& 240 = 0 then .ok .literalWithoutIndexing
  else if b &&& 240 = 16 then .ok .literalNeverIndexed
  else if b &&& 224 = 32 then .ok .sizeUpdate
  else .error .invalidRepresentation

structure DecodeOut where
  fields : List Header
  dec : Decoder
  tail : Bytes
  result : Except DErr Unit

/-- the `while let Some(ty) = peek_u8(src)` loop of `Decoder::decode`.
    Fuel: every iteration that continues consumes at least one octet. -/
def decodeLoop : Nat → Decoder → Bool → Bytes → List Header → DecodeOut
  | 0, d, _, buf, acc => ⟨acc, d, buf, if buf.isEmpty then .ok () else .error .fuel⟩
  | fuel + 1, d, canResize, buf, acc =>
    match buf with
    | [] => ⟨acc, d, [], .ok ()⟩
    | ty :: _ =>
      match Rep.load ty with
      | .error e => ⟨acc, d, buf, .error e⟩
      | .ok .indexed =>
        let d := { d with seenField := true }
        match decodeInt buf 7 with
        | .error e => ⟨acc, d, buf, .error e⟩
        | .ok (index, rest) =>
          match d.table.get index with
          | .error e => ⟨acc, d, buf, .error e⟩
          | .ok h => decodeLoop fuel d false rest (acc ++ [h])
      | .ok .literalWithIndexing =>
        let d := { d with seenField := true }
        match decodeLiteral d.table buf true with
        | .error (e, tl) => ⟨acc, d, tl, .error e⟩
        | .ok (h, rest) => decodeLoop fuel { d with table := d.table.insert h } false rest (acc ++ [h])
      | .ok .literalWithoutIndexing =>
        let d := { d with seenField := true }
        match decodeLiteral d.table buf false with
        | .error (e, tl) => ⟨acc, d, tl, .error e⟩
        | .ok (h, rest) => decodeLoop fuel d false rest (acc ++ [h])
      | .ok .literalNeverIndexed =>
        let d := { d with seenField := true }
        match decodeLiteral d.table buf false with
        | .error (e, tl) => ⟨acc, d, tl, .error e⟩
        | .ok (h, rest) => decodeLoop fuel d false rest (acc ++ [h])
      | .ok .sizeUpdate =>
        if ¬ canResize then ⟨acc, d, buf, .error .invalidMaxDynamicSize⟩
        else
          match decodeInt buf 5 with
          | .error e => ⟨acc, d, buf, .error e⟩
          | .ok (newSize, rest) =>
            if newSize > d.lastMaxUpdate then ⟨acc, d, buf, .error .invalidMaxDynamicSize⟩
            else
              match d.table.setMaxSize newSize with
              | none => ⟨acc, d, buf, .error .panic⟩   -- the `panic!` in `consolidate`
              | some t => decodeLoop fuel { d with table := t } canResize rest acc

/-- `Decoder::decode(src, f)` with `f` collecting every header -/
def Decoder.decode (d : Decoder) (src : Bytes) : DecodeOut :=
  let d := if d.continuing then d else { d with seenField := false }
  let d := { d with continuing := false }
  let canResize := !d.seenField
  let d := match d.maxSizeUpdate with
    | some size => { d with maxSizeUpdate := none, lastMaxUpdate := size }
    | none => d
  decodeLoop (src.length + 1) d canResize src []

end H2V.Model.Hpack
