/-
  Shared basics for the model: byte strings are `List Nat` (every element < 256 is an explicit,
  decidable side condition `Bytes.Valid`, never silently assumed), a three-valued result type that
  keeps "ran out of fuel" apart from both success and error, and hex I/O for the driver.
  No Mathlib import anywhere under `H2V/Model` (the driver links as a `lean_exe`).
-/
namespace H2V

abbrev Bytes := List Nat

def Bytes.Valid (bs : Bytes) : Prop := ∀ b ∈ bs, b < 256

instance (bs : Bytes) : Decidable (Bytes.Valid bs) := by unfold Bytes.Valid; infer_instance

/-- result of a fuelled loop: `loop` means the fuel ran out (a theorem says it never does) -/
inductive Res (ε α : Type) where
  | ok (a : α)
  | err (e : ε)
  | loop
  deriving Repr, DecidableEq

namespace Hex

def digit (n : Nat) : Char :=
  if n < 10 then Char.ofNat (48 + n) else Char.ofNat (87 + n)

def ofBytes (bs : Bytes) : String :=
  String.ofList (bs.foldr (fun b acc => digit (b / 16 % 16) :: digit (b % 16) :: acc) [])

def val? (c : Char) : Option Nat :=
  let n := c.toNat
  if 48 ≤ n ∧ n ≤ 57 then some (n - 48)
  else if 97 ≤ n ∧ n ≤ 102 then some (n - 87)
  else if 65 ≤ n ∧ n ≤ 70 then some (n - 55)
  else none

def parseList : List Char → Option Bytes
  | [] => some []
  | [_] => none
  | a :: b :: rest =>
    match val? a, val? b, parseList rest with
    | some x, some y, some r => some ((x * 16 + y) :: r)
    | _, _, _ => none

/-- `-` stands for the empty string so that every field of a line is non-empty -/
def toBytes? (s : String) : Option Bytes :=
  if s == "-" then some [] else parseList s.toList

def render (bs : Bytes) : String := if bs.isEmpty then "-" else ofBytes bs

end Hex
end H2V
