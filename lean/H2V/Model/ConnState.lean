import H2V.Model.Basic
import H2V.Model.HttpTypes
import H2V.Model.ConnFlow
/-
  Connection-level model, part 2 — mirror of `src/proto/streams/state.rs` (+ `proto::Error`,
  `Initiator` from `src/proto/error.rs`).  Every transition and predicate of `State` keeps its Rust
  name; `render` prints a state exactly as the harness's `render_state` prints the `{:#?}` dump.
-/
namespace H2V.Model.Conn
open H2V

/-- `proto::Initiator` -/
inductive Initiator where
  | user | library | remote
  deriving Repr, DecidableEq

def Initiator.isLocal : Initiator → Bool
  | .user | .library => true
  | .remote => false

def Initiator.isLibrary : Initiator → Bool
  | .library => true
  | _ => false

def Initiator.name : Initiator → String
  | .user => "User" | .library => "Library" | .remote => "Remote"

def Initiator.lower : Initiator → String
  | .user => "user" | .library => "library" | .remote => "remote"

/-- `proto::Error` -/
inductive PErr where
  | reset (sid : Nat) (reason : Reason) (init : Initiator)
  | goAway (debug : Bytes) (reason : Reason) (init : Initiator)
  | io (kind : String) (msg : Option String)
  deriving Repr, DecidableEq

/-- `Error::is_local` -/
def PErr.isLocal : PErr → Bool
  | .reset _ _ i => i.isLocal
  | .goAway _ _ i => i.isLocal
  | .io .. => true

def PErr.libraryReset (sid : Nat) (r : Reason) : PErr := .reset sid r .library
def PErr.libraryGoAway (r : Reason) : PErr := .goAway [] r .library
def PErr.libraryGoAwayData (r : Reason) (d : String) : PErr := .goAway (Model.Http.str d) r .library
def PErr.remoteReset (sid : Nat) (r : Reason) : PErr := .reset sid r .remote
def PErr.remoteGoAway (d : Bytes) (r : Reason) : PErr := .goAway d r .remote
def PErr.userGoAway (r : Reason) : PErr := .goAway [] r .user

/-- `codec::UserError` -/
inductive UserError where
  | inactiveStreamId | unexpectedFrameType | payloadTooBig | rejected | releaseCapacityTooBig
  | overflowedStreamId | malformedHeaders | missingUriSchemeAndAuthority | pollResetAfterSendResponse
  | sendPingWhilePending | sendSettingsWhilePending | peerDisabledServerPush | invalidInformationalStatusCode
  deriving Repr, DecidableEq

/-- `impl Display for UserError` -/
def UserError.display : UserError → String
  | .inactiveStreamId => "inactive stream"
  | .unexpectedFrameType => "unexpected frame type"
  | .payloadTooBig => "payload too big"
  | .rejected => "rejected"
  | .releaseCapacityTooBig => "release capacity too big"
  | .overflowedStreamId => "stream ID overflowed"
  | .malformedHeaders => "malformed headers"
  | .missingUriSchemeAndAuthority => "request URI missing scheme and authority"
  | .pollResetAfterSendResponse => "poll_reset after send_response is illegal"
  | .sendPingWhilePending => "send_ping before received previous pong"
  | .sendSettingsWhilePending => "sending SETTINGS before received previous ACK"
  | .peerDisabledServerPush => "sending PUSH_PROMISE to peer who disabled server push"
  | .invalidInformationalStatusCode => "invalid informational status code"

/-- the public `h2::Error` (`src/error.rs`): what API calls hand to the user -/
inductive ApiErr where
  | proto (e : PErr)
  | user (e : UserError)
  deriving Repr, DecidableEq

/-- `state::Peer` -/
inductive Peer where
  | awaitingHeaders | streaming
  deriving Repr, DecidableEq

/-- `state::Cause` -/
inductive Cause where
  | endStream
  | error (e : PErr)
  | errorAfterEndStream (e : PErr)
  | scheduledLibraryReset (r : Reason)
  deriving Repr, DecidableEq

/-- `state::Inner` -/
inductive Inner where
  | idle
  | reservedLocal
  | reservedRemote
  | open (loc rem : Peer)
  | halfClosedLocal (p : Peer)
  | halfClosedRemote (p : Peer)
  | closed (c : Cause)
  deriving Repr, DecidableEq

/-- `state::State` -/
structure State where
  inner : Inner := .idle
  deriving Repr, DecidableEq

/-- `PollReset` (`send.rs`) -/
inductive PollReset where
  | awaitingHeaders | streaming
  deriving Repr, DecidableEq

namespace State
open Inner Peer

/-- `State::send_open` -/
def sendOpen (s : State) (eos : Bool) : State × Except UserError Unit :=
  match s.inner with
  | idle => ({ inner := if eos then halfClosedLocal awaitingHeaders else .open streaming awaitingHeaders }, .ok ())
  | .open awaitingHeaders rem => ({ inner := if eos then halfClosedLocal rem else .open streaming rem }, .ok ())
  | halfClosedRemote awaitingHeaders | reservedLocal =>
    ({ inner := if eos then closed .endStream else halfClosedRemote streaming }, .ok ())
  | _ => (s, .error .unexpectedFrameType)

/-- `State::recv_open(frame)`; the frame enters through `eos` and `informational`.
    Result: `Ok(initial)` or the connection error. -/
def recvOpen (s : State) (eos informational : Bool) : State × Except PErr Bool :=
  let remoteAfter : Peer := if informational then awaitingHeaders else streaming
  match s.inner with
  | idle =>
    ({ inner := if eos then halfClosedRemote awaitingHeaders else .open awaitingHeaders remoteAfter }, .ok true)
  | reservedRemote =>
    ({ inner := if eos then closed .endStream else if informational then reservedRemote else halfClosedLocal streaming }, .ok true)
  | .open loc awaitingHeaders =>
    ({ inner := if eos then halfClosedRemote loc else .open loc remoteAfter }, .ok false)
  | halfClosedLocal awaitingHeaders =>
    ({ inner := if eos then closed .endStream else if informational then halfClosedLocal awaitingHeaders else halfClosedLocal streaming }, .ok false)
  | _ => (s, .error (PErr.libraryGoAway PROTOCOL_ERROR))

/-- `State::reserve_remote` -/
def reserveRemote (s : State) : State × Except PErr Unit :=
  match s.inner with
  | idle => ({ inner := reservedRemote }, .ok ())
  | _ => (s, .error (PErr.libraryGoAway PROTOCOL_ERROR))

/-- `State::reserve_local` -/
def reserveLocal (s : State) : State × Except UserError Unit :=
  match s.inner with
  | idle => ({ inner := reservedLocal }, .ok ())
  | _ => (s, .error .unexpectedFrameType)

/-- `State::recv_close` -/
def recvClose (s : State) : State × Except PErr Unit :=
  match s.inner with
  | .open loc _ => ({ inner := halfClosedRemote loc }, .ok ())
  | halfClosedLocal _ => ({ inner := closed .endStream }, .ok ())
  | _ => (s, .error (PErr.libraryGoAway PROTOCOL_ERROR))

/-- `State::is_recv_end_stream` -/
def isRecvEndStream (s : State) : Bool :=
  match s.inner with
  | closed .endStream | closed (.errorAfterEndStream _) | halfClosedRemote _ => true
  | _ => false

/-- `State::recv_reset(frame, queued)` -/
def recvReset (s : State) (sid : Nat) (reason : Reason) (queued : Bool) : State :=
  let recvEndStream := s.isRecvEndStream
  match s.inner with
  | closed _ =>
    if !queued then s
    else
      let e := PErr.remoteReset sid reason
      { inner := closed (if recvEndStream then .errorAfterEndStream e else .error e) }
  | _ =>
    let e := PErr.remoteReset sid reason
    { inner := closed (if recvEndStream then .errorAfterEndStream e else .error e) }

/-- `State::handle_error` -/
def handleError (s : State) (err : PErr) : State :=
  let recvEndStream := s.isRecvEndStream
  match s.inner with
  | closed _ => s
  | _ => { inner := closed (if recvEndStream then .errorAfterEndStream err else .error err) }

/-- `State::recv_eof` -/
def recvEof (s : State) : State :=
  let recvEndStream := s.isRecvEndStream
  let err : PErr := .io "BrokenPipe" (some "stream closed because of a broken pipe")
  match s.inner with
  | closed _ => s
  | _ => { inner := closed (if recvEndStream then .errorAfterEndStream err else .error err) }

/-- `State::send_close`; `none` is the `panic!("send_close: unexpected state")` -/
def sendClose (s : State) : Option State :=
  match s.inner with
  | .open _ rem => some { inner := halfClosedLocal rem }
  | halfClosedRemote _ => some { inner := closed .endStream }
  | _ => none

/-- `State::set_reset` -/
def setReset (_s : State) (sid : Nat) (reason : Reason) (init : Initiator) : State :=
  { inner := closed (.error (.reset sid reason init)) }

/-- `State::set_scheduled_reset` -/
def setScheduledReset (_s : State) (reason : Reason) : State :=
  { inner := closed (.scheduledLibraryReset reason) }

/-- `State::get_scheduled_reset` -/
def getScheduledReset (s : State) : Option Reason :=
  match s.inner with
  | closed (.scheduledLibraryReset r) => some r
  | _ => none

/-- `State::is_scheduled_reset` -/
def isScheduledReset (s : State) : Bool := s.getScheduledReset.isSome

/-- `State::is_local_error` -/
def isLocalError (s : State) : Bool :=
  match s.inner with
  | closed (.error e) | closed (.errorAfterEndStream e) => e.isLocal
  | closed (.scheduledLibraryReset _) => true
  | _ => false

/-- `State::is_remote_reset` -/
def isRemoteReset (s : State) : Bool :=
  match s.inner with
  | closed (.error (.reset _ _ .remote)) | closed (.errorAfterEndStream (.reset _ _ .remote)) => true
  | _ => false

/-- `State::is_reset` -/
def isReset (s : State) : Bool :=
  match s.inner with
  | closed .endStream => false
  | closed _ => true
  | _ => false

/-- `State::is_send_streaming` -/
def isSendStreaming (s : State) : Bool :=
  match s.inner with
  | .open streaming _ | halfClosedRemote streaming => true
  | _ => false

/-- `State::is_recv_headers` -/
def isRecvHeaders (s : State) : Bool :=
  match s.inner with
  | idle | .open _ awaitingHeaders | halfClosedLocal awaitingHeaders | reservedRemote => true
  | _ => false

/-- `State::is_recv_streaming` -/
def isRecvStreaming (s : State) : Bool :=
  match s.inner with
  | .open _ streaming | halfClosedLocal streaming => true
  | _ => false

/-- `State::is_closed` -/
def isClosed (s : State) : Bool :=
  match s.inner with
  | closed _ => true
  | _ => false

/-- `State::is_send_closed` -/
def isSendClosed (s : State) : Bool :=
  match s.inner with
  | closed _ | halfClosedLocal _ | reservedRemote => true
  | _ => false

/-- `State::is_idle` -/
def isIdle (s : State) : Bool :=
  match s.inner with
  | idle => true
  | _ => false

/-- `State::ensure_recv_open` -/
def ensureRecvOpen (s : State) : Except PErr Bool :=
  match s.inner with
  | closed (.error e) => .error e
  | closed (.scheduledLibraryReset r) => .error (PErr.libraryGoAway r)
  | closed .endStream | closed (.errorAfterEndStream _) | halfClosedRemote _ | reservedLocal => .ok false
  | _ => .ok true

/-- `State::ensure_reason(mode)` -/
def ensureReason (s : State) (mode : PollReset) : Except ApiErr (Option Reason) :=
  match s.inner with
  | closed (.error (.reset _ r _)) | closed (.errorAfterEndStream (.reset _ r _))
  | closed (.error (.goAway _ r _)) | closed (.errorAfterEndStream (.goAway _ r _))
  | closed (.scheduledLibraryReset r) => .ok (some r)
  | closed (.error e) | closed (.errorAfterEndStream e) => .error (.proto e)
  | .open streaming _ | halfClosedRemote streaming =>
    match mode with
    | .awaitingHeaders => .error (.user .pollResetAfterSendResponse)
    | .streaming => .ok none
  | _ => .ok none

end State

-- ===================================================================== rendering (harness `render_state`)

/-- `impl Debug for Reason`: the symbolic name, or `none` for `Reason(0x..)` (a tuple, which the
    harness's renderer drops) -/
def reasonName (r : Reason) : Option String :=
  match r with
  | 0 => some "NO_ERROR" | 1 => some "PROTOCOL_ERROR" | 2 => some "INTERNAL_ERROR"
  | 3 => some "FLOW_CONTROL_ERROR" | 4 => some "SETTINGS_TIMEOUT" | 5 => some "STREAM_CLOSED"
  | 6 => some "FRAME_SIZE_ERROR" | 7 => some "REFUSED_STREAM" | 8 => some "CANCEL"
  | 9 => some "COMPRESSION_ERROR" | 10 => some "CONNECT_ERROR" | 11 => some "ENHANCE_YOUR_CALM"
  | 12 => some "INADEQUATE_SECURITY" | 13 => some "HTTP_1_1_REQUIRED"
  | _ => none

def Peer.abbr : Peer → String
  | .awaitingHeaders => "Aw" | .streaming => "St"

def Peer.name : Peer → String
  | .awaitingHeaders => "AwaitingHeaders" | .streaming => "Streaming"

/-- `{:?}` of a `Bytes` value as one token of the harness's tokenizer (`b"..."`); only printable
    ASCII without quote/backslash is rendered literally, which covers h2's own debug strings -/
def debugBytes (d : Bytes) : String :=
  "b\"" ++ String.ofList (d.map fun b => Char.ofNat b) ++ "\""

/-- the atoms the harness collects from `Error(<e>)`: variant name, then the atom arguments -/
def PErr.renderParts : PErr → List String
  | .reset _ r i => ["Reset"] ++ (reasonName r).toList ++ [i.name]
  | .goAway d r i => ["GoAway", debugBytes d] ++ (reasonName r).toList ++ [i.name]
  | .io kind msg => ["Io", kind] ++ (match msg with | some _ => [] | none => ["None"])

def State.render (s : State) : String :=
  match s.inner with
  | .idle => "Idle"
  | .reservedLocal => "ReservedLocal"
  | .reservedRemote => "ReservedRemote"
  | .open l r => "Open." ++ l.abbr ++ "." ++ r.abbr
  | .halfClosedLocal p => "HalfClosedLocal." ++ p.name
  | .halfClosedRemote p => "HalfClosedRemote." ++ p.name
  | .closed .endStream => "Closed.EndStream"
  | .closed (.error e) => "Closed." ++ ".".intercalate ("Error" :: e.renderParts)
  | .closed (.errorAfterEndStream e) => "Closed." ++ ".".intercalate ("ErrorAfterEndStream" :: e.renderParts)
  | .closed (.scheduledLibraryReset r) => "Closed." ++ ".".intercalate ("ScheduledLibraryReset" :: (reasonName r).toList)

end H2V.Model.Conn
