import H2V.Model.ConnDriver
/-
  Candidate invariants of the connection model, as executable checks on a `Conn` value between two
  ops (`violations`).  They are *not* part of the model; the driver evaluates them when the
  environment variable `H2V_CONN_INV` is set and writes the names of the violated ones to stderr.
  Purpose: (1) find states of the REAL code that look wrong (the model agrees with the real code
  field by field on these histories, so a violation in the model is a violation in h2);
  (2) tell the proof authors which invariants survive thousands of random histories.
  See ConnNOTES.md for what was found.
-/
namespace H2V.Model.Conn
open H2V H2V.Model

def countOcc (l : List Nat) (k : Nat) : Nat := (l.filter (· == k)).length

/-- every queued key exists with its flag set; every flagged stream is queued exactly once -/
def invQueue (s : Streams) (q : QName) (name : String) : List String :=
  -- the `NextAccept` link is shared by `recv.pending_accept` and every stream's `pending_push_promises`
  let l := s.getQ q ++ (if q == .pendingAccept then s.store.slab.flatMap (·.pendingPushPromises) else [])
  let a := l.filterMap fun k => match s.store.get? k with
    | none => some s!"{name}: dangling key {k}"
    | some st => if st.isQueued q then none else some s!"{name}: key {k} (stream {st.id}) queued without flag"
  let b := s.store.slab.filterMap fun st =>
    if st.isQueued q && countOcc l st.key != 1 then some s!"{name}: stream {st.id} flagged, occurrences {countOcc l st.key}" else none
  a ++ b

def sumInt (l : List Int) : Int := l.foldl (· + ·) 0

def violations (c : Conn) : List String :=
  let s := c.streams
  let p := s.prio
  let slab := s.store.slab
  -- A: queues
  let qa := invQueue s .pendingSend "Q.pending_send" ++ invQueue s .pendingCapacity "Q.pending_capacity" ++
            invQueue s .pendingOpen "Q.pending_open" ++ invQueue s .pendingWindowUpdates "Q.pending_window_updates" ++
            invQueue s .pendingAccept "Q.pending_accept" ++ invQueue s .pendingResetExpired "Q.pending_reset_expired"
  -- B: counters
  let nSend := (slab.filter fun st => st.isCounted && s.counts.isLocalInit st.id).length
  let nRecv := (slab.filter fun st => st.isCounted && !s.counts.isLocalInit st.id).length
  let b1 := if nSend != s.counts.numSendStreams then [s!"N.num_send_streams {s.counts.numSendStreams} != counted {nSend}"] else []
  let b2 := if nRecv != s.counts.numRecvStreams then [s!"N.num_recv_streams {s.counts.numRecvStreams} != counted {nRecv}"] else []
  let b3 := if s.recv.pendingResetExpired.length != s.counts.numLocalResetStreams then
      [s!"N.num_local_reset_streams {s.counts.numLocalResetStreams} != queue {s.recv.pendingResetExpired.length}"] else []
  -- (num_send_streams > max_send_streams is legitimate: the peer may lower the limit below the current number)
  let b4 : List String := []
  -- C: send ledger  W - A = Σ a_i
  let assigned := sumInt (slab.map fun st => st.sendFlow.available.val)
  let cl := if p.flow.windowSize.val - p.flow.available.val != assigned then
      [s!"L.send_ledger window {renderInt p.flow.windowSize.val} - available {renderInt p.flow.available.val} != assigned {renderInt assigned}"] else []
  -- D: recv ledger
  let inflight := slab.foldl (fun n st => n + st.inFlightRecvData) 0
  let dl := if inflight != s.recv.inFlightData then [s!"L.recv_in_flight conn {s.recv.inFlightData} != streams {inflight}"] else []
  -- E: per stream
  let inflightRest := fun (k : Nat) =>
    (match c.codec.w.next with | some n => if n.frame.key == k then n.frame.rest else 0 | none => 0) +
    (match c.codec.w.lastDataFrame with | some f => if f.key == k then f.rest else 0 | none => 0)
  let e := slab.flatMap fun st =>
    let dataQueued := st.pendingSend.foldl (fun n f => match f with | .data len _ => n + len | _ => n) 0
    -- (after `clear_queue` on a stream whose DATA chunk sits in the codec the marker is `Drop`)
    let e1 := if p.inFlightDataFrame != .drop && st.bufferedSendData != dataQueued + inflightRest st.key then
        [s!"S{st.id}.buffered {st.bufferedSendData} != queued {dataQueued} + in-flight rest {inflightRest st.key}"] else []
    let e2 := if st.sendFlow.available.val < 0 then [s!"S{st.id}.available negative"] else []
    let e3 := if st.sendFlow.available.val > (st.requestedSendCapacity : Int) then
        [s!"S{st.id}.available {renderInt st.sendFlow.available.val} > requested {st.requestedSendCapacity}"] else []
    let e4 := if st.sendFlow.available.val > 0 && st.sendFlow.available.val > st.sendFlow.windowSize.val then
        [s!"S{st.id}.available {renderInt st.sendFlow.available.val} > window {renderInt st.sendFlow.windowSize.val}"] else []
    let e5 := if st.isCounted && st.isClosed && !st.state.isScheduledReset then [s!"S{st.id}.counted but closed"] else []
    let e6 := if st.recvFlow.available.val < st.recvFlow.windowSize.val then
        [s!"S{st.id}.recv available {renderInt st.recvFlow.available.val} < window {renderInt st.recvFlow.windowSize.val}"] else []
    e1 ++ e2 ++ e3 ++ e4 ++ e5 ++ e6
  -- F: one slab entry per stream id
  let f := slab.filterMap fun st =>
    if (slab.filter (·.id == st.id)).length > 1 then some s!"X.duplicate slab entries for stream {st.id}" else none
  -- G/H: a slab entry the protocol forgot must be reachable or queued; a released stream must be gone
  let g := slab.flatMap fun st =>
    let linked := s.store.findKey? st.id == some st.key
    let queued := st.isPendingSend || st.isPendingSendCapacity || st.isPendingOpen || st.isPendingWindowUpdate || st.isPendingAccept || st.resetAt
    let g1 := if !linked && st.refCount == 0 && !queued then [s!"X.stream {st.id} unlinked, unreferenced, not queued, still in slab"] else []
    let g2 := if st.isReleased then [s!"X.stream {st.id} is_released but still in slab"] else []
    let g3 := if linked && st.isClosed && !queued then [s!"X.stream {st.id} closed (and flushed) but still in the id map"] else []
    g1 ++ g2 ++ g3
  -- I: in-flight marker vs codec
  let i :=
    match p.inFlightDataFrame with
    | .nothing => if c.codec.w.next.isSome || c.codec.w.lastDataFrame.isSome then ["P.in_flight Nothing but the codec holds a DATA frame"] else []
    | _ => if c.codec.w.next.isNone && c.codec.w.lastDataFrame.isNone then ["P.in_flight set but the codec holds no DATA frame"] else []
  -- J: no event of a removed stream left behind in `recv.buffer`
  let j := if s.recvBufferLeaked != 0 then [s!"B.recv buffer holds {s.recvBufferLeaked} entries of removed streams"] else []
  qa ++ b1 ++ b2 ++ b3 ++ b4 ++ cl ++ dl ++ e ++ f ++ g ++ i ++ j

end H2V.Model.Conn
