import H2V.Model.HpackDec
import H2V.Generated.Consts
/-
  A5 (part 1) — mirror of `src/frame/*.rs`: frame values, `Head::parse/encode`, the `load`
  function of every frame type, `encode` of the types h2 emits, `HeaderBlock::load`
  (pseudo/regular bookkeeping, malformed detection, header-list size accounting).
-/
namespace H2V.Model.Frame
open H2V H2V.Model.Hpack

/-- big-endian encodings -/
def be16 (n : Nat) : Bytes := [n / 256 % 256, n % 256]
def be24 (n : Nat) : Bytes := [n / 65536 % 256, n / 256 % 256, n % 256]
def be32 (n : Nat) : Bytes := [n / 16777216 % 256, n / 65536 % 256, n / 256 % 256, n % 256]

def rd16 : Bytes → Nat
  | a :: b :: _ => a * 256 + b
  | _ => 0
def rd24 : Bytes → Nat
  | a :: b :: c :: _ => a * 65536 + b * 256 + c
  | _ => 0
def rd32 : Bytes → Nat
  | a :: b :: c :: d :: _ => a * 16777216 + b * 65536 + c * 256 + d
  | _ => 0

/-- `StreamId::parse`: (id with the reserved bit cleared, reserved bit) -/
def parseStreamId (b : Bytes) : Nat × Bool := (rd32 b % 2147483648, rd32 b ≥ 2147483648)

/-- `frame::Head` (kind as the wire octet; ≥ 10 is `Kind::Unknown`) -/
structure Head where
  kind : Nat
  flag : Nat
  sid : Nat
  deriving Repr, DecidableEq

/-- `Head::parse` on a buffer of at least 9 octets -/
def Head.parse (b : Bytes) : Head :=
  { kind := b.getD 3 0, flag := b.getD 4 0, sid := (parseStreamId (b.drop 5)).1 }

/-- `Head::encode(payload_len, dst)` -/
def Head.encode (h : Head) (payloadLen : Nat) : Bytes :=
  be24 payloadLen ++ [h.kind, h.flag] ++ be32 h.sid

/-- the pseudo-header part of a `HeaderBlock` -/
structure Pseudo where
  method : Option Bytes := none
  scheme : Option Bytes := none
  authority : Option Bytes := none
  path : Option Bytes := none
  protocol : Option Bytes := none
  status : Option Bytes := none
  deriving Repr, DecidableEq

/-- `frame::headers::HeaderBlock`: `fields` mirrors `HeaderMap` iteration order (names in order of
    first insertion, the values of one name grouped) -/
structure HeaderBlock where
  pseudo : Pseudo := {}
  fields : List (Bytes × List Bytes) := []
  fieldSize : Nat := 0
  isOverSize : Bool := false
  isMalformed : Bool := false     -- a field decoded so far makes the message malformed (kept across fragments)
  deriving Repr, DecidableEq

/-- `HeaderMap::try_append` (capacity limit not modelled: 24 576+ distinct names) -/
def appendField : List (Bytes × List Bytes) → Bytes → Bytes → List (Bytes × List Bytes)
  | [], n, v => [(n, [v])]
  | (n', vs) :: rest, n, v => if n' = n then (n', vs ++ [v]) :: rest else (n', vs) :: appendField rest n v

inductive Frame where
  | data (sid : Nat) (payload : Bytes) (eos : Bool) (padLen : Option Nat)
  | headers (sid : Nat) (eos : Bool) (dep : Option (Nat × Nat × Bool)) (block : HeaderBlock)
  | priority (sid dep weight : Nat) (excl : Bool)
  | reset (sid code : Nat)
  | settings (ack : Bool) (vals : List (Nat × Nat))   -- (id, value) of the known settings, in `for_each` order
  | pushPromise (sid promised : Nat) (block : HeaderBlock)
  | ping (ack : Bool) (payload : Bytes)
  | goAway (last code : Nat) (debug : Bytes)
  | windowUpdate (sid inc : Nat)
  deriving Repr, DecidableEq

/-- `frame::Error` as far as `decode_frame` distinguishes it -/
inductive FErr where
  | badFrameSize | tooMuchPadding | invalidSettingValue | invalidWindowUpdateValue
  | invalidPayloadLength | invalidPayloadAckSettings | invalidStreamId | malformedMessage
  | invalidDependencyId | headerListWayTooLarge
  | hpack (e : DErr)
  deriving Repr, DecidableEq

-- ===================================================================== load (non-header frames)

/-- `util::strip_padding` -/
def stripPadding (p : Bytes) : Except FErr (Nat × Bytes) :=
  match p with
  | [] => .error .tooMuchPadding
  | padLen :: rest =>
    if padLen ≥ p.length then .error .tooMuchPadding
    else .ok (padLen, rest.take (p.length - padLen - 1))

/-- `Data::load` -/
def loadData (h : Head) (payload : Bytes) : Except FErr Frame :=
  let flags := h.flag &&& 9
  if h.sid = 0 then .error .invalidStreamId
  else if flags &&& 8 = 8 then
    match stripPadding payload with
    | .error e => .error e
    | .ok (pl, d) => .ok (.data h.sid d (flags &&& 1 = 1) (some pl))
  else .ok (.data h.sid payload (flags &&& 1 = 1) none)

/-- one 6-octet setting applied to the accumulated value list; `none` = `InvalidSettingValue` -/
def applySetting (acc : List (Nat × Nat)) (id val : Nat) : Option (List (Nat × Nat)) :=
  let set := fun (l : List (Nat × Nat)) => (l.filter (·.1 ≠ id)) ++ [(id, val)]
  if id = 1 ∨ id = 3 ∨ id = 6 then some (set acc)
  else if id = 2 ∨ id = 8 then (if val ≤ 1 then some (set acc) else none)
  else if id = 4 then (if val > Generated.Consts.MAX_INITIAL_WINDOW_SIZE then none else some (set acc))
  else if id = 5 then
    (if Generated.Consts.DEFAULT_MAX_FRAME_SIZE ≤ val ∧ val ≤ Generated.Consts.MAX_MAX_FRAME_SIZE then some (set acc) else none)
  else some acc   -- unknown identifiers are ignored

def settingsLoop : Nat → Bytes → List (Nat × Nat) → Except FErr (List (Nat × Nat))
  | 0, _, acc => .ok acc
  | fuel + 1, p, acc =>
    if p.length < 6 then .ok acc
    else match applySetting acc (rd16 p) (rd32 (p.drop 2)) with
      | none => .error .invalidSettingValue
      | some acc' => settingsLoop fuel (p.drop 6) acc'

/-- canonical order of `Settings::for_each` -/
def settingsOrder (vals : List (Nat × Nat)) : List (Nat × Nat) :=
  [1, 2, 3, 4, 5, 6, 8].filterMap fun id => vals.find? (·.1 = id)

/-- `Settings::load` -/
def loadSettings (h : Head) (payload : Bytes) : Except FErr Frame :=
  if h.sid ≠ 0 then .error .invalidStreamId
  else if h.flag &&& 1 = 1 then
    (if payload.isEmpty then .ok (.settings true []) else .error .invalidPayloadLength)
  else if payload.length % 6 ≠ 0 then .error .invalidPayloadAckSettings
  else match settingsLoop (payload.length / 6 + 1) payload [] with
    | .error e => .error e
    | .ok vals => .ok (.settings false (settingsOrder vals))

/-- `Ping::load` -/
def loadPing (h : Head) (payload : Bytes) : Except FErr Frame :=
  if h.sid ≠ 0 then .error .invalidStreamId
  else if payload.length ≠ 8 then .error .badFrameSize
  else .ok (.ping (h.flag &&& 1 ≠ 0) payload)

/-- `WindowUpdate::load` -/
def loadWindowUpdate (h : Head) (payload : Bytes) : Except FErr Frame :=
  if payload.length ≠ 4 then .error .badFrameSize
  else
    let inc := rd32 payload % 2147483648
    if inc = 0 then .error .invalidWindowUpdateValue else .ok (.windowUpdate h.sid inc)

/-- `Reset::load` -/
def loadReset (h : Head) (payload : Bytes) : Except FErr Frame :=
  if payload.length ≠ 4 then .error .invalidPayloadLength else .ok (.reset h.sid (rd32 payload))

/-- `GoAway::load` (the stream identifier of the frame head is not looked at) -/
def loadGoAway (payload : Bytes) : Except FErr Frame :=
  if payload.length < 8 then .error .badFrameSize
  else .ok (.goAway (parseStreamId payload).1 (rd32 (payload.drop 4)) (payload.drop 8))

/-- `Priority::load` -/
def loadPriority (h : Head) (payload : Bytes) : Except FErr Frame :=
  if payload.length ≠ 5 then .error .invalidPayloadLength
  else
    let (dep, excl) := parseStreamId payload
    if dep = h.sid then .error .invalidDependencyId
    else .ok (.priority h.sid dep (payload.getD 4 0) excl)

-- ===================================================================== header frames

/-- `Headers::load`: everything but the HPACK step. Result: (sid, eos, endHeaders, dep, block fragment) -/
def loadHeadersHead (h : Head) (src : Bytes) :
    Except FErr (Nat × Bool × Bool × Option (Nat × Nat × Bool) × Bytes) :=
  let flags := h.flag &&& 45   -- END_STREAM | END_HEADERS | PADDED | PRIORITY
  if h.sid = 0 then .error .invalidStreamId
  else
    let padded := flags &&& 8 = 8
    if padded ∧ src.isEmpty then .error .malformedMessage
    else
      let pad := if padded then src.getD 0 0 else 0
      let src := if padded then src.drop 1 else src
      let prio := flags &&& 32 = 32
      if prio ∧ src.length < 5 then .error .malformedMessage
      else
        let (dep, excl) := parseStreamId src
        if prio ∧ dep = h.sid then .error .invalidDependencyId
        else
          let depv := if prio then some (dep, src.getD 4 0, excl) else none
          let src := if prio then src.drop 5 else src
          if pad > src.length then .error .tooMuchPadding
          else .ok (h.sid, flags &&& 1 = 1, flags &&& 4 = 4, depv, src.take (src.length - pad))

/-- `PushPromise::load`: (sid, promised, endHeaders, block fragment) -/
def loadPushPromiseHead (h : Head) (src : Bytes) : Except FErr (Nat × Nat × Bool × Bytes) :=
  let flags := h.flag &&& 12   -- END_HEADERS | PADDED
  if h.sid = 0 then .error .invalidStreamId
  else
    let padded := flags &&& 8 = 8
    if padded ∧ src.isEmpty then .error .malformedMessage
    else
      let pad := if padded then src.getD 0 0 else 0
      let src := if padded then src.drop 1 else src
      if src.length < 4 then .error .malformedMessage
      else
        let promised := (parseStreamId src).1
        let src := src.drop 4
        if pad > src.length then .error .tooMuchPadding
        else .ok (h.sid, promised, flags &&& 4 = 4, src.take (src.length - pad))

def decodedHeaderSize (name value : Nat) : Nat := name + value + 32

/-- `HeaderBlock::calculate_header_list_size` (`:protocol` is not counted, as in the source) -/
def HeaderBlock.listSize (b : HeaderBlock) : Nat :=
  let ps := fun (o : Option Bytes) (n : Nat) => match o with | some v => decodedHeaderSize n v.length | none => 0
  ps b.pseudo.method 7 + ps b.pseudo.scheme 7 + ps b.pseudo.status 7 + ps b.pseudo.authority 10 + ps b.pseudo.path 5
    + b.fieldSize

def connHeaders : List Bytes :=
  [Http.str "connection", Http.str "transfer-encoding", Http.str "upgrade", Http.str "keep-alive", Http.str "proxy-connection"]

structure LoadSt where
  blk : HeaderBlock
  reg : Bool
  malformed : Bool
  wayTooLarge : Bool
  headersSize : Nat
  deriving Repr

def getPseudo (p : Pseudo) (name : Bytes) : Option Bytes :=
  if name = pMethod then p.method else if name = pScheme then p.scheme
  else if name = pAuthority then p.authority else if name = pPath then p.path
  else if name = pProtocol then p.protocol else p.status

def setPseudo (p : Pseudo) (name v : Bytes) : Pseudo :=
  if name = pMethod then { p with method := some v } else if name = pScheme then { p with scheme := some v }
  else if name = pAuthority then { p with authority := some v } else if name = pPath then { p with path := some v }
  else if name = pProtocol then { p with protocol := some v } else { p with status := some v }

/-- the callback of `HeaderBlock::load` for one decoded header; `true` = `ControlFlow::Break` -/
def loadField (maxList abuseMax : Nat) (s : LoadSt) (h : Header) : LoadSt × Bool :=
  let checkSize := fun (s : LoadSt) =>
    if s.headersSize > abuseMax then ({ s with wayTooLarge := true }, true)
    else if s.headersSize ≥ maxList ∧ ¬ s.blk.isOverSize then ({ s with blk := { s.blk with isOverSize := true } }, false)
    else (s, false)
  if h.1.head? = some 58 then
    -- set_pseudo!
    if s.reg then ({ s with malformed := true }, false)
    else if (getPseudo s.blk.pseudo h.1).isSome then ({ s with malformed := true }, false)
    else
      let s1 := { s with headersSize := s.headersSize + decodedHeaderSize h.1.length h.2.length }
      let (s2, brk) := checkSize s1
      if brk then (s2, true)
      else if ¬ s2.blk.isOverSize then ({ s2 with blk := { s2.blk with pseudo := setPseudo s2.blk.pseudo h.1 h.2 } }, false)
      else (s2, false)
  else if connHeaders.contains h.1 then ({ s with malformed := true }, false)
  else if h.1 = Http.str "te" ∧ h.2 ≠ Http.str "trailers" then ({ s with malformed := true }, false)
  else
    let hs := decodedHeaderSize h.1.length h.2.length
    let s1 := { s with reg := true, headersSize := s.headersSize + hs }
    let (s2, brk) := checkSize s1
    if brk then (s2, true)
    else if ¬ s2.blk.isOverSize then
      ({ s2 with blk := { s2.blk with fieldSize := s2.blk.fieldSize + hs, fields := appendField s2.blk.fields h.1 h.2 } }, false)
    else (s2, false)

/-- fold of the callback over the decoded headers, stopping at the first `Break` -/
def loadFields (maxList abuseMax : Nat) : List Header → LoadSt → LoadSt
  | [], s => s
  | h :: rest, s =>
    let (s', brk) := loadField maxList abuseMax s h
    if brk then s' else loadFields maxList abuseMax rest s'

/-- `HeaderBlock::load(src, max_header_list_size, decoder)`: new block, new decoder, undecoded tail, result.
    NOTE: when the callback breaks, the real decoder stops early; a break is always followed by
    `HeaderListWayTooLarge` (fatal), so the decoder state after it is unobservable. -/
def HeaderBlock.load (b : HeaderBlock) (src : Bytes) (maxList : Nat) (dec : Decoder) :
    HeaderBlock × Decoder × Bytes × Except FErr Unit :=
  let abuseMax := maxList * Generated.Consts.MAX_HEADER_LIST_ABUSE_MULTIPLIER
  let o := dec.decode src
  let s0 : LoadSt := { blk := b, reg := !b.fields.isEmpty, malformed := b.isMalformed, wayTooLarge := false, headersSize := b.listSize }
  let s1 := loadFields maxList abuseMax o.fields s0
  -- `self.is_malformed = malformed;` right after the decoder loop, whatever its result
  let s : LoadSt := { s1 with blk := { s1.blk with isMalformed := s1.malformed } }
  -- a `Break` ends the decoder loop with `Ok(())`: errors behind the breaking field are never reached
  if s.wayTooLarge then (s.blk, o.dec, o.tail, .error .headerListWayTooLarge)
  else match o.result with
  | .error e => (s.blk, o.dec, o.tail, .error (.hpack e))
  | .ok _ =>
    if s.malformed then (s.blk, o.dec, o.tail, .error .malformedMessage)
    else (s.blk, o.dec, o.tail, .ok ())

-- ===================================================================== encode (frames h2 emits)

def settingsPayload (vals : List (Nat × Nat)) : Bytes :=
  (settingsOrder vals).flatMap fun (id, v) => be16 id ++ be32 v

/-- `encode` of the fixed-shape frames; DATA is `encode_chunk` (h2 never emits padding) -/
def encodeSimple : Frame → Option Bytes
  | .data sid payload eos _ => some ((Head.mk 0 (if eos then 1 else 0) sid).encode payload.length ++ payload)
  | .settings ack vals => some ((Head.mk 4 (if ack then 1 else 0) 0).encode (settingsPayload vals).length ++ settingsPayload vals)
  | .ping ack p => some ((Head.mk 6 (if ack then 1 else 0) 0).encode 8 ++ p)
  | .goAway last code dbg => some ((Head.mk 7 0 0).encode (8 + dbg.length) ++ be32 last ++ be32 code ++ dbg)
  | .windowUpdate sid inc => some ((Head.mk 8 0 sid).encode 4 ++ be32 inc)
  | .reset sid code => some ((Head.mk 3 0 sid).encode 4 ++ be32 code)
  | _ => none

/-- `EncodingHeaderBlock::encode` + the CONTINUATION chain produced by `unset_frame`: a header block
    `hpack` behind `pre` (the promised id of PUSH_PROMISE), every frame limited to `maxFrame` payload
    octets. `first` = (kind, flags with END_HEADERS set). -/
def splitBlock : Nat → Nat → Nat → Nat → Nat → Bytes → Bytes → Bytes
  | 0, _, _, _, _, _, _ => []
  | fuel + 1, maxFrame, kind, flags, sid, pre, hpack =>
    let room := maxFrame - pre.length
    if hpack.length > room then
      (Head.mk kind (flags - 4) sid).encode (pre.length + room) ++ pre ++ hpack.take room ++
        splitBlock fuel maxFrame 9 4 sid [] (hpack.drop room)
    else
      (Head.mk kind flags sid).encode (pre.length + hpack.length) ++ pre ++ hpack

end H2V.Model.Frame
