import H2V.Model.ConnSend
/-
  Connection-level model, part 7 — mirror of `src/proto/streams/recv.rs`, both roles.
  `server::Peer::convert_poll_message` is here too (`convertPollMessageServer`): h2's own checks are
  complete, the URI parsers of the `http` crate are known on a subset only (see ConnNOTES.md §3).
  `poll_pushed` is not mirrored (no harness op).
  A `task: &mut Option<Waker>` argument is the flag `useTask` (`true` = `&mut actions.task`,
  `false` = `&mut None`).
-/
namespace H2V.Model.Conn
open H2V H2V.Model

/-- what the stream layer looks at in a received HEADERS frame -/
structure HeadersIn where
  sid : Nat
  eos : Bool
  status : Option Bytes
  method : Option Bytes := none
  scheme : Option Bytes := none
  authority : Option Bytes := none
  path : Option Bytes := none
  hasProtocol : Bool := false
  fields : Fields := []
  isOverSize : Bool := false
  deriving Repr

/-- `Pseudo::is_informational`: status 1xx -/
def HeadersIn.isInformational (h : HeadersIn) : Bool :=
  match h.status with
  | some (a :: _) => a == 49
  | _ => false

/-- `frame::parse_u64` -/
def parseU64 (src : Bytes) : Option Nat :=
  if src.isEmpty then none
  else if src.length > 19 then none
  else src.foldl (fun acc d => match acc with
    | none => none
    | some r => if d < 48 || d > 57 then none else some (r * 10 + (d - 48))) (some 0)

/-- result of `server::Peer::convert_poll_message` -/
inductive ConvReq where
  | ok (method uri : Bytes)
  | malformed                  -- `Err(library_reset(stream_id, PROTOCOL_ERROR))`
  | unsupported                -- outside the subset of URIs the model knows how `http` parses
  deriving Repr, DecidableEq

def isAlnum (b : Nat) : Bool := Http.isDigit b || Http.isLower b || Http.isUpper b

/-- authorities the model accepts without knowing `http::uri::Authority`'s full grammar:
    a registered name of letters, digits, `.`, `-`, optionally `:` and digits -/
def simpleAuthority (a : Bytes) : Bool :=
  let host := a.takeWhile (· != 58)
  let rest := a.dropWhile (· != 58)
  !host.isEmpty && host.all (fun b => isAlnum b || b == 46 || b == 45) &&
  (rest.isEmpty || (rest.length > 1 && rest.length ≤ 5 && (rest.drop 1).all Http.isDigit))

/-- paths the model accepts: `*`, or `/` followed by unreserved characters and `/` (no query) -/
def simplePath (p : Bytes) : Bool :=
  p == [42] || (p.head? == some 47 && p.all (fun b => isAlnum b || b == 47 || b == 46 || b == 45 || b == 95 || b == 126))

/-- `server::Peer::convert_poll_message(pseudo, fields, stream_id)` on the subset of requests whose
    URI components are "simple" (everything the scripted peers send); the checks of h2 itself are
    complete, the parsers of the `http` crate are only known on that subset -/
def convertPollMessageServer (h : HeadersIn) : ConvReq :=
  match h.method with
  | none => .malformed
  | some method =>
    let isConnect := method == Http.str "CONNECT"
    if h.hasProtocol && !isConnect then .malformed
    else if h.status.isSome then .malformed
    else if (match h.authority with | some a => !simpleAuthority a | none => false) then .unsupported
    else if h.authority.isNone && isConnect then .malformed            -- CONNECT names what to connect to
    else if (h.scheme.isSome && isConnect && !h.hasProtocol) then .malformed
    else if (match h.scheme with | some sc => sc != Http.str "http" && sc != Http.str "https" | none => false) then .unsupported
    else if h.scheme.isNone && (!isConnect || h.hasProtocol) then .malformed
    else if (match h.path with | some _ => isConnect && !h.hasProtocol | none => false) then .malformed
    else if h.path == some [] then .malformed
    else if (match h.path with | some p => !simplePath p | none => false) then .unsupported
    else if h.path.isNone && isConnect && h.hasProtocol then .malformed
    else if h.path.isNone && !isConnect then .malformed                -- every request but CONNECT carries `:path`
    else
      -- `uri::Parts`: the scheme is dropped without an authority; `Uri::from_parts`
      let scheme := if h.authority.isSome then h.scheme else none
      if scheme.isSome && h.path.isNone then .malformed                        -- PathAndQueryMissing
      else if scheme.isNone && h.authority.isSome && h.path.isSome then .malformed   -- SchemeMissing
      else
        -- `impl Display for Uri`
        let uri := (match scheme with | some sc => sc ++ Http.str "://" | none => []) ++ (h.authority.getD []) ++
                   (match h.path with
                    | some p => p
                    | none => if scheme.isSome then Http.str "/" else [])
        .ok method uri

/-- `RecvHeaderBlockError` + `Ok` -/
inductive RecvHeadersRes where
  | ok
  | oversize (answer431 : Bool)
  | state (e : PErr)
  | unsupported
  deriving Repr

namespace Streams

/-- `Recv::release_connection_capacity(capacity, task)` -/
def releaseConnectionCapacity (s : Streams) (capacity : Nat) (useTask : Bool) : Streams :=
  let s := s.modRecv fun r => { r with inFlightData := wrapSubU32 r.inFlightData capacity,
                                       flow := (r.flow.assignCapacity capacity).1 }
  if s.recv.flow.unclaimedCapacity.isSome && useTask then s.notifyTask else s

/-- `Recv::release_capacity(capacity, stream, task)` -/
def releaseCapacity (s : Streams) (id : Nat) (capacity : Nat) (useTask : Bool) : Streams × Except UserError Unit :=
  if capacity > (s.stream id).inFlightRecvData then (s, .error .releaseCapacityTooBig)
  else
    let s := s.releaseConnectionCapacity capacity useTask
    let s := s.modStream id fun st => { st with inFlightRecvData := wrapSubU32 st.inFlightRecvData capacity,
                                                recvFlow := (st.recvFlow.assignCapacity capacity).1 }
    if (s.stream id).recvFlow.unclaimedCapacity.isSome then
      let s := (s.qPush .pendingWindowUpdates id).1
      (if useTask then s.notifyTask else s, .ok ())
    else (s, .ok ())

/-- the `while let Some(event) = pop_front` loop of `clear_recv_buffer`: (`to_release`, counts) -/
def clearRecvBufferLoop (inFlight : Nat) : List REvent → Nat → Counts → Nat × Counts
  | [], acc, c => (acc, c)
  | .data payload budgeted :: rest, acc, c =>
    let c := if budgeted then c.releaseDataFrame payload.length else c
    let acc := min (min (acc + usizeAsU32 payload.length) U32_MAX) inFlight
    clearRecvBufferLoop inFlight rest acc c
  | _ :: rest, acc, c => clearRecvBufferLoop inFlight rest acc c

/-- `Recv::clear_recv_buffer(stream, task, counts)` -/
def clearRecvBuffer (s : Streams) (id : Nat) (useTask : Bool) : Streams :=
  let st := s.stream id
  let (toRelease, c) := clearRecvBufferLoop st.inFlightRecvData st.pendingRecv 0 s.counts
  let s := { s with counts := c }
  let s := s.modStream id fun st => { st with pendingRecv := [] }
  if toRelease > 0 then
    let s := s.modStream id fun st => { st with inFlightRecvData := wrapSubU32 st.inFlightRecvData toRelease }
    s.releaseConnectionCapacity toRelease useTask
  else s

/-- `Recv::release_closed_capacity(stream, task, counts)` -/
def releaseClosedCapacity (s : Streams) (id : Nat) : Streams :=
  let st := s.stream id
  let s :=
    if st.inFlightRecvData != 0 then
      let s := s.releaseConnectionCapacity st.inFlightRecvData true
      s.modStream id fun st => { st with inFlightRecvData := 0 }
    else s
  s.clearRecvBuffer id true

/-- `Recv::set_target_connection_window(target, task)` -/
def setTargetConnectionWindow (s : Streams) (target : Nat) : Streams × Except Reason Unit :=
  match s.recv.flow.available.add s.recv.inFlightData with
  | .error _ => (s, .error FLOW_CONTROL_ERROR)
  | .ok w =>
    match w.checkedSize with
    | none => (s.panic "negative Window", .ok ())
    | some current =>
      let (fl, r) := if target > current then s.recv.flow.assignCapacity (target - current)
                     else s.recv.flow.claimCapacity (current - target)
      match r with
      | .error _ => (s, .error FLOW_CONTROL_ERROR)
      | .ok _ =>
        let s := s.modRecv fun rc => { rc with flow := fl }
        (if s.recv.flow.unclaimedCapacity.isSome then s.notifyTask else s, .ok ())

/-- `Recv::apply_local_settings(settings, store)`: only `initial_window_size` and
    `enable_connect_protocol` of the frame are looked at -/
def applyLocalSettings (s : Streams) (initialWindowSize enableConnect : Option Nat) : Streams × Except PErr Unit :=
  let s := match enableConnect with
    | some v => s.modRecv fun r => { r with isExtendedConnectProtocolEnabled := v != 0 }
    | none => s
  match initialWindowSize with
  | none => (s, .ok ())
  | some target =>
    let oldSz := s.recv.initWindowSz
    let s := s.modRecv fun r => { r with initWindowSz := target }
    let (s, res) : Streams × Option PErr :=
      if target < oldSz then
        let dec := oldSz - target
        s.storeTryForEach fun s id =>
          match (s.stream id).recvFlow.decRecvWindow dec with
          | (fl, .error _) => (s.modStream id fun st => { st with recvFlow := fl }, some (PErr.libraryGoAway FLOW_CONTROL_ERROR))
          | (fl, .ok _) =>
            let s := s.modStream id fun st => { st with recvFlow := fl }
            if fl.unclaimedCapacity.isSome then ((s.qPush .pendingWindowUpdates id).1, none) else (s, none)
      else if target > oldSz then
        let inc := target - oldSz
        s.storeTryForEach fun s id =>
          match (s.stream id).recvFlow.incWindow inc with
          | (_, .error _) => (s, some (PErr.libraryGoAway FLOW_CONTROL_ERROR))
          | (fl, .ok _) =>
            match fl.assignCapacity inc with
            | (fl2, .error _) => (s.modStream id fun st => { st with recvFlow := fl2 }, some (PErr.libraryGoAway FLOW_CONTROL_ERROR))
            | (fl2, .ok _) => (s.modStream id fun st => { st with recvFlow := fl2 }, none)
      else (s, none)
    match res with
    | some e => (s, .error e)
    | none => (s, .ok ())

/-- `Recv::is_end_stream(stream)` -/
def isEndStream (s : Streams) (id : Nat) : Bool :=
  let st := s.stream id
  st.state.isRecvEndStream && st.pendingRecv.isEmpty

/-- `Recv::consume_connection_window(sz)` -/
def consumeConnectionWindow (s : Streams) (sz : Nat) : Streams × Except PErr Unit :=
  if s.recv.flow.windowSz < sz then (s, .error (PErr.libraryGoAway FLOW_CONTROL_ERROR))
  else
    match s.recv.flow.sendData sz with
    | (fl, .error (.reason r)) => (s.modRecv fun rc => { rc with flow := fl }, .error (PErr.libraryGoAway r))
    | (_, .error .assertFailed) => (s.panic "assertion failed: self.window_size.0 >= sz as i32 (recv)", .ok ())
    | (fl, .ok _) =>
      (s.modRecv fun rc => { rc with flow := fl, inFlightData := wrapAddU32 rc.inFlightData sz }, .ok ())

/-- `Recv::ignore_data(sz)` -/
def ignoreData (s : Streams) (sz : Nat) : Streams × Except PErr Unit :=
  match s.consumeConnectionWindow sz with
  | (s, .error e) => (s, .error e)
  | (s, .ok _) => (s.releaseConnectionCapacity sz false, .ok ())

/-- `Recv::open(id, mode, counts)`: `Ok(Some(id))` = `some true`, `Ok(None)` (refused) = `some false` -/
def recvOpen (s : Streams) (id : Nat) (isPushPromise : Bool) : Streams × Except PErr Bool :=
  let s := if s.recv.refused.isSome then s.panic "assertion failed: self.refused.is_none()" else s
  -- `peer.ensure_can_open(id, mode)`
  let canOpen :=
    if s.counts.isServer then !(isPushPromise || id % 2 == 0)
    else !(!isPushPromise || !(id % 2 == 0))
  if !canOpen then (s, .error (PErr.libraryGoAway PROTOCOL_ERROR))
  else
    match s.recv.nextStreamId with
    | none => (s, .error (PErr.libraryGoAway PROTOCOL_ERROR))
    | some nextId =>
      if id < nextId then (s, .error (PErr.libraryGoAway PROTOCOL_ERROR))
      else
        let s := s.modRecv fun r => { r with nextStreamId := if id + 2 > 2147483647 then none else some (id + 2) }
        if !s.counts.canIncNumRecvStreams then (s.modRecv fun r => { r with refused := some id }, .ok false)
        else (s, .ok true)

/-- `if stream.state.is_recv_end_stream() { stream.notify_push() }`: when END_STREAM closes the receive side no
    more PUSH_PROMISE can arrive; a task parked in `poll_pushed` has to hear about it -/
def notifyPushIfRecvEnded (s : Streams) (id : Nat) : Streams :=
  if (s.stream id).state.isRecvEndStream then s.modStreamW id Stream.notifyPush else s

/-- `Recv::recv_headers(frame, stream, counts)` -/
def recvRecvHeaders (s : Streams) (id : Nat) (h : HeadersIn) : Streams × RecvHeadersRes :=
  match (s.stream id).state.recvOpen h.eos h.isInformational with
  | (_, .error e) => (s, .state e)
  | (st', .ok isInitial) =>
    let s := s.modStream id fun st => { st with state := st' }
    -- a promised stream is not counted while it is only reserved: the limit may have been reached since
    if isInitial && !(s.stream id).isCounted && !s.counts.canIncNumRecvStreams then
      (s, .state (PErr.libraryReset (s.stream id).id REFUSED_STREAM))
    else
    let s :=
      if isInitial && !(s.stream id).isCounted then
        let s := if h.sid > s.recv.lastProcessedId then s.modRecv fun r => { r with lastProcessedId := h.sid } else s
        s.incNumRecvStreams id
      else s
    -- content-length
    let clRes : Streams × Option PErr :=
      if (s.stream id).contentLength != .head then
        match h.fields.find? (fun f => f.1 == Http.str "content-length") with
        | some (_, v :: rest) =>
          match parseU64 v with
          | none => (s, some (PErr.libraryReset (s.stream id).id PROTOCOL_ERROR))
          | some cl =>
            -- `get_all`: a repeated field must say the same
            if rest.any (fun o => parseU64 o != some cl) then (s, some (PErr.libraryReset (s.stream id).id PROTOCOL_ERROR))
            else
            let s := s.modStream id fun st => { st with contentLength := .remaining cl }
            let statusNot204304 := match h.status with
              | some st => st != Http.str "204" && st != Http.str "304"
              | none => true
            if h.eos && cl > 0 && statusNot204304 then (s, some (PErr.libraryReset (s.stream id).id PROTOCOL_ERROR)) else (s, none)
        | _ => (s, none)
      else (s, none)
    match clRes with
    | (s, some e) => (s, .state e)
    | (s, none) =>
      if h.isOverSize then (s, .oversize (s.counts.isServer && isInitial))
      else if h.hasProtocol && s.counts.isServer && !s.recv.isExtendedConnectProtocolEnabled then
        (s, .state (PErr.libraryReset (s.stream id).id PROTOCOL_ERROR))
      else if h.status.isSome && s.counts.isServer then (s, .state (PErr.libraryReset (s.stream id).id PROTOCOL_ERROR))
      else
        -- `convert_poll_message`: `Response::builder()` keeps its default status 200 without `:status`
        let status := h.status.getD (Http.str "200")
        if s.counts.isServer then
          -- (`pseudo.is_informational()` needs a `:status`, which a request does not get this far with)
          match convertPollMessageServer h with
          | .malformed => (s, .state (PErr.libraryReset (s.stream id).id PROTOCOL_ERROR))
          | .unsupported => (s, .unsupported)
          | .ok method uri =>
            let s := s.modStream id fun st => { st with pendingRecv := st.pendingRecv ++ [.request method uri h.fields] }
            let s := s.modStreamW id Stream.notifyRecv
            let s := s.notifyPushIfRecvEnded id
            ((s.qPush .pendingAccept id).1, .ok)
        else if !h.isInformational then
          let s := s.modStream id fun st => { st with pendingRecv := st.pendingRecv ++ [.headers status h.fields] }
          ((s.modStreamW id Stream.notifyRecv).notifyPushIfRecvEnded id, .ok)
        else
          let s := s.modStream id fun st => { st with pendingRecv := st.pendingRecv ++ [.informational status h.fields] }
          (s.modStreamW id Stream.notifyRecv, .ok)

/-- `Recv::recv_trailers(frame, stream)` -/
def recvRecvTrailers (s : Streams) (id : Nat) (h : HeadersIn) : Streams × Except PErr Unit :=
  match (s.stream id).state.recvClose with
  | (_, .error e) => (s, .error e)
  | (st', .ok _) =>
    let s := s.modStream id fun st => { st with state := st' }
    if !(s.stream id).ensureContentLengthZero then (s, .error (PErr.libraryReset (s.stream id).id PROTOCOL_ERROR))
    -- trailers beyond SETTINGS_MAX_HEADER_LIST_SIZE were truncated while decoding: never delivered
    else if h.isOverSize then (s, .error (PErr.libraryReset (s.stream id).id PROTOCOL_ERROR))
    else
      let s := s.modStream id fun st => { st with pendingRecv := st.pendingRecv ++ [.trailers h.fields] }
      -- the stream has ended: no more PUSH_PROMISE can arrive on it
      ((s.modStreamW id Stream.notifyRecv).modStreamW id Stream.notifyPush, .ok ())

/-- `Recv::recv_data(frame, stream)`; the frame is (payload, END_STREAM, pad length) -/
def recvRecvData (s : Streams) (id : Nat) (payload : Bytes) (eos : Bool) (padLen : Option Nat) : Streams × Except PErr Unit :=
  let flowLen := payload.length + (match padLen with | some p => p + 1 | none => 0)
  let s := if flowLen > Generated.Consts.MAX_WINDOW_SIZE then s.panic "assertion failed: sz <= MAX_WINDOW_SIZE" else s
  let sz := usizeAsU32 flowLen
  let st := s.stream id
  let isIgnoringFrame := st.state.isLocalError
  if !isIgnoringFrame && !st.state.isRecvStreaming then (s, .error (PErr.libraryGoAway PROTOCOL_ERROR))
  else if isIgnoringFrame then s.ignoreData sz
  else
    match s.consumeConnectionWindow sz with
    | (s, .error e) => (s, .error e)
    | (s, .ok _) =>
      if (s.stream id).recvFlow.windowSz < sz then (s, .error (PErr.libraryReset (s.stream id).id FLOW_CONTROL_ERROR))
      else
        match (s.stream id).decContentLength payload.length with
        | none => (s, .error (PErr.libraryReset (s.stream id).id PROTOCOL_ERROR))
        | some st1 =>
          let s := s.setStream st1
          -- END_STREAM: content-length must be used up, then the state moves
          let eosRes : Streams × Option PErr :=
            if eos then
              if !(s.stream id).ensureContentLengthZero then (s, some (PErr.libraryReset (s.stream id).id PROTOCOL_ERROR))
              else match (s.stream id).state.recvClose with
                | (_, .error _) => (s, some (PErr.libraryGoAway PROTOCOL_ERROR))
                | (st', .ok _) => (s.modStream id fun st => { st with state := st' }, none)
            else (s, none)
          match eosRes with
          | (s, some e) => (s, .error e)
          | (s, none) =>
            if !(s.stream id).isRecv then ((s.releaseConnectionCapacity sz false).notifyPushIfRecvEnded id, .ok ())
            else
              match (s.stream id).recvFlow.sendData sz with
              | (fl, .error (.reason r)) => (s.modStream id fun st => { st with recvFlow := fl }, .error (PErr.libraryGoAway r))
              | (_, .error .assertFailed) => (s.panic "assertion failed: self.window_size.0 >= sz as i32 (stream recv)", .ok ())
              | (fl, .ok _) =>
                let s := s.modStream id fun st => { st with recvFlow := fl, inFlightRecvData := wrapAddU32 st.inFlightRecvData sz }
                let padding := usizeAsU32 (flowLen - payload.length)
                let s := if padding > 0 then (s.releaseCapacity id padding false).1 else s
                if payload.isEmpty && !eos then (s, .ok ())
                else
                  let s := s.modStream id fun st => { st with pendingRecv := st.pendingRecv ++ [.data payload (!eos)] }
                  ((s.modStreamW id Stream.notifyRecv).notifyPushIfRecvEnded id, .ok ())

/-- `Recv::ensure_can_reserve` -/
def ensureCanReserve (s : Streams) : Except PErr Unit :=
  if !s.recv.isPushEnabled then .error (PErr.libraryGoAway PROTOCOL_ERROR) else .ok ()

/-- result of `Recv::recv_push_promise` -/
inductive RecvPushRes where
  | ok
  | err (e : PErr)
  | unsupported
  deriving Repr

/-- `Recv::recv_push_promise(frame, stream)`; `id` = key of the promised stream, `h` = the request
    head carried by the frame (`h.sid` is the promised id) -/
def recvRecvPushPromise (s : Streams) (id : Nat) (h : HeadersIn) : Streams × RecvPushRes :=
  match (s.stream id).state.reserveRemote with
  | (_, .error e) => (s, .err e)
  | (st', .ok _) =>
    let s := s.modStream id fun st => { st with state := st' }
    if h.isOverSize then (s, .err (PErr.libraryReset h.sid PROTOCOL_ERROR))
    else
      match convertPollMessageServer h with
      | .malformed => (s, .err (PErr.libraryReset h.sid PROTOCOL_ERROR))
      | .unsupported => (s, .unsupported)
      | .ok method uri =>
        -- `PushPromise::validate_request`
        let clOk := match h.fields.find? (fun f => f.1 == Http.str "content-length") with
          | some (_, v :: _) => parseU64 v == some 0
          | _ => true
        let safe := method == Http.str "GET" || method == Http.str "HEAD"
        if !clOk || !safe then (s, .err (PErr.libraryReset h.sid PROTOCOL_ERROR))
        else
          let s := s.modStream id fun st => { st with pendingRecv := st.pendingRecv ++ [.request method uri h.fields] }
          let s := s.modStreamW id Stream.notifyRecv
          (s.modStreamW id Stream.notifyPush, .ok)

/-- `Recv::next_incoming(store)` -/
def recvNextIncoming (s : Streams) : Streams × Option Nat := s.qPop .pendingAccept

/-- `Recv::take_request(stream)`: `none` = the `unreachable!` -/
def recvTakeRequest (s : Streams) (id : Nat) : Streams × Option (Bytes × Bytes × Fields) :=
  match (s.stream id).pendingRecv with
  | .request m u f :: rest => (s.modStream id fun st => { st with pendingRecv := rest }, some (m, u, f))
  | _ :: rest => ((s.modStream id fun st => { st with pendingRecv := rest }).panic "server stream queue must start with Headers", none)
  | [] => (s.panic "server stream queue must start with Headers", none)

/-- `Recv::ensure_not_idle(id)` -/
def recvEnsureNotIdle (s : Streams) (id : Nat) : Except Reason Unit :=
  match s.recv.nextStreamId with
  | some next => if id ≥ next then .error PROTOCOL_ERROR else .ok ()
  | none => .ok ()

/-- `Recv::recv_reset(frame, stream, counts)` -/
def recvRecvReset (s : Streams) (id : Nat) (reason : Reason) : Streams × Except PErr Unit :=
  let st := s.stream id
  let pre : Streams × Option PErr :=
    if st.isPendingAccept then
      if s.counts.canIncNumRemoteResetStreams then
        (s.modCountsA "can_inc_num_remote_reset_streams" Counts.incNumRemoteResetStreams, none)
      else (s, some (PErr.libraryGoAwayData ENHANCE_YOUR_CALM "too_many_resets"))
    else (s, none)
  match pre with
  | (s, some e) => (s, .error e)
  | (s, none) =>
    let s := s.modStream id fun st => { st with state := st.state.recvReset st.id reason st.isPendingSend }
    let s := s.modStreamW id Stream.notifySend
    let s := s.modStreamW id Stream.notifyRecv
    (s.modStreamW id Stream.notifyPush, .ok ())

/-- `Recv::handle_error(err, stream)` -/
def recvHandleError (s : Streams) (id : Nat) (err : PErr) : Streams :=
  let s := s.modStream id fun st => { st with state := st.state.handleError err }
  let s := s.modStreamW id Stream.notifySend
  let s := s.modStreamW id Stream.notifyRecv
  s.modStreamW id Stream.notifyPush

/-- `Recv::go_away(last_processed_id)` -/
def recvGoAway (s : Streams) (lastProcessedId : Nat) : Streams :=
  let s := if s.recv.maxStreamId ≥ lastProcessedId then s else s.panic "assertion failed: self.max_stream_id >= last_processed_id"
  s.modRecv fun r => { r with maxStreamId := lastProcessedId }

/-- `Recv::recv_eof(stream)` -/
def recvRecvEof (s : Streams) (id : Nat) : Streams :=
  let s := s.modStream id fun st => { st with state := st.state.recvEof }
  let s := s.modStreamW id Stream.notifySend
  let s := s.modStreamW id Stream.notifyRecv
  s.modStreamW id Stream.notifyPush

/-- `Recv::may_have_created_stream(id)` -/
def recvMayHaveCreatedStream (s : Streams) (id : Nat) : Bool :=
  match s.recv.nextStreamId with
  | some next => decide (id < next)
  | none => true

/-- `Recv::maybe_reset_next_stream_id(id)` -/
def recvMaybeResetNextStreamId (s : Streams) (id : Nat) : Streams :=
  match s.recv.nextStreamId with
  | some next =>
    if id ≥ next then s.modRecv fun r => { r with nextStreamId := if id + 2 > 2147483647 then none else some (id + 2) }
    else s
  | none => s

/-- `Recv::enqueue_reset_expiration(stream, counts)` -/
def enqueueResetExpiration (s : Streams) (id : Nat) : Streams :=
  let st := s.stream id
  if !st.state.isLocalError || st.isPendingResetExpiration then s
  else if s.counts.canIncNumResetStreams then
    let s := s.modCountsA "can_inc_num_reset_streams" Counts.incNumResetStreams
    (s.qPush .pendingResetExpired id).1
  else s

/-- `Recv::send_pending_refusal(dst)` -/
def sendPendingRefusal (s : Streams) (w : Writer) : Streams × Writer × BufferStatus :=
  match s.recv.refused with
  | some sid =>
    if !w.hasCapacity then (s, w, .codecFull)
    else (s.modRecv fun r => { r with refused := none }, w.bufferSimple 4 s!"R:{sid}:{REFUSED_STREAM}", .complete)
  | none => (s, w, .complete)

/-- `Recv::clear_expired_reset_streams(store, counts)` with a zero `reset_duration`: every queued
    stream has expired (`now - reset_at > 0`); with the harness's default (an hour) none has.
    The clock is the only thing not modelled here. -/
def clearExpiredResetStreams : Nat → Streams → Streams
  | 0, s => s
  | fuel + 1, s =>
    if !s.recv.resetDurationZero then s
    else match s.qPop .pendingResetExpired with
      | (s, none) => s
      | (s, some id) => clearExpiredResetStreams fuel (s.transitionAfter id true)

/-- `Recv::clear_stream_window_update_queue` -/
def clearStreamWindowUpdateQueue : Nat → Streams → Streams
  | 0, s => s
  | fuel + 1, s =>
    match s.qPop .pendingWindowUpdates with
    | (s, none) => s
    | (s, some id) =>
      let isPendingReset := (s.stream id).isPendingResetExpiration
      clearStreamWindowUpdateQueue fuel (s.transitionAfter id isPendingReset)

/-- `Recv::clear_all_reset_streams` -/
def clearAllResetStreams : Nat → Streams → Streams
  | 0, s => s
  | fuel + 1, s =>
    match s.qPop .pendingResetExpired with
    | (s, none) => s
    | (s, some id) => clearAllResetStreams fuel (s.transitionAfter id true)

/-- `Recv::clear_all_pending_accept` -/
def clearAllPendingAccept : Nat → Streams → Streams
  | 0, s => s
  | fuel + 1, s =>
    match s.qPop .pendingAccept with
    | (s, none) => s
    | (s, some id) => clearAllPendingAccept fuel (s.transitionAfter id false)

/-- `Recv::clear_queues(clear_pending_accept, store, counts)` -/
def recvClearQueues (s : Streams) (clearPendingAccept : Bool) : Streams :=
  let s := clearStreamWindowUpdateQueue (s.recv.pendingWindowUpdates.length + 1) s
  let s := clearAllResetStreams (s.recv.pendingResetExpired.length + 1) s
  if clearPendingAccept then clearAllPendingAccept (s.recv.pendingAccept.length + 1) s else s

/-- `Recv::send_connection_window_update(dst)` -/
def sendConnectionWindowUpdate (s : Streams) (w : Writer) : Streams × Writer × BufferStatus :=
  match s.recv.flow.unclaimedCapacity with
  | some incr =>
    if !w.hasCapacity then (s, w, .codecFull)
    else
      let w := w.bufferSimple 4 s!"W:0:{incr}"
      match s.recv.flow.incWindow incr with
      | (fl, .ok _) => (s.modRecv fun r => { r with flow := fl }, w, .complete)
      | (_, .error _) => (s.panic "unexpected flow control state", w, .complete)
  | none => (s, w, .complete)

/-- `Recv::send_stream_window_updates(store, counts, dst)`; fuel = queue length + 1 -/
def sendStreamWindowUpdates : Nat → Streams → Writer → Streams × Writer × BufferStatus
  | 0, s, w => (s, w, .complete)
  | fuel + 1, s, w =>
    if !w.hasCapacity then (s, w, .codecFull)
    else match s.qPop .pendingWindowUpdates with
      | (s, none) => (s, w, .complete)
      | (s, some id) =>
        let st := s.stream id
        let isPendingReset := st.isPendingResetExpiration
        let (s, w) :=
          if !st.state.isRecvStreaming then (s, w)
          else match st.recvFlow.unclaimedCapacity with
            | some incr =>
              let w := w.bufferSimple 4 s!"W:{st.id}:{incr}"
              match st.recvFlow.incWindow incr with
              | (fl, .ok _) => (s.modStream id fun st => { st with recvFlow := fl }, w)
              | (_, .error _) => (s.panic "unexpected flow control state", w)
            | none => (s, w)
        sendStreamWindowUpdates fuel (s.transitionAfter id isPendingReset) w

/-- `Recv::buffer_pending(store, counts, dst)` -/
def recvBufferPending (s : Streams) (w : Writer) : Streams × Writer × BufferStatus :=
  match s.sendConnectionWindowUpdate w with
  | (s, w, .codecFull) => (s, w, .codecFull)
  | (s, w, .complete) => sendStreamWindowUpdates (s.recv.pendingWindowUpdates.length + 1) s w

/-- answer of `poll_data` -/
inductive PollData where
  | pending | none | data (payload : Bytes) (isBudgeted : Bool) | err (e : PErr)
  deriving Repr

/-- `Recv::schedule_recv(cx, stream)`: `Ok(true)` = pending (task stored), `Ok(false)` = end -/
def scheduleRecv (s : Streams) (id : Nat) (tag : String) : Streams × Except PErr Bool :=
  match (s.stream id).state.ensureRecvOpen with
  | .error e => (s, .error e)
  | .ok true => (s.modStream id fun st => { st with recvTask := some tag }, .ok true)
  | .ok false => (s, .ok false)

/-- `Recv::poll_data(cx, stream)` -/
def recvPollData (s : Streams) (id : Nat) (tag : String) : Streams × PollData :=
  match (s.stream id).pendingRecv with
  | .data payload budgeted :: rest =>
    (s.modStream id fun st => { st with pendingRecv := rest }, .data payload budgeted)
  | _ :: _ => (s.modStreamW id Stream.notifyRecv, .none)
  | [] =>
    match s.scheduleRecv id tag with
    | (s, .error e) => (s, .err e)
    | (s, .ok true) => (s, .pending)
    | (s, .ok false) => (s, .none)

/-- answer of `poll_trailers` -/
inductive PollTrailers where
  | pending | none | trailers (f : Fields) | err (e : PErr)
  deriving Repr

/-- `Recv::poll_trailers(cx, stream)` -/
def recvPollTrailers (s : Streams) (id : Nat) (tag : String) : Streams × PollTrailers :=
  match (s.stream id).pendingRecv with
  | .trailers f :: rest => (s.modStream id fun st => { st with pendingRecv := rest }, .trailers f)
  | _ :: _ => (s.modStream id fun st => { st with recvTask := some tag }, .pending)
  | [] =>
    match s.scheduleRecv id tag with
    | (s, .error e) => (s, .err e)
    | (s, .ok true) => (s, .pending)
    | (s, .ok false) => (s, .none)

/-- answer of `poll_response` -/
inductive PollResponse where
  | pending | response (status : Bytes) (f : Fields) | err (e : PErr) | panic
  deriving Repr

/-- `Recv::poll_response(cx, stream)`; fuel = queue length + 1 (informational heads are skipped) -/
def recvPollResponse : Nat → Streams → Nat → String → Streams × PollResponse
  | 0, s, _, _ => (s, .pending)
  | fuel + 1, s, id, tag =>
    match (s.stream id).pendingRecv with
    | .headers status f :: rest => (s.modStream id fun st => { st with pendingRecv := rest }, .response status f)
    | .informational _ _ :: rest => recvPollResponse fuel (s.modStream id fun st => { st with pendingRecv := rest }) id tag
    | _ :: rest => ((s.modStream id fun st => { st with pendingRecv := rest }).panic "poll_response called after response returned", .panic)
    | [] =>
      match (s.stream id).state.ensureRecvOpen with
      | .error e => (s, .err e)
      | .ok false => (s, .err (PErr.libraryReset (s.stream id).id PROTOCOL_ERROR))
      | .ok true => (s.modStream id fun st => { st with recvTask := some tag }, .pending)

/-- answer of `poll_informational` -/
inductive PollInformational where
  | pending | none | response (status : Bytes) | err (e : PErr)
  deriving Repr

/-- `Recv::poll_informational(cx, stream)` -/
def recvPollInformational (s : Streams) (id : Nat) (tag : String) : Streams × PollInformational :=
  let front : Option (Streams × PollInformational) :=
    match (s.stream id).pendingRecv with
    | .headers _ _ :: _ => some (s, .none)              -- final response: put back, no more 1xx
    | .informational status _ :: rest => some (s.modStream id fun st => { st with pendingRecv := rest }, .response status)
    | _ => none                                         -- other event (put back) or empty queue
  match front with
  | some r => r
  | none =>
    match (s.stream id).state.ensureRecvOpen with
    | .error e => (s, .err e)
    | .ok true => (s.modStream id fun st => { st with recvTask := some tag }, .pending)
    | .ok false => (s, .none)

/-- answer of `poll_pushed` -/
inductive PollPushed where
  | pending | none | pushed (key : Nat) (method uri : Bytes) (f : Fields) | err (e : PErr) | panic
  deriving Repr

/-- `Recv::poll_pushed(cx, stream)`: the next promised stream of this stream's `pending_push_promises`, with the
    promised request taken off the front of ITS receive queue -/
def recvPollPushed (s : Streams) (id : Nat) (tag : String) : Streams × PollPushed :=
  match (s.stream id).pendingPushPromises with
  | child :: rest =>
    let s := s.modStream id fun st => { st with pendingPushPromises := rest }
    let s := s.modStream child fun st => { st with isPendingAccept := false }
    match (s.stream child).pendingRecv with
    | .request method uri f :: r => (s.modStream child fun st => { st with pendingRecv := r }, .pushed child method uri f)
    | _ => (s.panic "Headers not set on pushed stream", .panic)
  | [] =>
    match (s.stream id).state.ensureRecvOpen with
    | .error e => (s, .err e)
    | .ok true => (s.modStream id fun st => { st with pushTask := some tag }, .pending)
    | .ok false => (s, .none)

end Streams

end H2V.Model.Conn
