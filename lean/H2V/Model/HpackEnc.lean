import H2V.Model.HpackDec
import H2V.Generated.IndexStatic
import H2V.Generated.Consts
/-
  A4 — abstract mirror of `src/hpack/encoder.rs` + `src/hpack/table.rs`.
  The table is the list of entries, newest first (what the robin-hood index over the `VecDeque`
  represents); `Table::index` is mirrored at that level: static match, `skip_value_index`, the 3/4
  rule, the chain walk oldest -> newest among same-name entries, sensitive values, eviction *before*
  insertion.  Output is byte-exact (`encode_int`, always-Huffman `encode_str`).
  The concrete hash index (`mask/indices/slots/inserted`) is NOT modelled here; the byte-exact
  correspondence check is what ties this abstraction to the concrete structure.
-/
namespace H2V.Model.Hpack
open H2V H2V.Generated.IndexStatic

inductive SizeUpdate where
  | one (v : Nat)
  | two (min max : Nat)
  deriving Repr, DecidableEq

structure Encoder where
  entries : List Header      -- newest first (slot 0 = index 62)
  size : Nat
  maxSize : Nat
  maxAllowed : Nat
  sizeUpdate : Option SizeUpdate
  deriving Repr, DecidableEq

/-- `Encoder::new(max_size, _)` -/
def Encoder.new (maxSize : Nat) : Encoder :=
  let allowed := Generated.Consts.ENCODER_DEFAULT_MAX_ALLOWED_SIZE
  { entries := [], size := 0, maxSize := min maxSize allowed, maxAllowed := allowed, sizeUpdate := none }

/-- `Encoder::update_max_size` -/
def Encoder.updateMaxSize (e : Encoder) (v : Nat) : Encoder :=
  let val := min v e.maxAllowed
  match e.sizeUpdate with
  | some (.one old) =>
    if val > old then
      if old > e.maxSize then { e with sizeUpdate := some (.one val) }
      else { e with sizeUpdate := some (.two old val) }
    else { e with sizeUpdate := some (.one val) }
  | some (.two mn _) =>
    if val < mn then { e with sizeUpdate := some (.one val) }
    else { e with sizeUpdate := some (.two mn val) }
  | none =>
    if val ≠ e.maxSize then { e with sizeUpdate := some (.one val) } else e

/-- `Table::converge`: evict the oldest entry while `size > max_size` -/
def Encoder.converge : Nat → Encoder → Encoder
  | 0, e => e
  | fuel + 1, e =>
    if e.size > e.maxSize then
      match e.entries.getLast? with
      | some last => Encoder.converge fuel { e with entries := e.entries.dropLast, size := e.size - last.size }
      | none => e      -- Rust: `pop_back().unwrap()` would panic; unreachable while size = Σ sizes
    else e

/-- `Table::resize` -/
def Encoder.resize (e : Encoder) (n : Nat) : Encoder :=
  if n = 0 then { e with maxSize := 0, size := 0, entries := [] }
  else Encoder.converge (e.entries.length + 1) { e with maxSize := n }

/-- `index_static` -/
def indexStatic (h : Header) : Option (Nat × Bool) :=
  go rules
where
  go : List (List Nat × Option (List Nat) × Nat × Bool) → Option (Nat × Bool)
  | [] => none
  | (n, pat, idx, b) :: rest =>
    if n == h.1 && (match pat with | some v => v == h.2 | none => true) then some (idx, b) else go rest

/-- `Header::skip_value_index` -/
def skipValueIndex (h : Header) : Bool := skipValueNames.contains h.1

inductive Index where
  | indexed (i : Nat)
  | name (i : Nat)
  | inserted
  | insertedValue (i : Nat)
  | notIndexed
  deriving Repr, DecidableEq

/-- `Index::new(statik, header)` -/
def Index.ofStatic : Option (Nat × Bool) → Index
  | none => .notIndexed
  | some (n, true) => .indexed n
  | some (n, false) => .name n

/-- positions (in the newest-first list) of the entries with the given name, oldest first -/
def sameNameOldestFirst (entries : List Header) (name : Bytes) : List Nat :=
  ((List.range entries.length).filter fun i => (entries.getD i ([], [])).1 = name).reverse

/-- `update_size(len, _)` followed by `insert` -/
def Encoder.insert (e : Encoder) (h : Header) : Encoder :=
  let e1 := Encoder.converge (e.entries.length + 1) { e with size := e.size + h.size }
  { e1 with entries := h :: e1.entries }

/-- `Table::index(header)` -/
def Encoder.index (e : Encoder) (h : Header) (sensitive : Bool) : Encoder × Index :=
  let statik := indexStatic h
  if skipValueIndex h then (e, Index.ofStatic statik)
  else match statik with
  | some (n, true) => (e, .indexed n)
  | _ =>
    if h.size * 4 > e.maxSize * 3 then (e, Index.ofStatic statik)
    else
      let chain := sameNameOldestFirst e.entries h.1
      match chain with
      | [] =>
        -- `index_vacant`
        if sensitive then (e, Index.ofStatic statik)
        else
          (e.insert h, match statik with | some (n, _) => .insertedValue n | none => .inserted)
      | _ =>
        -- `index_occupied`: walk the chain oldest -> newest
        match chain.find? (fun i => (e.entries.getD i ([], [])).2 = h.2) with
        | some i => (e, .indexed (i + Generated.Consts.TABLE_DYN_OFFSET))
        | none =>
          let lastIdx := chain.getLast?.getD 0
          if sensitive then (e, .name (lastIdx + Generated.Consts.TABLE_DYN_OFFSET))
          else
            (e.insert h, match statik with
              | some (n, _) => .insertedValue n
              | none => .insertedValue (lastIdx + Generated.Consts.TABLE_DYN_OFFSET))

/-- `encode_str`: always Huffman; the empty string is the single octet 0 -/
def encodeStr (v : Bytes) : Bytes :=
  if v.isEmpty then [0]
  else
    let h := Huffman.encode v
    encodeInt h.length 7 128 ++ h

/-- `encode_not_indexed(name_idx, value, sensitive)` -/
def encodeNotIndexed (idx : Nat) (value : Bytes) (sensitive : Bool) : Bytes :=
  encodeInt idx 4 (if sensitive then 16 else 0) ++ encodeStr value

/-- `encode_not_indexed2(name, value, sensitive)` -/
def encodeNotIndexed2 (name value : Bytes) (sensitive : Bool) : Bytes :=
  [if sensitive then 16 else 0] ++ encodeStr name ++ encodeStr value

/-- `encode_header(index)` -/
def encodeHeader (ix : Index) (h : Header) (sensitive : Bool) : Bytes :=
  match ix with
  | .indexed i => encodeInt i 7 128
  | .name i => encodeNotIndexed i h.2 sensitive
  | .inserted => [64] ++ encodeStr h.1 ++ encodeStr h.2
  | .insertedValue i => encodeInt i 6 64 ++ encodeStr h.2
  | .notIndexed => encodeNotIndexed2 h.1 h.2 sensitive

/-- `Table::resolve_idx(last)` for the nameless path (`none` = the `panic!`) -/
def Index.resolveIdx : Index → Option Nat
  | .indexed i => some i
  | .name i => some i
  | .inserted => some Generated.Consts.TABLE_DYN_OFFSET
  | .insertedValue _ => some Generated.Consts.TABLE_DYN_OFFSET
  | .notIndexed => none

/-- a field as submitted: header, sensitive flag, "nameless" (same name as the previous field,
    yielded with `name: None` by the `HeaderMap` iterator) -/
structure Field where
  h : Header
  sensitive : Bool
  nameless : Bool
  deriving Repr, DecidableEq

/-- `encode_size_updates` -/
def Encoder.encodeSizeUpdates (e : Encoder) : Encoder × Bytes :=
  match e.sizeUpdate with
  | some (.one v) => ((({ e with sizeUpdate := none } : Encoder).resize v), encodeInt v 5 32)
  | some (.two mn mx) =>
    (((({ e with sizeUpdate := none } : Encoder).resize mn).resize mx), encodeInt mn 5 32 ++ encodeInt mx 5 32)
  | none => (e, [])

/-- the `for header in headers` loop of `Encoder::encode`; `last` = (index, header) of the last named field -/
def Encoder.encodeFields : List Field → Encoder → Option (Index × Header) → Bytes → Option (Encoder × Bytes)
  | [], e, _, out => some (e, out)
  | f :: rest, e, last, out =>
    if f.nameless then
      match last with
      | none => none          -- the `panic!("encoding header without name, ...")`
      | some (ix, lh) =>
        match ix.resolveIdx with
        | some i => Encoder.encodeFields rest e last (out ++ encodeNotIndexed i f.h.2 f.sensitive)
        | none => Encoder.encodeFields rest e last (out ++ encodeNotIndexed2 lh.1 f.h.2 f.sensitive)
    else
      let (e', ix) := e.index f.h f.sensitive
      Encoder.encodeFields rest e' (some (ix, f.h)) (out ++ encodeHeader ix f.h f.sensitive)

/-- `Encoder::encode(headers, dst)`; `none` = a `panic!` -/
def Encoder.encode (e : Encoder) (fs : List Field) : Option (Encoder × Bytes) :=
  let (e1, pre) := e.encodeSizeUpdates
  Encoder.encodeFields fs e1 none pre

end H2V.Model.Hpack
