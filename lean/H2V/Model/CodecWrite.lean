import H2V.Model.Frame
import H2V.Model.HpackEnc
/-
  A5 (part 3) — mirror of `src/codec/framed_write.rs`: `Encoder{buf, next, max_frame_size,
  chain_threshold}`, `buffer`, `has_capacity`, `flush` against a script of `poll_write` answers,
  `unset_frame` (CONTINUATION chain).  The growth of the `BytesMut` (which `has_capacity` looks at)
  is modelled by the amortised-doubling rule of `Vec`; that part is `bytes`-crate behaviour and
  belongs to the trusted base.
-/
namespace H2V.Model.CodecWrite
open H2V H2V.Model.Hpack H2V.Model.Frame

inductive Next where
  | data (rest : Bytes)                       -- payload octets not yet handed to the transport
  | continuation (sid : Nat) (hpack : Bytes)  -- rest of a header block
  deriving Repr, DecidableEq

structure Writer where
  buf : Bytes := []            -- `buf` from its cursor position: not yet written
  bufLen : Nat := 0            -- `buf.get_ref().len()`: everything appended since the last `clear`
  cap : Nat := Generated.Consts.DEFAULT_BUFFER_CAPACITY
  next : Option Next := none
  maxFrame : Nat := Generated.Consts.DEFAULT_MAX_FRAME_SIZE
  chainThreshold : Nat := Generated.Consts.CHAIN_THRESHOLD_WITHOUT_VECTORED_IO
  hpack : Encoder := Encoder.new 4096
  deriving Repr

def Writer.minBufferCapacity (w : Writer) : Nat := w.chainThreshold + Generated.Consts.HEADER_LEN

/-- `Encoder::has_capacity` -/
def Writer.hasCapacity (w : Writer) : Bool :=
  w.next.isNone && decide (w.cap - w.bufLen ≥ w.minBufferCapacity)

/-- append to the `BytesMut` (capacity grows like a `Vec`) -/
def Writer.put (w : Writer) (bs : Bytes) : Writer :=
  let len := w.bufLen + bs.length
  { w with buf := w.buf ++ bs, bufLen := len, cap := if len > w.cap then max (2 * w.cap) len else w.cap }

/-- capacity of the `BytesMut` after writing up to length `len` through `Limit<&mut BytesMut>`
    (how header frames are written): `BufMut::put` copies into the spare capacity and calls
    `reserve(64)` whenever the buffer is full and input remains, which doubles a `Vec`-backed
    `BytesMut` each time -/
def growCap : Nat → Nat → Nat → Nat
  | 0, c, _ => c
  | fuel + 1, c, len => if len > c ∧ 0 < c then growCap fuel (2 * c) len else c

/-- `Writer.put` through the `Limit` wrapper: same octets, capacity grown by doubling -/
def Writer.putLimited (w : Writer) (bs : Bytes) : Writer :=
  { w.put bs with cap := growCap 64 w.cap (w.bufLen + bs.length) }

/-- `Encoder::is_empty` -/
def Writer.isEmpty (w : Writer) : Bool :=
  match w.next with
  | some (.data rest) => rest.isEmpty
  | _ => w.buf.isEmpty

inductive BufRes where
  | ok | payloadTooBig | unimplemented
  deriving Repr, DecidableEq

/-- a header frame: first frame limited to `maxFrame` payload octets, the rest left in `next` -/
def Writer.putHeaderFrame (w : Writer) (kind flags sid : Nat) (pre hpack : Bytes) : Writer :=
  let room := w.maxFrame - pre.length
  if hpack.length > room then
    { (w.putLimited ((Head.mk kind (flags - 4) sid).encode (pre.length + room) ++ pre ++ hpack.take room)) with
      next := some (.continuation sid (hpack.drop room)) }
  else w.putLimited ((Head.mk kind flags sid).encode (pre.length + hpack.length) ++ pre ++ hpack)

/-- what `Encoder::buffer` is given: simple frames as values, header frames as field lists -/
inductive Item where
  | simple (f : Frame)
  | headers (sid : Nat) (eos : Bool) (fields : List Field)
  | pushPromise (sid promised : Nat) (fields : List Field)
  deriving Repr

/-- `Encoder::buffer(item)` (precondition `has_capacity`, asserted by the Rust) -/
def Writer.buffer (w : Writer) (it : Item) : Writer × BufRes :=
  match it with
  | .simple (.data sid payload eos _) =>
    let len := payload.length
    if len > w.maxFrame then (w, .payloadTooBig)
    else if len ≥ w.chainThreshold then
      let w1 := w.put ((Head.mk 0 (if eos then 1 else 0) sid).encode len)
      -- `if self.buf.get_ref().remaining() < self.chain_threshold` (`get_ref()` = the whole BytesMut);
      -- `extra_bytes = chain_threshold - self.buf.remaining()` (cursor view)
      if w1.bufLen < w.chainThreshold then
        let extra := w.chainThreshold - w1.buf.length
        ({ (w1.put (payload.take extra)) with next := some (.data (payload.drop extra)) }, .ok)
      else ({ w1 with next := some (.data payload) }, .ok)
    else (w.put ((Head.mk 0 (if eos then 1 else 0) sid).encode len ++ payload), .ok)
  | .simple (.priority ..) => (w, .unimplemented)
  | .simple f =>
    match encodeSimple f with
    | some bs => (w.put bs, .ok)
    | none => (w, .unimplemented)
  | .headers sid eos fields =>
    match w.hpack.encode fields with
    | some (e', block) => (({ w with hpack := e' }).putHeaderFrame 1 (4 + (if eos then 1 else 0)) sid [] block, .ok)
    | none => (w, .unimplemented)
  | .pushPromise sid promised fields =>
    match w.hpack.encode fields with
    | some (e', block) => (({ w with hpack := e' }).putHeaderFrame 5 4 sid (be32 promised) block, .ok)
    | none => (w, .unimplemented)

/-- `Encoder::unset_frame`; `true` = `ControlFlow::Continue` -/
def Writer.unsetFrame (w : Writer) : Writer × Bool :=
  let w := { w with buf := [], bufLen := 0 }
  match w.next with
  | some (.data _) => ({ w with next := none }, false)
  | some (.continuation sid hpack) => (({ w with next := none }).putHeaderFrame 9 4 sid [] hpack, true)
  | none => (w, false)

inductive FlushRes where
  | ready | pending | writeZero | loop
  deriving Repr, DecidableEq

/-- `FramedWrite::flush` against a script of `poll_write` answers (`none` = `Pending`, `some k` =
    accept at most `k` octets; an exhausted script accepts everything).
    Returns the writer, the unused script, the octets accepted by the transport, the result. -/
def Writer.flush : Nat → Writer → List (Option Nat) → Bytes → Writer × List (Option Nat) × Bytes × FlushRes
  | 0, w, sc, out => (w, sc, out, .loop)
  | fuel + 1, w, sc, out =>
    if ¬ w.isEmpty then
      -- one `poll_write_buf`: the current chunk of `buf.chain(payload)`
      let chunk := if ¬ w.buf.isEmpty then w.buf else match w.next with | some (.data rest) => rest | _ => []
      let (ans, sc') := match sc with
        | [] => (some chunk.length, [])
        | a :: rest => (a, rest)
      match ans with
      | none => (w, sc', out, .pending)
      | some k =>
        let n := min k chunk.length
        if n = 0 then (w, sc', out, .writeZero)
        else
          let w' := if ¬ w.buf.isEmpty then { w with buf := w.buf.drop n }
                    else match w.next with
                      | some (.data rest) => { w with next := some (.data (rest.drop n)) }
                      | _ => w
          Writer.flush fuel w' sc' (out ++ chunk.take n)
    else
      let (w', cont) := w.unsetFrame
      if cont then Writer.flush fuel w' sc out else (w', sc, out, .ready)

end H2V.Model.CodecWrite

namespace H2V.Model.CodecWrite

/-- `FramedWrite::shutdown` (src/codec/framed_write.rs): flush first, remember that the final flush
    is done, only then shut the transport down.  Returns the writer, `final_flush_done`, the octets
    the transport accepted during this call, the result, and whether `poll_shutdown` of the
    transport was called. -/
def Writer.shutdown (fuel : Nat) (w : Writer) (done : Bool) (sc : List (Option Nat)) :
    Writer × Bool × Bytes × FlushRes × Bool :=
  if done then (w, true, [], .ready, true)
  else
    match Writer.flush fuel w sc [] with
    | (w', _, out, .ready) => (w', true, out, .ready, true)
    | (w', _, out, r) => (w', false, out, r, false)

/-- repeated `shutdown` calls (one per wake-up), one write script each; stops at the first call that
    reaches the transport's `poll_shutdown` or fails.  Returns everything the transport accepted
    and whether the transport was shut down. -/
def Writer.shutdownRun (fuel : Nat) : Writer → Bool → List (List (Option Nat)) → Bytes → Bytes × Bool
  | _, _, [], acc => (acc, false)
  | w, done, sc :: rest, acc =>
    match Writer.shutdown fuel w done sc with
    | (_, _, out, _, true) => (acc ++ out, true)
    | (w', done', out, .pending, false) => Writer.shutdownRun fuel w' done' rest (acc ++ out)
    | (_, _, out, _, false) => (acc ++ out, false)

end H2V.Model.CodecWrite
