import H2V.Model.ConnStore
import H2V.Model.ConnCodec
/-
  Connection-level model, part 6 — mirror of `src/proto/streams/prioritize.rs` and `send.rs`.
  Every function works on the whole `Streams` value (the Rust passes `&mut self`, the stream `Ptr`
  — which carries the store —, `counts` and `task` separately); a stream entry is named by its store key (parameters called `id` below are keys unless they come
  from a frame).
  Loops carry fuel; the bound used by each caller is stated next to it.
-/
namespace H2V.Model.Conn
open H2V H2V.Model

namespace Streams

-- ===================================================================== prioritize.rs

/-- `Prioritize::schedule_send` -/
def scheduleSend (s : Streams) (id : Nat) : Streams :=
  if (s.stream id).isSendReady then
    ((s.qPush .pendingSend id).1).notifyTask
  else s

/-- `Prioritize::queue_frame` -/
def queueFrame (s : Streams) (id : Nat) (f : SFrame) : Streams :=
  (s.modStream id fun st => { st with pendingSend := st.pendingSend ++ [f] }).scheduleSend id

/-- `Prioritize::queue_open` -/
def queueOpen (s : Streams) (id : Nat) : Streams := (s.qPush .pendingOpen id).1

/-- `Prioritize::try_assign_capacity` -/
def tryAssignCapacity (s : Streams) (id : Nat) : Streams :=
  let st := s.stream id
  if st.isPendingOpen then s
  else
    let totalRequested := st.requestedSendCapacity
    let avail := st.sendFlow.available.asSize
    let additional := min (wrapSubU32 totalRequested avail) (wrapSubU32 st.sendFlow.windowSz avail)
    if additional = 0 then s
    else if !st.state.isSendStreaming && st.bufferedSendData == 0 then s
    else
      let connAvailable := s.prio.flow.available.asSize
      let s :=
        if connAvailable > 0 then
          let assign := min connAvailable additional
          let s := s.modStreamW id fun st => st.assignCapacity assign s.prio.maxBufferSize
          s.modPrio fun p => { p with flow := (p.flow.claimCapacity assign).1 }
        else s
      let st := s.stream id
      let s :=
        if st.sendFlow.available.ltUsize st.requestedSendCapacity && st.sendFlow.hasUnavailable then
          (s.qPush .pendingCapacity id).1
        else s
      if st.bufferedSendData > 0 && st.isSendReady then (s.qPush .pendingSend id).1 else s

/-- the `while self.flow.available() > 0` loop of `assign_connection_capacity`.
    Fuel: a stream is re-queued by `try_assign_capacity` only when the connection window is used up,
    so `pending_capacity.len() + 1` iterations suffice. -/
def assignConnectionCapacityLoop : Nat → Streams → Streams
  | 0, s => s
  | fuel + 1, s =>
    if s.prio.flow.available.gtUsize 0 then
      match s.qPop .pendingCapacity with
      | (s, none) => s
      | (s, some id) =>
        let st := s.stream id
        if !(st.state.isSendStreaming || st.bufferedSendData > 0) then assignConnectionCapacityLoop fuel s
        else
          -- counts.transition(stream, |_, stream| self.try_assign_capacity(stream))
          let isPendingReset := st.isPendingResetExpiration
          let s := s.tryAssignCapacity id
          assignConnectionCapacityLoop fuel (s.transitionAfter id isPendingReset)
    else s

/-- `Prioritize::assign_connection_capacity` -/
def assignConnectionCapacity (s : Streams) (inc : Nat) : Streams :=
  let s := s.modPrio fun p => { p with flow := (p.flow.assignCapacity inc).1 }
  assignConnectionCapacityLoop (s.prio.pendingCapacity.length + 2) s

/-- `Prioritize::reserve_capacity(capacity, stream, counts)` -/
def reserveCapacity (s : Streams) (id : Nat) (capacity : Nat) : Streams :=
  let st := s.stream id
  let cap := capacity + st.bufferedSendData
  if cap = st.requestedSendCapacity then s
  else if cap < st.requestedSendCapacity then
    let s := s.modStream id fun st => { st with requestedSendCapacity := usizeAsU32 cap }
    let available := st.sendFlow.available.asSize
    if available > cap then
      let diff := wrapSubU32 available (usizeAsU32 cap)
      let s := s.modStream id fun st => { st with sendFlow := (st.sendFlow.claimCapacity diff).1 }
      s.assignConnectionCapacity diff
    else s
  else
    if st.state.isSendClosed then s
    else
      let s := s.modStream id fun st => { st with requestedSendCapacity := min cap U32_MAX }
      s.tryAssignCapacity id

/-- `Prioritize::send_data(frame, buffer, stream, counts, task)`; the frame is (`len`, `eos`) -/
def prioSendData (s : Streams) (id : Nat) (len : Nat) (eos : Bool) : Streams × Except UserError Unit :=
  if len > Generated.Consts.MAX_WINDOW_SIZE then (s, .error .payloadTooBig)
  else
    let st := s.stream id
    if !st.state.isSendStreaming then
      (s, .error (if st.state.isClosed then .inactiveStreamId else .unexpectedFrameType))
    else
      let s := s.modStream id fun st => { st with bufferedSendData := st.bufferedSendData + len }
      let st := s.stream id
      let s :=
        if st.requestedSendCapacity < st.bufferedSendData then
          (s.modStream id fun st => { st with requestedSendCapacity := min st.bufferedSendData U32_MAX }).tryAssignCapacity id
        else s
      let s :=
        if eos then
          let s := match (s.stream id).state.sendClose with
            | some st' => s.modStream id fun st => { st with state := st' }
            | none => s.panic "send_close: unexpected state"
          s.reserveCapacity id 0
        else s
      let st := s.stream id
      if st.sendFlow.available.gtUsize 0 || st.bufferedSendData == 0 then
        (s.queueFrame id (.data len eos), .ok ())
      else
        (s.modStream id fun st => { st with pendingSend := st.pendingSend ++ [.data len eos] }, .ok ())

/-- `Prioritize::recv_stream_window_update(inc, stream)` -/
def prioRecvStreamWindowUpdate (s : Streams) (id : Nat) (inc : Nat) : Streams × Except Reason Unit :=
  let st := s.stream id
  if st.state.isSendClosed && st.bufferedSendData == 0 then (s, .ok ())
  else
    match st.sendFlow.incWindow inc with
    | (_, .error (.reason r)) => (s, .error r)
    | (_, .error .assertFailed) => (s, .error FLOW_CONTROL_ERROR)
    | (fl, .ok _) =>
      ((s.modStream id fun st => { st with sendFlow := fl }).tryAssignCapacity id, .ok ())

/-- `Prioritize::recv_connection_window_update(inc, store, counts)` -/
def recvConnectionWindowUpdate (s : Streams) (inc : Nat) : Streams × Except Reason Unit :=
  match s.prio.flow.incWindow inc with
  | (_, .error (.reason r)) => (s, .error r)
  | (_, .error .assertFailed) => (s, .error FLOW_CONTROL_ERROR)
  | (fl, .ok _) => ((s.modPrio fun p => { p with flow := fl }).assignConnectionCapacity inc, .ok ())

/-- `Prioritize::reclaim_all_capacity(stream, counts)` -/
def reclaimAllCapacity (s : Streams) (id : Nat) : Streams :=
  let available := (s.stream id).sendFlow.available.asSize
  if available > 0 then
    let s := s.modStream id fun st => { st with sendFlow := (st.sendFlow.claimCapacity available).1 }
    s.assignConnectionCapacity available
  else s

/-- `Prioritize::reclaim_reserved_capacity(stream, counts)` -/
def reclaimReservedCapacity (s : Streams) (id : Nat) : Streams :=
  let st := s.stream id
  if st.sendFlow.available.asSize > st.bufferedSendData then
    let reserved := wrapSubU32 st.sendFlow.available.asSize (usizeAsU32 st.bufferedSendData)
    let (fl, r) := st.sendFlow.claimCapacity reserved
    let s := match r with
      | .ok _ => s
      | .error _ => s.panic "window size should be greater than reserved"
    (s.modStream id fun st => { st with sendFlow := fl }).assignConnectionCapacity reserved
  else s

/-- `Prioritize::clear_pending_capacity(store, counts)`; fuel = queue length -/
def clearPendingCapacity : Nat → Streams → Streams
  | 0, s => s
  | fuel + 1, s =>
    match s.qPop .pendingCapacity with
    | (s, none) => s
    | (s, some id) =>
      let isPendingReset := (s.stream id).isPendingResetExpiration
      clearPendingCapacity fuel (s.transitionAfter id isPendingReset)

/-- `Prioritize::clear_queue(buffer, stream)` -/
def clearQueue (s : Streams) (id : Nat) : Streams :=
  let s := s.modStream id fun st => { st with pendingSend := [], bufferedSendData := 0, requestedSendCapacity := 0 }
  match s.prio.inFlightDataFrame with
  | .dataFrame k => if k = id then s.modPrio fun p => { p with inFlightDataFrame := .drop } else s
  | _ => s

/-- `Prioritize::clear_pending_send(store, counts)` -/
def clearPendingSend : Nat → Streams → Streams
  | 0, s => s
  | fuel + 1, s =>
    match s.qPop .pendingSend with
    | (s, none) => s
    | (s, some id) =>
      let st := s.stream id
      let isPendingReset := st.isPendingResetExpiration
      let s := match st.state.getScheduledReset with
        | some reason => s.modStreamW id fun st => st.setReset reason .library
        | none => s
      clearPendingSend fuel (s.transitionAfter id isPendingReset)

/-- `Prioritize::clear_pending_open(store, counts)` -/
def clearPendingOpen : Nat → Streams → Streams
  | 0, s => s
  | fuel + 1, s =>
    match s.qPop .pendingOpen with
    | (s, none) => s
    | (s, some id) =>
      let isPendingReset := (s.stream id).isPendingResetExpiration
      clearPendingOpen fuel (s.transitionAfter id isPendingReset)

/-- a frame handed to the codec by `pop_frame` -/
inductive OutFrame where
  | data (len : Nat) (flagEos : Bool) (frame : DataFrame)
  | headers (sid : Nat) (eos : Bool) (fields : List Hpack.Field)
  | reset (sid : Nat) (reason : Reason)
  | pushPromise (sid promised : Nat) (fields : List Hpack.Field)
  deriving Repr

/-- `Prioritize::pop_frame(buffer, store, max_len, counts)`.
    Fuel: every `continue` either drops a stream from `pending_send` or (scheduled reset with queued
    DATA) empties its queue so that the next visit yields the RST_STREAM, or consumes a dead PUSH_PROMISE:
    see `popFrameFuel`. -/
def popFrame : Nat → Streams → Nat → Streams × Option OutFrame
  | 0, s, _ => (s, none)
  | fuel + 1, s, maxLen =>
    match s.qPop .pendingSend with
    | (s, none) => (s, none)
    | (s, some id) =>
      let st := s.stream id
      let isPendingReset := st.isPendingResetExpiration
      -- what follows the `match stream.pending_send.pop_front(buffer)`: requeue, transition, return
      let finish := fun (s : Streams) (f : OutFrame) =>
        let st := s.stream id
        let s := if !st.pendingSend.isEmpty || st.state.isScheduledReset then (s.qPush .pendingSend id).1 else s
        (s.transitionAfter id isPendingReset, some f)
      match st.pendingSend with
      | .data sz eos :: rest =>
        let discard : Bool := match st.state.getScheduledReset with
          | some reason => reason != NO_ERROR
          | none => false
        if discard then
          -- push_front, clear_queue, reclaim_all_capacity, pending_send.push, continue
          let s := (s.clearQueue id).reclaimAllCapacity id
          popFrame fuel (s.qPush .pendingSend id).1 maxLen
        else
          let streamCapacity := st.sendFlow.available
          if sz > 0 && streamCapacity.eqUsize 0 then
            popFrame fuel s maxLen           -- frame stays at the front; the stream leaves the queue
          else
            let len := usizeAsU32 (min (min sz maxLen) streamCapacity.asSize)
            if len > 0 && len > st.sendFlow.windowSz then
              popFrame fuel s maxLen
            else
              let s := s.modStream id fun st => { st with pendingSend := rest }
              let (st', w, bad) := (s.stream id).sendData len s.prio.maxBufferSize
              let s := (s.setStream st').wake w
              let s := if bad then s.panic "assertion failed: self.window_size.0 >= sz as i32 (stream)" else s
              let s := s.modPrio fun p => { p with flow := (p.flow.assignCapacity len).1 }
              let (fl, r) := s.prio.flow.sendData len
              let s := s.modPrio fun p => { p with flow := fl }
              let s := match r with
                | .error .assertFailed => s.panic "assertion failed: self.window_size.0 >= sz as i32 (connection)"
                | _ => s
              let flagEos := if sz > len then false else eos
              finish s (.data len flagEos { key := id, sid := st.id, rest := sz - len, eos := eos })
      | .headers heos fields :: rest =>
        finish (s.modStream id fun st => { st with pendingSend := rest }) (.headers st.id heos fields)
      | .reset reason :: rest =>
        finish (s.modStream id fun st => { st with pendingSend := rest }) (.reset st.id reason)
      | .pushPromise pk pid fields :: rest =>
        let s := s.modStream id fun st => { st with pendingSend := rest }
        -- `stream.store_mut().find_mut(&pp.promised_id()).unwrap()`: looked up by *id*
        match s.store.findKey? pid with
        | none =>
          -- the promised stream was released before its PUSH_PROMISE could be written: nothing to promise
          let st := s.stream id
          let s := if !st.pendingSend.isEmpty || st.state.isScheduledReset then (s.qPush .pendingSend id).1 else s
          popFrame fuel (s.transitionAfter id isPendingReset) maxLen
        | some pushed =>
          let _ := pk
          let s := s.modStream pushed fun st => { st with isPendingPush := false }
          let s :=
            if !(s.stream pushed).pendingSend.isEmpty then
              if s.counts.canIncNumSendStreams then (((s.incNumSendStreams pushed).qPush .pendingSend pushed).1)
              else s.queueOpen pushed
            else s
          finish s (.pushPromise st.id pid fields)
      | [] =>
        match st.state.getScheduledReset with
        | some reason =>
          let s := s.modStreamW id fun st => st.setReset reason .library
          finish s (.reset st.id reason)
        | none =>
          popFrame fuel (s.transitionAfter id isPendingReset) maxLen

/-- fuel handed to `popFrame` by its caller (the Rust loop is unbounded). Every `continue` of the loop either
    takes a stream out of `pending_send` for good, or consumes a queued frame (a dead PUSH_PROMISE, the queue
    of a stream whose reset is scheduled), or is the one visit that follows `reclaim_all_capacity`, which can
    move each stream of `pending_capacity` into `pending_send` at most once: twice the queue and the slab,
    plus every queued frame, bounds them all. -/
def popFrameFuel (s : Streams) : Nat :=
  2 * (s.prio.pendingSend.length + s.store.slab.length) + (s.store.slab.map (·.pendingSend.length)).sum + 2

/-- `Prioritize::pop_pending_open(store, counts)` -/
def popPendingOpen (s : Streams) : Streams × Option Nat :=
  if s.counts.canIncNumSendStreams then
    match s.qPop .pendingOpen with
    | (s, some id) =>
      let s := s.incNumSendStreams id
      (s.modStreamW id Stream.notifySend, some id)
    | (s, none) => (s, none)
  else (s, none)

/-- `Prioritize::reclaim_frame_inner(buffer, store, frame)` -/
def reclaimFrameInner (s : Streams) (frame : DataFrame) : Streams × Bool :=
  let inflight := s.prio.inFlightDataFrame
  let s := s.modPrio fun p => { p with inFlightDataFrame := .nothing }
  match inflight with
  | .nothing => (s.panic "wasn't expecting a frame to reclaim", false)
  | .drop => (s, false)
  | .dataFrame _ =>
    if frame.rest > 0 then
      -- push_back_frame: front of the deque, schedule the stream if it has capacity
      let s := s.modStream frame.key fun st => { st with pendingSend := .data frame.rest frame.eos :: st.pendingSend }
      let s := if (s.stream frame.key).sendFlow.available.gtUsize 0 then (s.qPush .pendingSend frame.key).1 else s
      (s, true)
    else (s, false)

/-- `Prioritize::reclaim_frame(buffer, store, dst)` -/
def reclaimFrame (s : Streams) (w : Writer) : Streams × Writer × Bool :=
  match w.takeLastDataFrame with
  | (w, some frame) => let (s, b) := s.reclaimFrameInner frame; (s, w, b)
  | (w, none) => (s, w, false)

/-- `BufferStatus` -/
inductive BufferStatus where
  | complete | codecFull
  deriving Repr, DecidableEq

/-- hand one popped frame to the codec (`dst.buffer(frame).expect("invalid frame")`) -/
def bufferOut (s : Streams) (w : Writer) (f : OutFrame) : Streams × Writer :=
  match f with
  | .data len flagEos frame =>
    let s := s.modPrio fun p => { p with inFlightDataFrame := .dataFrame frame.key }
    match w.bufferData len flagEos frame with
    | some w' => (s, w')
    | none => (s.panic "invalid frame: PayloadTooBig", w)
  | .headers sid eos fields => (s, w.bufferHeaders sid eos fields)
  | .reset sid reason => (s, w.bufferSimple 4 s!"R:{sid}:{reason}")
  | .pushPromise sid promised fields => (s, w.bufferPushPromise sid promised fields)

/-- the `loop` of `Prioritize::buffer_pending`; fuel: one unit per frame written -/
def prioBufferPendingLoop : Nat → Streams → Writer → Streams × Writer × BufferStatus
  | 0, s, w => (s.panic "model: buffer_pending out of fuel", w, .codecFull)
  | fuel + 1, s, w =>
    if !w.hasCapacity then (s, w, .codecFull)
    else
      let s := match s.popPendingOpen with
        | (s, some id) => ((s.qPushFront .pendingSend id).1).tryAssignCapacity id
        | (s, none) => s
      match popFrame (popFrameFuel s) s w.maxFrameSize with
      | (s, some f) =>
        let (s, w) := s.bufferOut w f
        let (s, w, _) := s.reclaimFrame w
        prioBufferPendingLoop fuel s w
      | (s, none) => (s, w, .complete)

/-- `Prioritize::buffer_pending(buffer, store, counts, dst)` -/
def prioBufferPending (fuel : Nat) (s : Streams) (w : Writer) : Streams × Writer × BufferStatus :=
  let (s, w, _) := s.reclaimFrame w
  prioBufferPendingLoop fuel s w

-- ===================================================================== send.rs

/-- `Send::open` / `ensure_next_stream_id` + `next_id` -/
def sendOpenId (s : Streams) : Streams × Except UserError Nat :=
  match s.actions.send.nextStreamId with
  | none => (s, .error .overflowedStreamId)
  | some id =>
    let next := if id + 2 > 2147483647 then none else some (id + 2)
    (s.modSend fun sd => { sd with nextStreamId := next }, .ok id)

/-- `Send::check_headers(fields)`: the names of the regular fields -/
def checkHeaders (fields : List Hpack.Field) : Except UserError Unit :=
  let has := fun (n : String) => fields.any fun f => f.h.1 == Http.str n
  if has "connection" || has "transfer-encoding" || has "upgrade" || has "keep-alive" || has "proxy-connection" then
    .error .malformedHeaders
  else if fields.any (fun f => f.h.1 == Http.str "te" && f.h.2 != Http.str "trailers") then .error .malformedHeaders
  else .ok ()

/-- `Send::send_headers(frame, buffer, stream, counts, task)` -/
def sendHeaders (s : Streams) (id : Nat) (eos : Bool) (fields : List Hpack.Field) : Streams × Except UserError Unit :=
  match checkHeaders fields with
  | .error e => (s, .error e)
  | .ok _ =>
    match (s.stream id).state.sendOpen eos with
    | (_, .error e) => (s, .error e)
    | (st', .ok _) =>
      let s := s.modStream id fun st => { st with state := st' }
      let pendingOpen := s.counts.isLocalInit (s.stream id).id && !(s.stream id).isPendingPush
      let s := if pendingOpen then s.queueOpen id else s
      let s := s.queueFrame id (.headers eos fields)
      let s := if pendingOpen then s.notifyTask else s
      (s, .ok ())

/-- `Send::reserve_local` (same id bookkeeping as `open`) -/
def sendReserveLocal (s : Streams) : Streams × Except UserError Nat := s.sendOpenId

/-- `Send::send_push_promise(frame, buffer, stream, task)`: queued on the *parent* stream -/
def sendPushPromise (s : Streams) (parent : Nat) (promisedKey promisedId : Nat) (fields : List Hpack.Field) :
    Streams × Except UserError Unit :=
  if !s.actions.send.isPushEnabled then (s, .error .peerDisabledServerPush)
  -- the parent has to be a stream we may still send on (nothing but RST_STREAM follows END_STREAM or a reset)
  else if (s.stream parent).state.isSendClosed then (s, .error .inactiveStreamId)
  else match checkHeaders fields with
    | .error e => (s, .error e)
    | .ok _ => (s.queueFrame parent (.pushPromise promisedKey promisedId fields), .ok ())

/-- `Send::send_interim_informational_headers(frame, buffer, stream, counts, task)` -/
def sendInterimInformationalHeaders (s : Streams) (id : Nat) (fields : List Hpack.Field) : Streams × Except UserError Unit :=
  match checkHeaders fields with
  | .error e => (s, .error e)
  | .ok _ =>
    let st := s.stream id
    if st.state.isSendStreaming || st.state.isSendClosed then (s, .error .unexpectedFrameType)
    else (s.queueFrame id (.headers false fields), .ok ())

/-- `Send::send_reset(reason, initiator, buffer, stream, counts, task)` -/
def sendSendReset (s : Streams) (id : Nat) (reason : Reason) (init : Initiator) : Streams :=
  let st := s.stream id
  let isReset := st.state.isReset
  let isClosed := st.state.isClosed
  -- (what is left of a DATA frame held by the codec still counts as unsent)
  let isEmpty := st.pendingSend.isEmpty && st.bufferedSendData == 0
  if isReset then s
  else
    let s := s.modStreamW id fun st => st.setReset reason init
    if isClosed && isEmpty then s
    else
      let s :=
        if (s.stream id).isPendingOpen then
          -- keep only the initial HEADERS
          let headers := (s.stream id).pendingSend.head?
          let s := s.modStream id fun st => { st with pendingSend := st.pendingSend.drop 1 }
          let s := s.clearQueue id
          match headers with
          | some f => s.modStream id fun st => { st with pendingSend := st.pendingSend ++ [f] }
          | none => s
        else s.clearQueue id
      let s := s.queueFrame id (.reset reason)
      s.reclaimAllCapacity id

/-- `Send::schedule_implicit_reset(stream, reason, counts, task)` -/
def scheduleImplicitReset (s : Streams) (id : Nat) (reason : Reason) : Streams :=
  if (s.stream id).state.isClosed then s
  else
    let s := s.modStream id fun st => { st with state := st.state.setScheduledReset reason }
    (s.reclaimReservedCapacity id).scheduleSend id

/-- `Send::send_trailers(frame, buffer, stream, counts, task)` -/
def sendTrailers (s : Streams) (id : Nat) (fields : List Hpack.Field) : Streams × Except UserError Unit :=
  match checkHeaders fields with
  | .error e => (s, .error e)
  | .ok _ =>
    if !(s.stream id).state.isSendStreaming then (s, .error .unexpectedFrameType)
    else
      let s := match (s.stream id).state.sendClose with
        | some st' => s.modStream id fun st => { st with state := st' }
        | none => s.panic "send_close: unexpected state"
      let s := s.queueFrame id (.headers true fields)
      (s.reserveCapacity id 0, .ok ())

/-- `Send::capacity(stream)` -/
def sendCapacity (s : Streams) (id : Nat) : Nat := (s.stream id).capacity s.prio.maxBufferSize

/-- result of `poll_capacity` -/
inductive PollCap where
  | pending | none | cap (n : Nat)
  deriving Repr, DecidableEq

/-- `Send::poll_capacity(cx, stream)` -/
def pollCapacity (s : Streams) (id : Nat) (tag : String) : Streams × PollCap :=
  let st := s.stream id
  if !st.state.isSendStreaming then (s, .none)
  else if !st.sendCapacityInc then (s.modStream id fun st => st.waitSend tag, .pending)
  else
    let s := s.modStream id fun st => { st with sendCapacityInc := false }
    let capacity := s.sendCapacity id
    if capacity = 0 then (s.modStream id fun st => st.waitSend tag, .pending)
    else (s, .cap capacity)

/-- `Send::poll_reset(cx, stream, mode)`: `Ok(None)` = `Pending` -/
def pollReset (s : Streams) (id : Nat) (mode : PollReset) (tag : String) : Streams × Except ApiErr (Option Reason) :=
  match (s.stream id).state.ensureReason mode with
  | .error e => (s, .error e)
  | .ok (some r) => (s, .ok (some r))
  | .ok none => (s.modStream id fun st => st.waitSend tag, .ok none)

/-- `Send::recv_stream_window_update(sz, buffer, stream, counts, task)` -/
def sendRecvStreamWindowUpdate (s : Streams) (id : Nat) (sz : Nat) : Streams × Except Reason Unit :=
  match s.prioRecvStreamWindowUpdate id sz with
  | (s, .error e) => (s.sendSendReset id FLOW_CONTROL_ERROR .library, .error e)
  | (s, .ok _) => (s, .ok ())

/-- `Send::recv_go_away(last_stream_id)` -/
def sendRecvGoAway (s : Streams) (lastStreamId : Nat) : Streams × Except PErr Unit :=
  if lastStreamId > s.actions.send.maxStreamId then (s, .error (PErr.libraryGoAway PROTOCOL_ERROR))
  else (s.modSend fun sd => { sd with maxStreamId := lastStreamId }, .ok ())

/-- `Send::handle_error(buffer, stream, counts)` -/
def sendHandleError (s : Streams) (id : Nat) : Streams :=
  let s := (s.clearQueue id).reclaimAllCapacity id
  -- a stream still waiting to be opened has just lost its HEADERS: a scheduled implicit reset
  -- becomes a plain local reset (no RST_STREAM on an idle stream)
  let st := s.stream id
  if st.isPendingOpen then
    match st.state.getScheduledReset with
    | some reason => s.modStreamW id fun st => st.setReset reason .library
    | none => s
  else s

/-- `Store::try_for_each` specialised to a step that may fail; the index logic (an entry removed
    during the call makes the last entry take its place, so the index stays) is kept -/
def tryForEach (f : Streams → Nat → Streams × Option PErr) : Nat → Nat → Nat → Streams → Streams × Option PErr
  | 0, _, _, s => (s, none)
  | fuel + 1, i, len, s =>
    if i < len then
      match s.store.ids[i]? with
      | none => (s.panic "try_for_each: index out of bounds", none)
      | some (_, id) =>
        match f s id with
        | (s, some e) => (s, some e)
        | (s, none) =>
          let newLen := s.store.ids.length
          if newLen < len then tryForEach f fuel i (len - 1) s
          else tryForEach f fuel (i + 1) len s
    else (s, none)

/-- `Store::try_for_each(f)`; fuel: the index or the length moves at every step -/
def storeTryForEach (s : Streams) (f : Streams → Nat → Streams × Option PErr) : Streams × Option PErr :=
  tryForEach f (2 * s.store.ids.length + 1) 0 s.store.ids.length s

/-- `Store::for_each(f)` -/
def storeForEach (s : Streams) (f : Streams → Nat → Streams) : Streams :=
  (s.storeTryForEach fun s id => (f s id, none)).1

/-- the closure of the `Ordering::Less` branch of `Send::apply_remote_settings`; the reclaimed total
    travels in the accumulator `acc` -/
def decStreamWindow (dec : Nat) (acc : Nat) (s : Streams) (id : Nat) : Streams × Nat × Option PErr :=
  let st := s.stream id
  if st.state.isSendClosed && st.bufferedSendData == 0 then (s, acc, none)
  else
    match st.sendFlow.decSendWindow dec with
    | (_, .error _) => (s, acc, some (PErr.libraryGoAway FLOW_CONTROL_ERROR))
    | (fl, .ok _) =>
      let windowSize := fl.windowSz
      let available := fl.available.asSize
      if available > windowSize then
        let reclaim := available - windowSize
        match fl.claimCapacity reclaim with
        | (_, .error _) =>
          (s.modStream id fun st => { st with sendFlow := fl }, acc, some (PErr.libraryGoAway FLOW_CONTROL_ERROR))
        | (fl2, .ok _) =>
          (s.modStream id fun st => { st with sendFlow := fl2 }, wrapAddU32 acc reclaim, none)
      else (s.modStream id fun st => { st with sendFlow := fl }, acc, none)

/-- `try_for_each` with an accumulator (the `total_reclaimed` of the `Less` branch) -/
def tryForEachAcc (f : Nat → Streams → Nat → Streams × Nat × Option PErr) :
    Nat → Nat → Nat → Nat → Streams → Streams × Nat × Option PErr
  | 0, _, _, acc, s => (s, acc, none)
  | fuel + 1, i, len, acc, s =>
    if i < len then
      match s.store.ids[i]? with
      | none => (s.panic "try_for_each: index out of bounds", acc, none)
      | some (_, id) =>
        match f acc s id with
        | (s, acc, some e) => (s, acc, some e)
        | (s, acc, none) =>
          let newLen := s.store.ids.length
          if newLen < len then tryForEachAcc f fuel i (len - 1) acc s
          else tryForEachAcc f fuel (i + 1) len acc s
    else (s, acc, none)

/-- `Send::apply_remote_settings(settings, buffer, store, counts, task)`; of the frame only
    `initial_window_size`, `enable_push`, `enable_connect_protocol` are looked at -/
def sendApplyRemoteSettings (s : Streams) (initialWindowSize enablePush enableConnect : Option Nat) :
    Streams × Except PErr Unit :=
  let s := match enableConnect with
    | some v => s.modSend fun sd => { sd with isExtendedConnectProtocolEnabled := v != 0 }
    | none => s
  let (s, res) : Streams × Option PErr :=
    match initialWindowSize with
    | none => (s, none)
    | some val =>
      let oldVal := s.actions.send.initWindowSz
      let s := s.modSend fun sd => { sd with initWindowSz := val }
      if val < oldVal then
        let dec := oldVal - val
        match tryForEachAcc (decStreamWindow dec) (2 * s.store.ids.length + 1) 0 s.store.ids.length 0 s with
        | (s, _, some e) => (s, some e)
        | (s, total, none) => (s.assignConnectionCapacity total, none)
      else if val > oldVal then
        let inc := val - oldVal
        s.storeTryForEach fun s id =>
          match s.sendRecvStreamWindowUpdate id inc with
          | (s, .error r) => (s, some (PErr.libraryGoAway r))
          | (s, .ok _) => (s, none)
      else (s, none)
  match res with
  | some e => (s, .error e)
  | none =>
    let s := match enablePush with
      | some v => s.modSend fun sd => { sd with isPushEnabled := v != 0 }
      | none => s
    (s, .ok ())

/-- `Send::clear_queues(store, counts)` -/
def sendClearQueues (s : Streams) : Streams :=
  let s := clearPendingCapacity (s.prio.pendingCapacity.length + 1) s
  let s := clearPendingSend (s.prio.pendingSend.length + 1) s
  clearPendingOpen (s.prio.pendingOpen.length + 1) s

/-- `Send::ensure_not_idle(id)` -/
def sendEnsureNotIdle (s : Streams) (id : Nat) : Except Reason Unit :=
  match s.actions.send.nextStreamId with
  | some next => if id ≥ next then .error PROTOCOL_ERROR else .ok ()
  | none => .ok ()

/-- `Send::may_have_created_stream(id)` -/
def sendMayHaveCreatedStream (s : Streams) (id : Nat) : Bool :=
  match s.actions.send.nextStreamId with
  | some next => decide (id < next)
  | none => true

/-- `Send::maybe_reset_next_stream_id(id)` -/
def sendMaybeResetNextStreamId (s : Streams) (id : Nat) : Streams :=
  match s.actions.send.nextStreamId with
  | some next =>
    if id ≥ next then s.modSend fun sd => { sd with nextStreamId := if id + 2 > 2147483647 then none else some (id + 2) }
    else s
  | none => s

end Streams

end H2V.Model.Conn
