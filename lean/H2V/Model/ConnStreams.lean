import H2V.Model.ConnRecv
/-
  Connection-level model, part 8 — mirror of `src/proto/streams/streams.rs`: the frame entry points of
  `Inner` (`recv_headers`, `recv_data`, `recv_reset`, `recv_window_update`, `handle_error`,
  `recv_go_away`, `recv_eof`, `send_reset`), `poll_complete`/`buffer_pending`, `send_request`,
  `poll_pending_open`, the handle methods of `StreamRef`/`OpaqueStreamRef` and `drop_stream_ref`.
  `poll_pushed` is not modelled (the harness has no op for it).
-/
namespace H2V.Model.Conn
open H2V H2V.Model

namespace Streams

/-- `counts.transition(stream, f)` -/
def transition (s : Streams) (id : Nat) (f : Streams → Streams × α) : Streams × α :=
  let isPendingReset := (s.stream id).isPendingResetExpiration
  let (s, a) := f s
  (s.transitionAfter id isPendingReset, a)

-- ===================================================================== Actions

/-- `Actions::reset_on_recv_stream_err(buffer, stream, counts, res)` -/
def resetOnRecvStreamErr (s : Streams) (id : Nat) (res : Except PErr Unit) : Streams × Except PErr Unit :=
  match res with
  | .error (.reset _ reason init) =>
    if s.counts.canIncNumLocalErrorResets then
      let s := s.modCountsA "can_inc_num_local_error_resets" Counts.incNumLocalErrorResets
      let s := s.sendSendReset id reason init
      let s := s.enqueueResetExpiration id
      (s.modStreamW id Stream.notifyRecv, .ok ())
    else (s, .error (PErr.libraryGoAwayData ENHANCE_YOUR_CALM "too_many_internal_resets"))
  | _ => (s, res)

/-- `proto::error::GoAway { reason, debug_data }` -/
structure GoAwayErr where
  reason : Reason
  debugData : String
  deriving Repr

/-- `Actions::send_reset(stream, reason, initiator, counts, send_buffer)` -/
def actionsSendReset (s : Streams) (id : Nat) (reason : Reason) (init : Initiator) : Streams × Except GoAwayErr Unit :=
  s.transition id fun s =>
    let pre : Streams × Bool :=
      if init.isLibrary then
        if s.counts.canIncNumLocalErrorResets then
          (s.modCountsA "can_inc_num_local_error_resets" Counts.incNumLocalErrorResets, true)
        else (s, false)
      else (s, true)
    match pre with
    | (s, false) => (s, .error { reason := ENHANCE_YOUR_CALM, debugData := "too_many_internal_resets" })
    | (s, true) =>
      let s := s.sendSendReset id reason init
      let s := s.enqueueResetExpiration id
      (s.modStreamW id Stream.notifyRecv, .ok ())

/-- `Actions::ensure_not_idle(peer, id)` -/
def ensureNotIdle (s : Streams) (id : Nat) : Except Reason Unit :=
  if s.counts.isLocalInit id then s.sendEnsureNotIdle id else s.recvEnsureNotIdle id

/-- `Actions::ensure_no_conn_error` -/
def ensureNoConnError (s : Streams) : Except PErr Unit :=
  match s.actions.connError with
  | some e => .error e
  | none => .ok ()

/-- `Actions::may_have_forgotten_stream(peer, id)` -/
def mayHaveForgottenStream (s : Streams) (id : Nat) : Bool :=
  if id = 0 then false
  else if s.counts.isLocalInit id then s.sendMayHaveCreatedStream id
  else s.recvMayHaveCreatedStream id

/-- `Actions::clear_queues(clear_pending_accept, store, counts)` -/
def clearQueues (s : Streams) (clearPendingAccept : Bool) : Streams :=
  (s.recvClearQueues clearPendingAccept).sendClearQueues

-- ===================================================================== Inner: received frames

/-- `Inner::recv_headers(peer, send_buffer, frame)` (client: a HEADERS frame never opens a stream) -/
def recvHeaders (s : Streams) (h : HeadersIn) : Streams × Except PErr Unit :=
  let id := h.sid
  if id > s.recv.maxStreamId then (s, .ok ())
  else
    -- `find_entry(id)`: the key to go on with, or `Ok(None)` = return `Ok(())`
    let entry : Streams × Except PErr (Option Nat) :=
      match s.store.findKey? id with
      | some k => (s, .ok (some k))
      | none =>
        if !s.counts.isServer && s.mayHaveForgottenStream id then (s, .error (PErr.libraryReset id STREAM_CLOSED))
        else
          match s.recvOpen id false with
          | (s, .error e) => (s, .error e)
          | (s, .ok false) => (s, .ok none)
          | (s, .ok true) =>
            let st := Stream.new id s.actions.send.initWindowSz s.recv.initWindowSz
            let (store, k) := s.store.insert st
            ({ s with store := store }, .ok (some k))
    match entry with
    | (s, .error e) => (s, .error e)
    | (s, .ok none) => (s, .ok ())
    | (s, .ok (some k)) =>
      let st := s.stream k
      if st.isPendingOpen then (s, .error (PErr.libraryGoAway PROTOCOL_ERROR))
      else if st.state.isLocalError then (s, .ok ())
      else
        s.transition k fun s =>
          -- NOTE trailers without END_STREAM `return Err(..)` out of the closure: the stream error
          -- bypasses `reset_on_recv_stream_err` and travels up to `handle_poll2_result`
          if !(s.stream k).state.isRecvHeaders && !h.eos then (s, .error (PErr.libraryReset id PROTOCOL_ERROR))
          else
          let (s, res) : Streams × Except PErr Unit :=
            if (s.stream k).state.isRecvHeaders then
              match s.recvRecvHeaders k h with
              | (s, .ok) => (s, .ok ())
              | (s, .oversize true) =>
                -- server only: answer 431, then schedule the reset
                let f431 : List Hpack.Field := [{ h := (Hpack.pStatus, Http.str "431"), sensitive := false, nameless := false }]
                let s := (s.sendHeaders k true f431).1
                let s := s.scheduleImplicitReset k PROTOCOL_ERROR
                (s.enqueueResetExpiration k, .ok ())
              | (s, .oversize false) => (s, .error (PErr.libraryReset id PROTOCOL_ERROR))
              | (s, .state e) => (s, .error e)
              | (s, .unsupported) => (s.unsup "request URI outside the modelled subset", .ok ())
            else s.recvRecvTrailers k h
          s.resetOnRecvStreamErr k res

/-- `Inner::recv_data(peer, send_buffer, frame)` -/
def recvData (s : Streams) (id : Nat) (payload : Bytes) (eos : Bool) (padLen : Option Nat) : Streams × Except PErr Unit :=
  let flowLen := payload.length + (match padLen with | some p => p + 1 | none => 0)
  match s.store.findKey? id with
  | none =>
    if id > s.recv.maxStreamId then
      match s.ignoreData (usizeAsU32 flowLen) with
      | (s, .error e) => (s, .error e)
      | (s, .ok _) => (s, .ok ())
    else if s.mayHaveForgottenStream id then
      match s.ignoreData (usizeAsU32 flowLen) with
      | (s, .error e) => (s, .error e)
      | (s, .ok _) => (s, .error (PErr.libraryReset id STREAM_CLOSED))
    else (s, .error (PErr.libraryGoAway PROTOCOL_ERROR))
  | some k =>
    s.transition k fun s =>
      let sz := flowLen
      let (s, res) := s.recvRecvData k payload eos padLen
      let (s, res) : Streams × Except PErr Unit :=
        match res with
        | .ok _ =>
          if !eos then
            let (c, ok) := s.counts.recordDataFrame payload.length
            let s := { s with counts := c }
            if ok then (s, .ok ()) else (s, .error (PErr.libraryGoAwayData ENHANCE_YOUR_CALM "too_many_data_frames"))
          else (s, .ok ())
        | .error e => (s, .error e)
      let s := match res with
        | .error (.reset ..) => s.releaseConnectionCapacity (usizeAsU32 sz) false
        | _ => s
      s.resetOnRecvStreamErr k res

/-- `Inner::recv_reset(send_buffer, frame)` -/
def recvReset (s : Streams) (id : Nat) (reason : Reason) : Streams × Except PErr Unit :=
  if id = 0 then (s, .error (PErr.libraryGoAway PROTOCOL_ERROR))
  else if id > s.recv.maxStreamId then (s, .ok ())
  else
    match s.store.findKey? id with
    | none =>
      match s.ensureNotIdle id with
      | .error r => (s, .error (PErr.libraryGoAway r))
      | .ok _ => (s, .ok ())
    | some k =>
      if (s.stream k).isPendingOpen then (s, .error (PErr.libraryGoAway PROTOCOL_ERROR))
      else
        s.transition k fun s =>
          match s.recvRecvReset k reason with
          | (s, .error e) => (s, .error e)
          | (s, .ok _) =>
            let s := s.sendHandleError k
            let s := if (s.stream k).state.isClosed then s else s.panic "assertion failed: stream.state.is_closed()"
            (s, .ok ())

/-- `Inner::recv_window_update(send_buffer, frame)` -/
def recvWindowUpdate (s : Streams) (id : Nat) (inc : Nat) : Streams × Except PErr Unit :=
  if id = 0 then
    match s.recvConnectionWindowUpdate inc with
    | (s, .error r) => (s, .error (PErr.libraryGoAway r))
    | (s, .ok _) => (s, .ok ())
  else
    match s.store.findKey? id with
    | some k =>
      if (s.stream k).isPendingOpen then (s, .error (PErr.libraryGoAway PROTOCOL_ERROR))
      else
        let (s, res) := s.sendRecvStreamWindowUpdate k inc
        let res : Except PErr Unit := match res with
          | .error reason => .error (PErr.libraryReset id reason)
          | .ok _ => .ok ()
        s.resetOnRecvStreamErr k res
    | none =>
      match s.ensureNotIdle id with
      | .error r => (s, .error (PErr.libraryGoAway r))
      | .ok _ => (s, .ok ())

/-- `Inner::recv_push_promise(send_buffer, frame)`; `h` is the promised request (`h.sid` = promised id) -/
def recvPushPromise (s : Streams) (id : Nat) (h : HeadersIn) : Streams × Except PErr Unit :=
  let promisedId := h.sid
  -- a client cannot push, whatever state the referenced stream is in
  if s.counts.isServer then (s, .error (PErr.libraryGoAway PROTOCOL_ERROR)) else
  -- the initiating stream must exist and be receive-open
  let parent : Streams × Except PErr (Option Nat) :=
    match s.store.findKey? id with
    | some k =>
      if id > s.recv.maxStreamId then (s, .ok none)
      else if (s.stream k).state.isLocalError then
        -- we reset the initiating stream, the peer may not know yet: the promised stream is reserved
        -- all the same and refused (instead of dropping the frame)
        match s.ensureCanReserve with
        | .error e => (s, .error e)
        | .ok _ =>
          match s.recvOpen promisedId true with
          | (s, .error e) => (s, .error e)
          | (s, .ok true) => (s, .error (PErr.libraryReset promisedId REFUSED_STREAM))
          | (s, .ok false) => (s, .ok none)
      else match (s.stream k).state.ensureRecvOpen with
        | .ok true => (s, .ok (some k))
        | _ => (s, .error (PErr.libraryGoAway PROTOCOL_ERROR))   -- `!matches!(.., Ok(true))`
    | none => (s, .error (PErr.libraryGoAway PROTOCOL_ERROR))
  match parent with
  | (s, .error e) => (s, .error e)
  | (s, .ok none) => (s, .ok ())
  | (s, .ok (some parentKey)) =>
    match s.ensureCanReserve with
    | .error e => (s, .error e)
    | .ok _ =>
      match s.recvOpen promisedId true with
      | (s, .error e) => (s, .error e)
      | (s, .ok false) => (s, .ok ())
      | (s, .ok true) =>
        let s := if s.store.contains promisedId then s.panic "assertion failed: self.ids.insert(id, index).is_none()" else s
        let (store, child) := s.store.insert (Stream.new promisedId s.actions.send.initWindowSz s.recv.initWindowSz)
        let s := { s with store := store }
        let (s, res) : Streams × Except PErr Bool :=        -- `Ok(Some(key))` = true
          s.transition child fun s =>
            match s.recvRecvPushPromise child h with
            | (s, .ok) => (s, .ok true)
            | (s, .unsupported) => (s.unsup "promised request URI outside the modelled subset", .ok false)
            | (s, .err e) =>
              match s.resetOnRecvStreamErr child (.error e) with
              | (s, .ok _) => (s, .ok false)
              | (s, .error e) => (s, .error e)
        match res with
        | .error e => (s, .error e)
        | .ok false => (s, .ok ())
        | .ok true =>
          -- `ppp.push(child)` (a `Queue<NextAccept>`), `parent.notify_push()`
          let s :=
            if (s.stream child).isPendingAccept then s
            else (s.modStream child fun st => { st with isPendingAccept := true }).modStream parentKey
                   fun st => { st with pendingPushPromises := st.pendingPushPromises ++ [child] }
          (s.modStreamW parentKey Stream.notifyPush, .ok ())

/-- `Inner::handle_error(send_buffer, err)`: returns `last_processed_id` -/
def handleError (s : Streams) (err : PErr) : Streams × Nat :=
  let lastProcessedId := s.recv.lastProcessedId
  let s := s.storeForEach fun s id =>
    (s.transition id fun s => ((s.recvHandleError id err).sendHandleError id, ())).1
  ({ s with actions := { s.actions with connError := some err } }, lastProcessedId)

/-- `Inner::recv_go_away(send_buffer, frame)` -/
def recvGoAwayFrame (s : Streams) (lastStreamId : Nat) (reason : Reason) (debug : Bytes) : Streams × Except PErr Unit :=
  match s.sendRecvGoAway lastStreamId with
  | (s, .error e) => (s, .error e)
  | (s, .ok _) =>
    let err := PErr.remoteGoAway debug reason
    let s := s.storeForEach fun s id =>
      let st := s.stream id
      if (st.id > lastStreamId || st.isPendingOpen) && s.counts.isLocalInit st.id then
        (s.transition id fun s => ((s.recvHandleError id err).sendHandleError id, ())).1
      else s
    ({ s with actions := { s.actions with connError := some err } }, .ok ())

/-- `Inner::recv_eof(send_buffer, clear_pending_accept)` -/
def recvEof (s : Streams) (clearPendingAccept : Bool) : Streams :=
  let s := if s.actions.connError.isNone then
      { s with actions := { s.actions with connError := some (.io "BrokenPipe" (some "connection closed because of a broken pipe")) } }
    else s
  let s := s.storeForEach fun s id =>
    (s.transition id fun s => ((s.recvRecvEof id).sendHandleError id, ())).1
  s.clearQueues clearPendingAccept

/-- `Inner::send_reset(send_buffer, id, reason)` (`DynStreams::send_reset`, from `handle_poll2_result`) -/
def innerSendReset (s : Streams) (id : Nat) (reason : Reason) : Streams × Except GoAwayErr Unit :=
  let (s, k) : Streams × Nat :=
    match s.store.findKey? id with
    | some k => (s, k)
    | none =>
      let s := if s.counts.isLocalInit id then s.sendMaybeResetNextStreamId id else s.recvMaybeResetNextStreamId id
      let (store, k) := s.store.insert (Stream.new id 0 0)
      ({ s with store := store }, k)
  s.actionsSendReset k reason .library

-- ===================================================================== writing

/-- `Inner::buffer_pending(send_buffer, dst)` -/
def bufferPending (fuel : Nat) (s : Streams) (w : Writer) : Streams × Writer × BufferStatus :=
  match s.recvBufferPending w with
  | (s, w, .codecFull) => (s, w, .codecFull)
  | (s, w, .complete) => prioBufferPending fuel s w

/-- `Streams::poll_complete(cx, dst)`.
    Fuel: one unit per round of the `loop` (each round buffers at least one frame or ends). -/
def pollComplete : Nat → Streams → Writer → Tio → String → Streams × Writer × Tio × WRes
  | 0, s, w, io, _ => (s.panic "model: poll_complete out of fuel", w, io, .pending)
  | fuel + 1, s, w, io, tag =>
    match pollReadyW w io tag with
    | (w, io, .ready) =>
      let (s, w, status) := bufferPending (fuel + 1) s w
      match status with
      | .codecFull => pollComplete fuel s w io tag
      | .complete =>
        let s := { s with actions := { s.actions with task := some tag } }
        match flush w io tag with
        | (w, io, .ready) =>
          let (s, w, reclaimed) := s.reclaimFrame w
          if !reclaimed then (s, w, io, .ready)
          else pollComplete fuel s w io tag
        | (w, io, r) => (s, w, io, r)
    | (w, io, r) => (s, w, io, r)

/-- `Streams::send_pending_refusal(cx, dst)` -/
def pollSendPendingRefusal : Nat → Streams → Writer → Tio → String → Streams × Writer × Tio × WRes
  | 0, s, w, io, _ => (s, w, io, .pending)
  | fuel + 1, s, w, io, tag =>
    match s.sendPendingRefusal w with
    | (s, w, .complete) => (s, w, io, .ready)
    | (s, w, .codecFull) =>
      match pollReadyW w io tag with
      | (w, io, .ready) => pollSendPendingRefusal fuel s w io tag
      | (w, io, r) => (s, w, io, r)

-- ===================================================================== Streams (client API)

/-- `Streams::apply_remote_settings(frame, is_initial)` -/
def applyRemoteSettings (s : Streams) (vals : List (Nat × Nat)) (isInitial : Bool) : Streams × Except PErr Unit :=
  let get := fun (id : Nat) => (vals.find? (·.1 = id)).map (·.2)
  let s := s.modCounts fun c => c.applyRemoteSettings (get 3) isInitial
  s.sendApplyRemoteSettings (get 4) (get 2) (get 8)

/-- `Streams::apply_local_settings(frame)` -/
def applyLocalSettingsFrame (s : Streams) (vals : List (Nat × Nat)) : Streams × Except PErr Unit :=
  let get := fun (id : Nat) => (vals.find? (·.1 = id)).map (·.2)
  s.applyLocalSettings (get 4) (get 8)

/-- `OpaqueStreamRef::new` / `Clone for OpaqueStreamRef` minus the `refs` bump -/
def refInc (s : Streams) (id : Nat) : Streams :=
  s.modStream id fun st => { st with refCount := st.refCount + 1 }

/-- `Clone for OpaqueStreamRef` -/
def cloneStreamRef (s : Streams) (id : Nat) : Streams :=
  let s := s.refInc id
  { s with refs := s.refs + 1 }

/-- `maybe_cancel(stream, actions, counts)` -/
def maybeCancel (s : Streams) (id : Nat) : Streams :=
  let st := s.stream id
  if st.isCanceledInterest then
    let reason := if s.counts.isServer && st.state.isSendClosed && st.state.isRecvStreaming then NO_ERROR else CANCEL
    (s.scheduleImplicitReset id reason).enqueueResetExpiration id
  else s

/-- `drop_stream_ref(inner, key)` -/
def dropStreamRef (s : Streams) (id : Nat) : Streams :=
  let s := { s with refs := s.refs - 1 }
  let s := if (s.stream id).refCount > 0 then s else s.panic "assertion failed: self.ref_count > 0"
  let s := s.modStream id fun st => { st with refCount := st.refCount - 1 }
  let st := s.stream id
  -- (… or this was the last reference besides the connection's own: repair F35)
  let s := if (st.refCount == 0 && st.isClosed) || s.refs == 1 then s.notifyTask else s
  (s.transition id fun s =>
    let s := s.maybeCancel id
    if (s.stream id).refCount == 0 then
      let s := s.releaseClosedCapacity id
      -- "we won't be able to reach our push promises anymore"
      let ppp := (s.stream id).pendingPushPromises
      let s := s.modStream id fun st => { st with pendingPushPromises := [] }
      let s := ppp.foldl (fun s promise =>
        let s := s.modStream promise fun st => { st with isPendingAccept := false }
        (s.transition promise fun s =>
          let s := s.maybeCancel promise
          -- nobody is going to read what the peer has already sent on the promised stream either
          (if (s.stream promise).refCount == 0 then s.releaseClosedCapacity promise else s, ())).1) s
      (s, ())
    else (s, ())).1

/-- `Streams::send_request(request, end_of_stream, pending)`: `Ok((key of the new stream, is_full))` -/
def sendRequest (s : Streams) (isHead : Bool) (fields : List Hpack.Field) (eos : Bool) (pending : Option Nat) :
    Streams × Except ApiErr (Nat × Bool) :=
  match s.ensureNoConnError with
  | .error e => (s, .error (.proto e))
  | .ok _ =>
    if s.actions.send.nextStreamId.isNone then (s, .error (.user .overflowedStreamId))
    else if (match pending with | some p => (s.stream p).isPendingOpen | none => false) then (s, .error (.user .rejected))
    else if s.counts.isServer then (s, .error (.user .unexpectedFrameType))
    else
      match s.sendOpenId with
      | (s, .error e) => (s, .error (.user e))
      | (s, .ok id) =>
        let st := Stream.new id s.actions.send.initWindowSz s.recv.initWindowSz
        let st := if isHead then { st with contentLength := .head } else st
        let s := if s.store.contains id then s.panic "assertion failed: self.ids.insert(id, index).is_none()" else s
        let (store, k) := s.store.insert st
        let s := { s with store := store }
        match s.sendHeaders k eos fields with
        | (s, .error e) =>
          ({ s with store := (s.store.unlink id).remove k }, .error (.user e))
        | (s, .ok _) =>
          let s := { s with refs := s.refs + 1 }
          let isFull := s.counts.nextSendStreamWillReachCapacity
          (s.refInc k, .ok (k, isFull))

/-- `Streams::poll_pending_open(cx, pending)`: `Ok(true)` = ready, `Ok(false)` = pending -/
def pollPendingOpen (s : Streams) (pending : Option Nat) (tag : String) : Streams × Except ApiErr Bool :=
  match s.ensureNoConnError with
  | .error e => (s, .error (.proto e))
  | .ok _ =>
    if s.actions.send.nextStreamId.isNone then (s, .error (.user .overflowedStreamId))
    else match pending with
      | some p =>
        if (s.stream p).isPendingOpen then (s.modStream p fun st => st.waitOpen tag, .ok false) else (s, .ok true)
      | none => (s, .ok true)

/-- `Streams::next_incoming`: the key of the accepted stream (one `StreamRef` on it) -/
def nextIncoming (s : Streams) : Streams × Option Nat :=
  match s.recvNextIncoming with
  | (s, some k) =>
    let s := { s with refs := s.refs + 1 }
    let s := if (s.stream k).state.isRemoteReset then
        s.modCountsA "self.num_remote_reset_streams > 0" Counts.decNumRemoteResetStreams else s
    (s.refInc k, some k)
  | (s, none) => (s, none)

/-- `StreamRef::send_response(response, end_of_stream)` -/
def refSendResponse (s : Streams) (k : Nat) (fields : List Hpack.Field) (eos : Bool) : Streams × Except UserError Unit :=
  s.transition k fun s => s.sendHeaders k eos fields

/-- `StreamRef::send_informational_headers(frame)` (the frame never carries END_STREAM) -/
def refSendInformationalHeaders (s : Streams) (k : Nat) (fields : List Hpack.Field) : Streams × Except UserError Unit :=
  s.transition k fun s => s.sendInterimInformationalHeaders k fields

/-- `StreamRef::send_push_promise(request)`: `Ok(key of the promised stream)`.  `requestValid` is
    `PushPromise::validate_request(&request).is_ok()`.
    NOTE `convert_push_message(..)?` leaves the function before the clean-up: the reserved child
    stream stays in the store when the request is refused. -/
def refSendPushPromise (s : Streams) (parent : Nat) (requestValid : Bool) (fields : List Hpack.Field) :
    Streams × Except UserError Nat :=
  match s.sendReserveLocal with
  | (s, .error e) => (s, .error e)
  | (s, .ok promisedId) =>
    let s := if s.store.contains promisedId then s.panic "assertion failed: self.ids.insert(id, index).is_none()" else s
    let (store, child) := s.store.insert (Stream.new promisedId s.actions.send.initWindowSz s.recv.initWindowSz)
    let s := { s with store := store }
    match (s.stream child).state.reserveLocal with
    | (_, .error e) => (s, .error e)
    | (st', .ok _) =>
      let s := s.modStream child fun st => { st with state := st', isPendingPush := true }
      if !requestValid then (s, .error .malformedHeaders)
      else
        match s.sendPushPromise parent child promisedId fields with
        | (s, .error e) => ({ s with store := (s.store.unlink promisedId).remove child }, .error e)
        | (s, .ok _) =>
          let s := { s with refs := s.refs + 1 }
          (s.refInc child, .ok child)

/-- `Clone for Streams` -/
def cloneHandle (s : Streams) : Streams := { s with refs := s.refs + 1 }

/-- `Drop for Streams` -/
def dropHandle (s : Streams) : Streams :=
  let s := { s with refs := s.refs - 1 }
  if s.refs == 1 then s.notifyTask else s

/-- `StreamRef::send_data(data, end_stream)` -/
def refSendData (s : Streams) (id : Nat) (len : Nat) (eos : Bool) : Streams × Except UserError Unit :=
  s.transition id fun s => s.prioSendData id len eos

/-- `StreamRef::send_trailers(trailers)` -/
def refSendTrailers (s : Streams) (id : Nat) (fields : List Hpack.Field) : Streams × Except UserError Unit :=
  s.transition id fun s => s.sendTrailers id fields

/-- `StreamRef::send_reset(reason)` -/
def refSendReset (s : Streams) (id : Nat) (reason : Reason) : Streams :=
  match s.actionsSendReset id reason .user with
  | (s, .ok _) => s
  | (s, .error _) => s.panic "Initiator::User should not error sending reset"

/-- `StreamRef::reserve_capacity(capacity)` (no `transition` around it) -/
def refReserveCapacity (s : Streams) (id : Nat) (capacity : Nat) : Streams :=
  let requested := (s.stream id).requestedSendCapacity
  let s := s.reserveCapacity id capacity
  -- capacity given back goes to the streams waiting for it, which are then scheduled: tell the connection task
  if (s.stream id).requestedSendCapacity < requested then s.notifyTask else s

/-- `OpaqueStreamRef::poll_data(cx)` -/
def refPollData (s : Streams) (id : Nat) (tag : String) : Streams × PollData :=
  match s.recvPollData id tag with
  | (s, .data payload budgeted) =>
    (if budgeted then s.modCounts fun c => c.releaseDataFrame payload.length else s, .data payload budgeted)
  | r => r

/-- `OpaqueStreamRef::poll_pushed(cx)`: a promised stream comes with a new handle on it
    (`me.refs += 1; OpaqueStreamRef::new(.., &mut store.resolve(key))`) -/
def refPollPushed (s : Streams) (id : Nat) (tag : String) : Streams × PollPushed :=
  match s.recvPollPushed id tag with
  | (s, .pushed child m u f) => (s.cloneStreamRef child, .pushed child m u f)
  | r => r

/-- `OpaqueStreamRef::release_capacity(capacity)` -/
def refReleaseCapacity (s : Streams) (id : Nat) (capacity : Nat) : Streams × Except UserError Unit :=
  s.releaseCapacity id capacity true

/-- `OpaqueStreamRef::clear_recv_buffer()` (`Drop for RecvStream`) -/
def refClearRecvBuffer (s : Streams) (id : Nat) : Streams :=
  (s.modStream id fun st => { st with isRecv := false }).clearRecvBuffer id true

end Streams

end H2V.Model.Conn
