import H2V.Model.ConnStreams
/-
  Connection-level model, part 9 — mirror of `src/proto/connection.rs`, `settings.rs`,
  `ping_pong.rs`, `go_away.rs`, of `client::Connection::poll` / `handshake2` (`src/client.rs`) and of
  the server handshake and shutdown calls (`src/server.rs`).
  I/O errors of the scripted transport are `io::ErrorKind` names without payload.
-/
namespace H2V.Model.Conn
open H2V H2V.Model

/-- `connection::State` -/
inductive ConnState where
  | open
  | closing (reason : Reason) (init : Initiator)
  | closed (reason : Reason) (init : Initiator)
  deriving Repr, DecidableEq

def ConnState.name : ConnState → String
  | .open => "Open" | .closing .. => "Closing" | .closed .. => "Closed"

/-- `frame::GoAway` -/
structure GoAwayFrame where
  lastStreamId : Nat
  reason : Reason
  debugData : Bytes := []
  deriving Repr, DecidableEq

/-- `go_away::GoingAway` -/
structure GoingAway where
  lastProcessedId : Nat
  reason : Reason
  deriving Repr, DecidableEq

/-- `go_away::GoAway` -/
structure GoAway where
  closeNow : Bool := false
  goingAway : Option GoingAway := none
  isUserInitiated : Bool := false
  pending : Option GoAwayFrame := none
  deriving Repr

def STREAM_ID_MAX : Nat := 2147483647

namespace GoAway

/-- `GoAway::go_away(f)`; `false` = the `assert!` about increasing stream ids fired -/
def goAway (g : GoAway) (f : GoAwayFrame) : GoAway × Bool :=
  let ok := match g.goingAway with
    | some ga => decide (f.lastStreamId ≤ ga.lastProcessedId)
    | none => true
  ({ g with goingAway := some { lastProcessedId := f.lastStreamId, reason := f.reason }, pending := some f }, ok)

/-- `GoAway::go_away_now(f)` -/
def goAwayNow (g : GoAway) (f : GoAwayFrame) : GoAway × Bool :=
  let g := { g with closeNow := true }
  match g.goingAway with
  | some ga =>
    if ga.lastProcessedId == f.lastStreamId && ga.reason == f.reason then (g, true) else g.goAway f
  | none => g.goAway f

/-- `GoAway::go_away_from_user(f)` -/
def goAwayFromUser (g : GoAway) (f : GoAwayFrame) : GoAway × Bool :=
  ({ g with isUserInitiated := true }).goAwayNow f

def isGoingAway (g : GoAway) : Bool := g.goingAway.isSome

/-- `GoAway::should_close_now` -/
def shouldCloseNow (g : GoAway) : Bool := g.pending.isNone && g.closeNow

/-- `GoAway::should_close_on_idle` -/
def shouldCloseOnIdle (g : GoAway) : Bool :=
  !g.closeNow && (match g.goingAway with | some ga => ga.lastProcessedId != STREAM_ID_MAX | none => false)

end GoAway

/-- `ping_pong::PendingPing` -/
structure PendingPing where
  payload : Bytes
  sent : Bool
  deriving Repr, DecidableEq

/-- `ping_pong::UserPingsInner`: the shared state word and the two `AtomicWaker`s -/
structure UserPings where
  state : Nat := Generated.Consts.USER_STATE_EMPTY
  pingTask : Option String := none
  pongTask : Option String := none
  deriving Repr, DecidableEq

/-- `ping_pong::PingPong` -/
structure PingPong where
  pendingPing : Option PendingPing := none
  pendingPong : Option Bytes := none
  userPings : Option UserPings := none
  deriving Repr

/-- `ping_pong::ReceivedPing` -/
inductive ReceivedPing where
  | mustAck | unknown | shutdown
  deriving Repr, DecidableEq

/-- `PingPong::recv_ping(ping)`: the new value, the status, the tags woken (`pong_task`), and `false`
    when an `assert!` fired (`pending_pong.is_none()`, "pending_ping should be for shutdown") -/
def PingPong.recvPing (p : PingPong) (ack : Bool) (payload : Bytes) : PingPong × ReceivedPing × List String × Bool :=
  let ok := p.pendingPong.isNone
  if ack then
    let shutdownHit : Option Bool :=      -- `Some(assert ok)` when the payload is the pending ping's
      match p.pendingPing with
      | some pending => if pending.payload == payload then some (pending.payload == Generated.Consts.PING_SHUTDOWN_PAYLOAD) else none
      | none => none
    match shutdownHit with
    | some a => ({ p with pendingPing := none }, .shutdown, [], ok && a)
    | none =>
      match p.userPings with
      | some u =>
        -- `ping.payload() == &Ping::USER && users.receive_pong()`
        if payload == Generated.Consts.PING_USER_PAYLOAD && u.state == Generated.Consts.USER_STATE_PENDING_PONG then
          ({ p with userPings := some { u with state := Generated.Consts.USER_STATE_RECEIVED_PONG, pongTask := none } },
           .unknown, u.pongTask.toList, ok)
        else (p, .unknown, [], ok)
      | none => (p, .unknown, [], ok)
  else ({ p with pendingPong := some payload }, .mustAck, [], ok)

/-- `PingPong::ping_shutdown` -/
def PingPong.pingShutdown (p : PingPong) : PingPong :=
  { p with pendingPing := some { payload := Generated.Consts.PING_SHUTDOWN_PAYLOAD, sent := false } }

/-- `settings::Local` (a SETTINGS frame is its list of (identifier, value)) -/
inductive Local where
  | toSend (vals : List (Nat × Nat))
  | waitingAck (vals : List (Nat × Nat))
  | synced
  deriving Repr, DecidableEq

def Local.name : Local → String
  | .toSend _ => "ToSend" | .waitingAck _ => "WaitingAck" | .synced => "Synced"

/-- `settings::Settings` -/
structure Settings where
  loc : Local := .synced
  remote : Option (List (Nat × Nat)) := none
  hasReceivedRemoteInitialSettings : Bool := false
  deriving Repr

/-- the tag of the harness's `cn_poll` waker -/
def WAKER_CONN : String := "c"

/-- `proto::Connection` -/
structure Conn where
  codec : Codec := {}
  state : ConnState := .open
  error : Option GoAwayFrame := none
  goAway : GoAway := {}
  pingPong : PingPong := {}
  settings : Settings := {}
  streams : Streams := {}
  /-- the waker of the task that is polling the connection right now (`cx.waker()`) -/
  cx : String := WAKER_CONN
  /-- set when the model meets something it does not cover (PUSH_PROMISE, CONTINUATION on output, ...) -/
  unsupported : Option String := none
  deriving Repr

/-- `Poll<Result<(), Error>>` -/
inductive PollRes where
  | pending
  | ready (r : Except PErr Unit)
  deriving Repr

/-- answer of a `Poll<Result<(), Error>>` step inside `poll_ready` -/
inductive Step where
  | pending | ok | err (e : PErr)
  deriving Repr



namespace Conn

def panic (c : Conn) (msg : String) : Conn := { c with streams := c.streams.panic msg }

def unsup (c : Conn) (msg : String) : Conn :=
  match c.unsupported with
  | some _ => c
  | none => { c with unsupported := some msg }

/-- `dst.poll_ready(cx)` on the codec -/
def codecPollReady (c : Conn) : Conn × Step :=
  let (w, io, r) := pollReadyW c.codec.w c.codec.io c.cx
  ({ c with codec := { c.codec with w := w, io := io } },
   match r with | .ready => .ok | .pending => .pending | .err k => .err (.io k none))

def bufferSimple (c : Conn) (payloadLen : Nat) (render : String) : Conn :=
  { c with codec := { c.codec with w := c.codec.w.bufferSimple payloadLen render } }

def renderSettings (ack : Bool) (vals : List (Nat × Nat)) : String :=
  let body := if vals.isEmpty then "-" else ",".intercalate ((Frame.settingsOrder vals).map fun (k, v) => s!"{k}={v}")
  s!"S:0:{if ack then 1 else 0}:{body}"

def bufferSettings (c : Conn) (ack : Bool) (vals : List (Nat × Nat)) : Conn :=
  c.bufferSimple (6 * (Frame.settingsOrder vals).length) (renderSettings ack vals)

-- ===================================================================== go_away.rs / DynConnection

/-- `DynConnection::go_away(id, e)` -/
def dynGoAway (c : Conn) (id : Nat) (e : Reason) : Conn :=
  let c := { c with streams := c.streams.recvGoAway id }
  let (g, ok) := c.goAway.goAway { lastStreamId := id, reason := e }
  let c := { c with goAway := g }
  if ok then c else c.panic "GOAWAY stream IDs shouldn't be higher"

/-- `DynConnection::go_away_now(e)` / `go_away_now_data(e, data)` -/
def goAwayNowData (c : Conn) (e : Reason) (data : Bytes) : Conn :=
  let last := c.streams.recv.lastProcessedId
  let (g, ok) := c.goAway.goAwayNow { lastStreamId := last, reason := e, debugData := data }
  let c := { c with goAway := g }
  if ok then c else c.panic "GOAWAY stream IDs shouldn't be higher"

def goAwayNow (c : Conn) (e : Reason) : Conn := c.goAwayNowData e []

/-- answer of `send_pending_go_away`: `Poll<Option<io::Result<Reason>>>` -/
inductive GoAwayPoll where
  | pending | none | reason (r : Reason) | err (e : PErr)
  deriving Repr

/-- `GoAway::send_pending_go_away(cx, dst)`.  NOTE on an I/O error the frame taken out of `pending`
    is not put back. -/
def sendPendingGoAway (c : Conn) : Conn × GoAwayPoll :=
  match c.goAway.pending with
  | some frame =>
    match c.codecPollReady with
    | (c, .pending) => (c, .pending)
    | (c, .err e) => ({ c with goAway := { c.goAway with pending := none } }, .err e)
    | (c, .ok) =>
      let c := { c with goAway := { c.goAway with pending := none } }
      let c := c.bufferSimple (8 + frame.debugData.length)
        s!"G:0:{frame.lastStreamId}:{frame.reason}:{Hex.render frame.debugData}"
      (c, .reason frame.reason)
  | none =>
    if c.goAway.shouldCloseNow then
      match c.goAway.goingAway with
      | some ga => (c, .reason ga.reason)
      | none => (c, .none)
    else (c, .none)

-- ===================================================================== ping_pong.rs

/-- `PingPong::send_pending_pong(cx, dst)`.  NOTE on an I/O error the payload taken out of
    `pending_pong` is not put back. -/
def sendPendingPong (c : Conn) : Conn × Step :=
  match c.pingPong.pendingPong with
  | some pong =>
    match c.codecPollReady with
    | (c, .pending) => (c, .pending)
    | (c, .err e) => ({ c with pingPong := { c.pingPong with pendingPong := none } }, .err e)
    | (c, .ok) =>
      let c := { c with pingPong := { c.pingPong with pendingPong := none } }
      (c.bufferSimple 8 s!"P:0:1:{Hex.ofBytes pong}", .ok)
  | none => (c, .ok)

/-- `PingPong::send_pending_ping(cx, dst)` -/
def sendPendingPing (c : Conn) : Conn × Step :=
  match c.pingPong.pendingPing with
  | some ping =>
    if !ping.sent then
      match c.codecPollReady with
      | (c, .ok) =>
        let c := c.bufferSimple 8 s!"P:0:0:{Hex.ofBytes ping.payload}"
        ({ c with pingPong := { c.pingPong with pendingPing := some { ping with sent := true } } }, .ok)
      | r => r
    else (c, .ok)
  | none =>
    match c.pingPong.userPings with
    | some u =>
      -- register first, then look at the state
      let u := { u with pingTask := some c.cx }
      let c := { c with pingPong := { c.pingPong with userPings := some u } }
      if u.state == Generated.Consts.USER_STATE_PENDING_PING then
        match c.codecPollReady with
        | (c, .ok) =>
          let c := c.bufferSimple 8 s!"P:0:0:{Hex.ofBytes Generated.Consts.PING_USER_PAYLOAD}"
          ({ c with pingPong := { c.pingPong with userPings := some { u with state := Generated.Consts.USER_STATE_PENDING_PONG } } }, .ok)
        | r => r
      else (c, .ok)
    | none => (c, .ok)

/-- `PingPong::take_user_pings` (`Connection::ping_pong`): `true` when the handle is handed out -/
def takeUserPings (c : Conn) : Conn × Bool :=
  if c.pingPong.userPings.isSome then (c, false)
  else ({ c with pingPong := { c.pingPong with userPings := some {} } }, true)

/-- `UserPings::send_ping`: `Ok`, `Err(Some(broken pipe))` = `some true`, `Err(None)` = `some false` -/
def userSendPing (c : Conn) : Conn × Option Bool :=
  match c.pingPong.userPings with
  | none => (c, some false)
  | some u =>
    if u.state == Generated.Consts.USER_STATE_EMPTY then
      let c := { c with streams := c.streams.wake u.pingTask.toList }
      ({ c with pingPong := { c.pingPong with userPings := some { u with state := Generated.Consts.USER_STATE_PENDING_PING, pingTask := none } } }, none)
    else if u.state == Generated.Consts.USER_STATE_CLOSED then (c, some true)
    else (c, some false)

/-- `UserPings::poll_pong(cx)`: `none` = pending, `some true` = pong, `some false` = broken pipe -/
def userPollPong (c : Conn) (tag : String) : Conn × Option Bool :=
  match c.pingPong.userPings with
  | none => (c, none)
  | some u =>
    let u := { u with pongTask := some tag }
    if u.state == Generated.Consts.USER_STATE_RECEIVED_PONG then
      ({ c with pingPong := { c.pingPong with userPings := some { u with state := Generated.Consts.USER_STATE_EMPTY } } }, some true)
    else
      let c := { c with pingPong := { c.pingPong with userPings := some u } }
      if u.state == Generated.Consts.USER_STATE_CLOSED then (c, some false) else (c, none)

/-- `Drop for UserPingsRx` (the connection goes away) -/
def dropUserPingsRx (c : Conn) : Conn :=
  match c.pingPong.userPings with
  | none => c
  | some u =>
    let c := { c with streams := c.streams.wake u.pongTask.toList }
    { c with pingPong := { c.pingPong with userPings := some { u with state := Generated.Consts.USER_STATE_CLOSED, pongTask := none } } }

-- ===================================================================== settings.rs

/-- `Settings::recv_settings(frame, codec, streams)` -/
def recvSettings (c : Conn) (ack : Bool) (vals : List (Nat × Nat)) : Conn × Except PErr Unit :=
  if ack then
    match c.settings.loc with
    | .waitingAck loc =>
      let get := fun (id : Nat) => (loc.find? (·.1 = id)).map (·.2)
      let r := c.codec.r
      let r := match get 5 with | some m => r.setMaxFrameSize m | none => r
      let r := match get 6 with | some m => r.setMaxHeaderListSize m | none => r
      let r := match get 1 with | some v => { r with hpack := r.hpack.queueSizeUpdate v } | none => r
      let c := { c with codec := { c.codec with r := r } }
      match c.streams.applyLocalSettingsFrame loc with
      | (s, .error e) => ({ c with streams := s }, .error e)
      | (s, .ok _) => ({ c with streams := s, settings := { c.settings with loc := .synced } }, .ok ())
    | _ => (c, .error (PErr.libraryGoAway PROTOCOL_ERROR))
  else
    let c := if c.settings.remote.isSome then c.panic "assertion failed: self.remote.is_none()" else c
    ({ c with settings := { c.settings with remote := some vals } }, .ok ())

/-- `Settings::send_settings(frame)` -/
def sendSettings (c : Conn) (vals : List (Nat × Nat)) : Conn × Except UserError Unit :=
  match c.settings.loc with
  | .synced => ({ c with settings := { c.settings with loc := .toSend vals } }, .ok ())
  | _ => (c, .error .sendSettingsWhilePending)

/-- `Settings::poll_send(cx, dst, streams)` -/
def settingsPollSend (c : Conn) : Conn × Step :=
  let first : Conn × Step :=
    match c.settings.remote with
    | some settings =>
      match c.codecPollReady with
      | (c, .pending) => (c, .pending)
      | (c, .err e) => (c, .err e)
      | (c, .ok) =>
        let c := c.bufferSettings true []
        let isInitial := !c.settings.hasReceivedRemoteInitialSettings
        let c := { c with settings := { c.settings with hasReceivedRemoteInitialSettings := true } }
        match c.streams.applyRemoteSettings settings isInitial with
        | (s, .error e) => ({ c with streams := s }, .err e)
        | (s, .ok _) =>
          let c := { c with streams := s }
          let get := fun (id : Nat) => (settings.find? (·.1 = id)).map (·.2)
          let w := c.codec.w
          let w := match get 1 with | some v => { w with hpack := w.hpack.updateMaxSize v } | none => w
          let w := match get 5 with | some v => { w with maxFrameSize := v } | none => w
          ({ c with codec := { c.codec with w := w } }, .ok)
    | none => (c, .ok)
  match first with
  | (c, .ok) =>
    let c := { c with settings := { c.settings with remote := none } }
    match c.settings.loc with
    | .toSend settings =>
      match c.codecPollReady with
      | (c, .ok) =>
        let c := c.bufferSettings false settings
        ({ c with settings := { c.settings with loc := .waitingAck settings } }, .ok)
      | r => r
    | _ => (c, .ok)
  | r => r

-- ===================================================================== connection.rs

/-- `Connection::poll_ready(cx)` -/
def pollReady (c : Conn) : Conn × Step :=
  match c.sendPendingPong with
  | (c, .ok) =>
    match c.sendPendingPing with
    | (c, .ok) =>
      match c.settingsPollSend with
      | (c, .ok) =>
        let (s, w, io, r) := Streams.pollSendPendingRefusal 4 c.streams c.codec.w c.codec.io c.cx
        let c := { c with streams := s, codec := { c.codec with w := w, io := io } }
        (c, match r with | .ready => .ok | .pending => .pending | .err k => .err (.io k none))
      | r => r
    | r => r
  | r => r

/-- `Connection::set_target_window_size(size)` -/
def setTargetWindowSize (c : Conn) (size : Nat) : Conn :=
  { c with streams := (c.streams.setTargetConnectionWindow size).1 }

/-- `Connection::set_initial_window_size(size)` -/
def setInitialWindowSize (c : Conn) (size : Nat) : Conn × Except UserError Unit :=
  c.sendSettings [(4, size)]

/-- `Connection::take_error(ours, initiator)` -/
def takeError (c : Conn) (ours : Reason) (init : Initiator) : Conn × Except PErr Unit :=
  let (debug, theirs) := match c.error with
    | some f => (f.debugData, f.reason)
    | none => ([], NO_ERROR)
  let c := { c with error := none }
  if ours == NO_ERROR && theirs == NO_ERROR then (c, .ok ())
  else if theirs == NO_ERROR then (c, .error (.goAway [] ours init))
  else (c, .error (PErr.remoteGoAway debug theirs))

/-- `DynConnection::handle_go_away(reason, debug_data, initiator)` -/
def handleGoAway (c : Conn) (reason : Reason) (debug : Bytes) (init : Initiator) : Conn :=
  if (match c.goAway.goingAway with | some ga => ga.reason == reason | none => false) then
    { c with state := .closing reason init }
  else
    let (s, _) := c.streams.handleError (.goAway debug reason init)
    ({ c with streams := s }).goAwayNowData reason debug

/-- `DynConnection::handle_poll2_result(result)` -/
def handlePoll2Result (c : Conn) (result : Except PErr Unit) : Conn × Except PErr Unit :=
  match result with
  | .ok _ => ({ c with state := .closing NO_ERROR .library }, .ok ())
  | .error (.goAway debug reason init) => (c.handleGoAway reason debug init, .ok ())
  | .error (.reset id reason init) =>
    if init == .remote then (c, .ok ())
    else
      match c.streams.innerSendReset id reason with
      | (s, .ok _) => ({ c with streams := s }, .ok ())
      | (s, .error g) =>
        (({ c with streams := s }).handleGoAway g.reason (Http.str g.debugData) .library, .ok ())
  | .error (.io kind msg) =>
    let e : PErr := .io kind msg
    let c := { c with streams := (c.streams.handleError e).1 }
    if c.streams.sendBufferLen == 0 && kind == "UnexpectedEof" &&
       (c.streams.counts.isServer || (match c.error with | some f => f.reason == NO_ERROR | none => false)) then
      ({ c with state := .closed NO_ERROR .library }, .ok ())
    else (c, .error e)

/-- `connection::ReceivedFrame` -/
inductive ReceivedFrame where
  | settings (ack : Bool) (vals : List (Nat × Nat))
  | continue
  | done
  deriving Repr

def headersIn (sid : Nat) (eos : Bool) (blk : Frame.HeaderBlock) : HeadersIn :=
  { sid := sid, eos := eos, status := blk.pseudo.status, method := blk.pseudo.method, scheme := blk.pseudo.scheme,
    authority := blk.pseudo.authority, path := blk.pseudo.path, hasProtocol := blk.pseudo.protocol.isSome,
    fields := blk.fields, isOverSize := blk.isOverSize }

/-- `DynConnection::recv_frame(frame)` -/
def recvFrame (c : Conn) (frame : Option Frame.Frame) : Conn × Except PErr ReceivedFrame :=
  let lift := fun (r : Streams × Except PErr Unit) =>
    match r with
    | (s, .ok _) => ({ c with streams := s }, Except.ok ReceivedFrame.continue)
    | (s, .error e) => ({ c with streams := s }, Except.error e)
  match frame with
  | some (.headers sid eos _ blk) => lift (c.streams.recvHeaders (headersIn sid eos blk))
  | some (.data sid payload eos padLen) => lift (c.streams.recvData sid payload eos padLen)
  | some (.reset sid code) => lift (c.streams.recvReset sid code)
  | some (.pushPromise sid promised blk) => lift (c.streams.recvPushPromise sid (headersIn promised false blk))
  | some (.settings ack vals) => (c, .ok (.settings ack vals))
  | some (.goAway last code debug) =>
    match c.streams.recvGoAwayFrame last code debug with
    | (s, .error e) => ({ c with streams := s }, .error e)
    | (s, .ok _) => ({ c with streams := s, error := some { lastStreamId := last, reason := code, debugData := debug } }, .ok .continue)
  | some (.ping ack payload) =>
    let (pp, status, woken, ok) := c.pingPong.recvPing ack payload
    let c := { c with pingPong := pp, streams := c.streams.wake woken }
    let c := if ok then c else c.panic "ping_pong assertion"
    if status == .shutdown then
      let c := if c.goAway.isGoingAway then c else c.panic "received unexpected shutdown ping"
      (c.dynGoAway c.streams.recv.lastProcessedId NO_ERROR, .ok .continue)
    else (c, .ok .continue)
  | some (.windowUpdate sid inc) => lift (c.streams.recvWindowUpdate sid inc)
  | some (.priority ..) => (c, .ok .continue)
  | none => ({ c with streams := c.streams.recvEof false }, .ok .done)

def rerrToPErr : CodecRead.RErr → PErr
  | .goAway code debug => .goAway (Http.str debug) code .library
  | .reset sid code => .reset sid code .library
  | .io what => .io what none

/-- the `loop` of `Connection::poll2`; fuel: one unit per received frame -/
def poll2Loop : Nat → Conn → Conn × PollRes
  | 0, c => (c.panic "model: poll2 out of fuel", .pending)
  | fuel + 1, c =>
    let goOn := fun (c : Conn) =>
      match c.pollReady with
      | (c, .pending) => (c, PollRes.pending)
      | (c, .err e) => (c, .ready (.error e))
      | (c, .ok) =>
        let (codec, polled) := pollNext (c.codec.r.buf.length + c.codec.io.rd.length + 2) c.codec c.cx
        let c := { c with codec := codec }
        match polled with
        | .pending => (c, .pending)
        | .err e => (c, .ready (.error (rerrToPErr e)))
        | .ioErr kind msg => (c, .ready (.error (.io kind msg)))
        | other =>
          let frame := match other with | .frame f => some f | _ => none
          match c.recvFrame frame with
          | (c, .error e) => (c, .ready (.error e))
          | (c, .ok .continue) => poll2Loop fuel c
          | (c, .ok .done) => (c, .ready (.ok ()))
          | (c, .ok (.settings ack vals)) =>
            match c.recvSettings ack vals with
            | (c, .error e) => (c, .ready (.error e))
            | (c, .ok _) => poll2Loop fuel c
    match c.sendPendingGoAway with
    | (c, .pending) => (c, .pending)
    | (c, .err e) => (c, .ready (.error e))
    | (c, .reason reason) =>
      if c.goAway.shouldCloseNow then
        if c.goAway.isUserInitiated then (c, .ready (.ok ()))
        else (c, .ready (.error (PErr.libraryGoAway reason)))
      else goOn c
    | (c, .none) => goOn c

/-- `Connection::poll2(cx)` -/
def poll2 (fuel : Nat) (c : Conn) : Conn × PollRes :=
  let c := { c with streams := Streams.clearExpiredResetStreams (c.streams.recv.pendingResetExpired.length + 1) c.streams }
  poll2Loop fuel c

/-- `proto::Connection::poll(cx)`; fuel: one unit per turn of the state loop -/
def protoPoll : Nat → Conn → Conn × PollRes
  | 0, c => (c.panic "model: poll out of fuel", .pending)
  | fuel + 1, c =>
    match c.state with
    | .open =>
      match poll2 (fuel + 1) c with
      | (c, .ready result) =>
        match c.handlePoll2Result result with
        | (c, .ok _) => protoPoll fuel c
        | (c, .error e) => (c, .ready (.error e))
      | (c, .pending) =>
        let (s, w, io, r) := Streams.pollComplete (fuel + 1) c.streams c.codec.w c.codec.io c.cx
        let c := { c with streams := s, codec := { c.codec with w := w, io := io } }
        match r with
        | .pending => (c, .pending)
        | .err k => (c, .ready (.error (.io k none)))
        | .ready =>
        if (c.error.isSome || c.goAway.shouldCloseOnIdle) && !c.streams.counts.hasStreams then
          protoPoll fuel (c.goAwayNow NO_ERROR)
        else (c, .pending)
    | .closing reason init =>
      let (w, io, r) := shutdownW c.codec.w c.codec.io c.cx
      let c := { c with codec := { c.codec with w := w, io := io } }
      match r with
      | .pending => (c, .pending)
      | .err k => (c, .ready (.error (.io k none)))
      | .ready => protoPoll fuel { c with state := .closed reason init }
    | .closed reason init =>
      let (c, r) := c.takeError reason init
      (c, .ready r)

/-- `Streams::has_streams_or_other_references` -/
def hasStreamsOrOtherReferences (c : Conn) : Bool := c.streams.counts.hasStreams || c.streams.refs > 1

/-- `impl Future for client::Connection`: `poll` -/
def clientPoll (fuel : Nat) (c : Conn) : Conn × PollRes :=
  let c := if !c.hasStreamsOrOtherReferences then c.goAwayNow NO_ERROR else c
  let had := c.hasStreamsOrOtherReferences
  let (c, r) := protoPoll fuel c
  let pending := match r with | .pending => true | _ => false
  let c := if pending && had && !c.hasStreamsOrOtherReferences then
      { c with streams := c.streams.wake [c.cx] }
    else c
  (c, r)

/-- `Connection::go_away_gracefully` (server) -/
def goAwayGracefully (c : Conn) : Conn :=
  if c.goAway.isGoingAway then c
  else
    let c := c.dynGoAway STREAM_ID_MAX NO_ERROR
    let c := if c.pingPong.pendingPing.isSome then c.panic "assertion failed: self.pending_ping.is_none()" else c
    { c with pingPong := c.pingPong.pingShutdown }

/-- `Connection::go_away_from_user(e)` / `DynConnection::go_away_from_user` (server `abrupt_shutdown`) -/
def goAwayFromUser (c : Conn) (e : Reason) : Conn :=
  let last := c.streams.recv.lastProcessedId
  let (g, ok) := c.goAway.goAwayFromUser { lastStreamId := last, reason := e }
  let c := { c with goAway := g }
  let c := if ok then c else c.panic "GOAWAY stream IDs shouldn't be higher"
  { c with streams := (c.streams.handleError (PErr.userGoAway e)).1 }

/-- the builder options the harness can set (`cn_new client k=v ...`) -/
structure Cfg where
  iws : Option Nat := none
  cws : Option Nat := none
  mcs : Option Nat := none
  mfs : Option Nat := none
  mhl : Option Nat := none
  hts : Option Nat := none
  push : Option Nat := none
  sendbuf : Nat := Generated.Consts.DEFAULT_MAX_SEND_BUFFER_SIZE
  resetMax : Nat := Generated.Consts.DEFAULT_RESET_STREAM_MAX
  pendAcceptReset : Nat := Generated.Consts.DEFAULT_REMOTE_RESET_STREAM_MAX
  initMaxSend : Nat := USIZE_MAX
  budget : Nat := Generated.Consts.DEFAULT_DATA_FRAME_BUDGET
  firstId : Nat := 1
  resetSecs : Nat := 3600
  deriving Repr

/-- the SETTINGS frame of the builder -/
def Cfg.settings (g : Cfg) : List (Nat × Nat) :=
  let opt := fun (id : Nat) (v : Option Nat) => match v with | some x => [(id, x)] | none => []
  opt 1 g.hts ++ opt 2 g.push ++ opt 3 g.mcs ++ opt 4 g.iws ++ opt 5 g.mfs ++ opt 6 g.mhl

/-- `client::Connection::handshake2(io, builder)` after `bind_connection` wrote the preface: the
    codec holds the (unflushed) SETTINGS frame, `SendRequest` is the second handle on the streams -/
def init (g : Cfg) : Conn :=
  let settings := g.settings
  let r := CodecRead.Reader.new Generated.Consts.DEFAULT_MAX_FRAME_SIZE
  let r := match g.mfs with | some m => r.setMaxFrameSize m | none => r
  let r := match g.mhl with | some m => r.setMaxHeaderListSize m | none => r
  let maxRecv := match g.mcs with | some m => m | none => USIZE_MAX
  let flowInit : FlowControl :=
    ((FlowControl.new.incWindow Generated.Consts.DEFAULT_INITIAL_WINDOW_SIZE).1.assignCapacity Generated.Consts.DEFAULT_INITIAL_WINDOW_SIZE).1
  let streams : Streams :=
    { counts := { isServer := false, maxSendStreams := g.initMaxSend, maxRecvStreams := maxRecv,
                  maxLocalResetStreams := g.resetMax, maxRemoteResetStreams := g.pendAcceptReset,
                  dataFrameBudget := Budget.new g.budget },
      actions := {
        recv := { flow := flowInit, isPushEnabled := (match g.push with | some v => v != 0 | none => true),
                  resetDurationZero := g.resetSecs == 0 },
        send := { nextStreamId := some g.firstId,
                  prioritize := { flow := flowInit, maxBufferSize := g.sendbuf } } },
      refs := 1 }
  let c : Conn := { codec := { r := r }, settings := { loc := .waitingAck settings }, streams := streams }
  let c := { c with codec := { c.codec with io := { c.codec.io with tx := ["PREFACE"] } } }
  let c := c.bufferSettings false settings
  let c := { c with streams := c.streams.cloneHandle }
  match g.cws with
  | some sz => c.setTargetWindowSize sz
  | none => c

/-- `server::Handshake::poll` driven once by the harness: the SETTINGS frame is flushed (the fresh
    transport takes everything), the 24 octets of the preface are read off the transport (what is left
    in `rd` is the peer's first SETTINGS frame), then `proto::Connection::new`.  The server builder
    has no `push` / `init_max_send` / `first_id` (the harness ignores them for this role). -/
def initServer (g : Cfg) (ecp : Bool) (peerFirst : Bytes) : Conn :=
  let settings := (({ g with push := none } : Cfg).settings) ++ (if ecp then [(8, 1)] else [])
  let r := CodecRead.Reader.new Generated.Consts.DEFAULT_MAX_FRAME_SIZE
  let r := match g.mfs with | some m => r.setMaxFrameSize m | none => r
  let r := match g.mhl with | some m => r.setMaxHeaderListSize m | none => r
  let maxRecv := match g.mcs with | some m => m | none => USIZE_MAX
  let flowInit : FlowControl :=
    ((FlowControl.new.incWindow Generated.Consts.DEFAULT_INITIAL_WINDOW_SIZE).1.assignCapacity Generated.Consts.DEFAULT_INITIAL_WINDOW_SIZE).1
  let streams : Streams :=
    { counts := { isServer := true, maxSendStreams := 0, maxRecvStreams := maxRecv,
                  maxLocalResetStreams := g.resetMax, maxRemoteResetStreams := g.pendAcceptReset,
                  dataFrameBudget := Budget.new g.budget },
      actions := {
        recv := { flow := flowInit, nextStreamId := some 1, isPushEnabled := true,
                  isExtendedConnectProtocolEnabled := ecp, resetDurationZero := g.resetSecs == 0 },
        send := { nextStreamId := some 2,
                  prioritize := { flow := flowInit, maxBufferSize := g.sendbuf } } },
      refs := 1 }
  let c : Conn := { codec := { r := r, io := { rd := peerFirst } }, settings := { loc := .waitingAck settings }, streams := streams }
  let c := c.bufferSettings false settings
  let (w, io, _) := flush c.codec.w c.codec.io WAKER_CONN
  let c := { c with codec := { c.codec with w := w, io := io } }
  match g.cws with
  | some sz => c.setTargetWindowSize sz
  | none => c

end Conn

end H2V.Model.Conn
