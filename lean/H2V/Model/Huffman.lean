import H2V.Model.Basic
import H2V.Generated.Huffman
/-
  A1 — mirror of `src/hpack/huffman/mod.rs` (`decode`, `encode`) over the generated tables.
  `decode` is the byte-indexed multi-level table walk exactly as coded: `acc` is the `u32`
  accumulator (shifts drop the high bits), `bits` the number of not-yet-consumed low bits of `acc`,
  `table` the current sub-table; the tail loop handles the < 8 left-over bits.
-/
namespace H2V.Model.Huffman
open H2V H2V.Generated.Huffman

/-- `DECODE_TABLE[table * TABLE_WIDTH + index]` -/
def lookup (t i : Nat) : Nat := (decT.getD t []).getD i 0

/-- `ENCODE_TABLE[b]` -/
def encEntry (b : Nat) : Nat × Nat := encL.getD b (0, 0)

/-- the inner `while bits >= 8` loop. State: (table, bits, out); `acc` does not change. -/
def inner (acc : Nat) : Nat → Nat → Nat → Bytes → Res Unit (Nat × Nat × Bytes)
  | 0, _, _, _ => .loop
  | fuel + 1, t, bits, out =>
    if bits ≥ 8 then
      let index := (acc >>> (bits - 8)) % 256
      let entry := lookup t index
      if entry &&& BRANCH = 0 then
        inner acc fuel 0 (bits - (entry >>> 8)) (out ++ [entry % 256])
      else
        let t' := (entry &&& TABLE_INDEX_MASK) >>> 8
        if t' = 0 then .err () else inner acc fuel t' (bits - 8) out
    else .ok (t, bits, out)

/-- the `for &byte in src` loop -/
def bytesLoop : Bytes → Nat → Nat → Nat → Bytes → Res Unit (Nat × Nat × Nat × Bytes)
  | [], t, acc, bits, out => .ok (t, acc, bits, out)
  | b :: rest, t, acc, bits, out =>
    let acc' := ((acc <<< 8) ||| b) % 4294967296
    match inner acc' 17 t (bits + 8) out with
    | .ok (t', bits', out') => bytesLoop rest t' acc' bits' out'
    | .err e => .err e
    | .loop => .loop

/-- the tail `while bits > 0` loop -/
def tail (acc : Nat) : Nat → Nat → Nat → Bytes → Res Unit (Nat × Bytes)
  | 0, _, _, _ => .loop
  | fuel + 1, t, bits, out =>
    if bits > 0 then
      let padding := (1 <<< bits) - 1
      if t = 0 ∧ acc &&& padding = padding then .ok (t, out)
      else
        let index := (acc <<< (8 - bits)) % 256
        let entry := lookup t index
        if entry &&& BRANCH ≠ 0 then .err ()
        else
          let used := entry >>> 8
          if used > bits then .err ()
          else tail acc fuel 0 (bits - used) (out ++ [entry % 256])
    else .ok (t, out)

/-- `huffman::decode`: `ok bytes`, `err ()` = `InvalidHuffmanCode`, `loop` = fuel exhausted -/
def decode (src : Bytes) : Res Unit Bytes :=
  match bytesLoop src 0 0 0 [] with
  | .ok (t, acc, bits, out) =>
    match tail acc 9 t bits out with
    | .ok (t', out') => if t' = 0 then .ok out' else .err ()
    | .err e => .err e
    | .loop => .loop
  | .err e => .err e
  | .loop => .loop

/-- the `while bits_left <= 32` flush loop of `encode`: (bits, bits_left, out) -/
def flush : Nat → Nat → Nat → Bytes → Nat × Nat × Bytes
  | 0, bits, left, out => (bits, left, out)
  | fuel + 1, bits, left, out =>
    if left ≤ 32 then
      flush fuel ((bits <<< 8) % 18446744073709551616) (left + 8) (out ++ [(bits >>> 32) % 256])
    else (bits, left, out)

/-- `huffman::encode` -/
def encLoop : Bytes → Nat → Nat → Bytes → Nat × Nat × Bytes
  | [], bits, left, out => (bits, left, out)
  | b :: rest, bits, left, out =>
    let (nbits, code) := encEntry b
    let bits' := bits ||| (code <<< (left - nbits))
    let (bits'', left'', out'') := flush 5 bits' (left - nbits) out
    encLoop rest bits'' left'' out''

def encode (src : Bytes) : Bytes :=
  let (bits, left, out) := encLoop src 0 40 []
  if left ≠ 40 then
    let bits' := bits ||| ((1 <<< left) - 1)
    out ++ [(bits' >>> 32) % 256]
  else out

end H2V.Model.Huffman
