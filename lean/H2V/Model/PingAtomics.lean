import H2V.Generated.Consts
import H2V.Generated.Orders
/-
  The user-ping hand-shake of `src/proto/ping_pong.rs` as two concurrent programs over one atomic
  word and two `AtomicWaker`s.  Each line of Rust that touches shared state is one atomic step; the
  ORDER of the steps inside `send_pending_ping`, `poll_pong`, `send_ping` and `receive_pong` is read
  from the source by the translator (`H2V.Generated.Orders`).  All interleavings are enumerated.
-/
namespace H2V.Model.PingAtomics
open H2V.Generated.Consts

/-- shared state -/
structure Sh where
  state : Nat                 -- `UserPingsInner::state`
  pingReg : Bool := false     -- `ping_task` holds the connection task's waker
  pongReg : Bool := false     -- `pong_task` holds the user task's waker
  connWoken : Bool := false   -- the connection task's waker fired
  userWoken : Bool := false   -- the user task's waker fired
  pingSent : Nat := 0         -- PING(USER) frames buffered
  deriving Repr, DecidableEq

/-- thread-local results of a step -/
structure Loc where
  loaded : Option Nat := none     -- value seen by `load` / previous value of a compare-exchange
  deriving Repr, DecidableEq

inductive Act where
  | regPing            -- ping_task.register(conn waker)
  | loadState          -- state.load()
  | sendIfPending      -- if loaded == PENDING_PING { buffer PING(USER); state.store(PENDING_PONG) }
  | casEmptyToPending  -- compare_exchange(EMPTY, PENDING_PING)
  | wakePingIfWasEmpty -- if prev == EMPTY { ping_task.wake() }
  | regPong            -- pong_task.register(user waker)
  | casReceivedToEmpty -- compare_exchange(RECEIVED_PONG, EMPTY)
  | casPendingPongToReceived -- compare_exchange(PENDING_PONG, RECEIVED_PONG)
  | wakePongIfWasPending     -- if prev == PENDING_PONG { pong_task.wake() }
  deriving Repr, DecidableEq

def cas (sh : Sh) (cur new : Nat) : Sh × Nat :=
  if sh.state = cur then ({ sh with state := new }, cur) else (sh, sh.state)

def Act.run (a : Act) (sh : Sh) (l : Loc) : Sh × Loc :=
  match a with
  | .regPing => ({ sh with pingReg := true }, l)
  | .loadState => (sh, { l with loaded := some sh.state })
  | .sendIfPending =>
    if l.loaded = some USER_STATE_PENDING_PING then
      ({ sh with state := USER_STATE_PENDING_PONG, pingSent := sh.pingSent + 1 }, l)
    else (sh, l)
  | .casEmptyToPending =>
    let (sh', prev) := cas sh USER_STATE_EMPTY USER_STATE_PENDING_PING
    (sh', { l with loaded := some prev })
  | .wakePingIfWasEmpty =>
    if l.loaded = some USER_STATE_EMPTY ∧ sh.pingReg then ({ sh with pingReg := false, connWoken := true }, l) else (sh, l)
  | .regPong => ({ sh with pongReg := true }, l)
  | .casReceivedToEmpty =>
    let (sh', prev) := cas sh USER_STATE_RECEIVED_PONG USER_STATE_EMPTY
    (sh', { l with loaded := some prev })
  | .casPendingPongToReceived =>
    let (sh', prev) := cas sh USER_STATE_PENDING_PONG USER_STATE_RECEIVED_PONG
    (sh', { l with loaded := some prev })
  | .wakePongIfWasPending =>
    if l.loaded = some USER_STATE_PENDING_PONG ∧ sh.pongReg then ({ sh with pongReg := false, userWoken := true }, l) else (sh, l)

/-- `PingPong::send_pending_ping` (user-ping branch), as the source orders it -/
def sendPendingPing (registerFirst : Bool) : List Act :=
  if registerFirst then [.regPing, .loadState, .sendIfPending]
  else [.loadState, .sendIfPending, .regPing]   -- before the fix: register only in the else branch, after the load

/-- `UserPings::send_ping` -/
def sendPing (casFirst : Bool) : List Act :=
  if casFirst then [.casEmptyToPending, .wakePingIfWasEmpty] else [.wakePingIfWasEmpty, .casEmptyToPending]

/-- `UserPings::poll_pong` -/
def pollPong (registerFirst : Bool) : List Act :=
  if registerFirst then [.regPong, .casReceivedToEmpty] else [.casReceivedToEmpty, .regPong]

/-- `UserPingsRx::receive_pong` -/
def receivePong (casFirst : Bool) : List Act :=
  if casFirst then [.casPendingPongToReceived, .wakePongIfWasPending] else [.wakePongIfWasPending, .casPendingPongToReceived]

/-- all final shared states (with the two threads' locals) over every interleaving of two programs -/
def explore : Nat → List Act → Loc → List Act → Loc → Sh → List (Sh × Loc × Loc)
  | 0, _, l1, _, l2, sh => [(sh, l1, l2)]
  | fuel + 1, p1, l1, p2, l2, sh =>
    match p1, p2 with
    | [], [] => [(sh, l1, l2)]
    | a :: r1, [] => let (sh', l1') := a.run sh l1; explore fuel r1 l1' [] l2 sh'
    | [], b :: r2 => let (sh', l2') := b.run sh l2; explore fuel [] l1 r2 l2' sh'
    | a :: r1, b :: r2 =>
      (let (sh', l1') := a.run sh l1; explore fuel r1 l1' (b :: r2) l2 sh') ++
      (let (sh', l2') := b.run sh l2; explore fuel (a :: r1) l1 r2 l2' sh')

def finals (p1 p2 : List Act) (sh : Sh) : List Sh :=
  (explore (p1.length + p2.length + 1) p1 {} p2 {} sh).map (·.1)

/-- no lost ping: after one pass of the connection task through `send_pending_ping` racing with one
    `send_ping`, a requested ping is either on its way or the connection task has been woken -/
def pingNotLost (sh : Sh) : Bool :=
  sh.state != USER_STATE_PENDING_PING || sh.connWoken

/-- no lost pong: after `receive_pong` racing with one `poll_pong` that returned Pending, a received
    pong either was consumed by that poll or the user task has been woken -/
def pongNotLost (final : Sh × Loc × Loc) : Bool :=
  -- thread 2 is the poll_pong; it consumed the pong iff its CAS saw RECEIVED_PONG
  final.1.state != USER_STATE_RECEIVED_PONG || final.1.userWoken

/-- start states: the connection may or may not have been registered by an earlier poll (if it was,
    it has not been woken since: it is parked) -/
def pingStarts : List Sh := [{ state := USER_STATE_EMPTY, pingReg := false }, { state := USER_STATE_EMPTY, pingReg := true }]

def pongStarts : List Sh := [{ state := USER_STATE_PENDING_PONG, pongReg := false }, { state := USER_STATE_PENDING_PONG, pongReg := true }]

def pingAllOk (registerFirst casFirst : Bool) : Bool :=
  pingStarts.all fun sh => (finals (sendPendingPing registerFirst) (sendPing casFirst) sh).all pingNotLost

def pongAllOk (registerFirst casFirst : Bool) : Bool :=
  pongStarts.all fun sh =>
    (explore 8 (receivePong casFirst) {} (pollPong registerFirst) {} sh).all pongNotLost

end H2V.Model.PingAtomics
