/-
  C12, write side, as a monitor on the octets the real codec hands to the transport — written from
  RFC 9113 §4.1/§4.2 only (9-octet frame header, 24-bit length), not from h2's code:

    * every frame's payload length is at most the largest SETTINGS_MAX_FRAME_SIZE in force so far
    * a header block is contiguous: after HEADERS/PUSH_PROMISE/CONTINUATION without END_HEADERS
      only a CONTINUATION of the same stream may follow
    * when the transport is shut down, the octets written so far are whole frames, no header block is
      open, and there are as many frames that start an item as items were accepted by `buffer`
-/
namespace H2V.Spec.WriteMon

structure St where
  maxf : Nat := 16384          -- the largest limit in force since `new`
  tail : List Nat := []        -- octets of an incomplete frame
  items : Nat := 0             -- accepted by `buffer`
  starts : Nat := 0            -- complete frames seen that are not CONTINUATION
  openBlock : Option Nat := none
  deriving Repr

def be (bs : List Nat) : Nat := bs.foldl (fun a b => a * 256 + b) 0

/-- consume complete frames from the front of `bs` -/
def frames : Nat → St → List Nat → St × List String
  | 0, s, bs => ({ s with tail := bs }, [])
  | fuel + 1, s, bs =>
    if bs.length < 9 then ({ s with tail := bs }, [])
    else
      let len := be (bs.take 3)
      if bs.length < 9 + len then
        -- an incomplete frame: its announced length can already be judged
        ({ s with tail := bs }, if len > s.maxf then ["C12 frame-exceeds-max-frame-size"] else [])
      else
        let kind := bs.getD 3 0
        let flags := bs.getD 4 0
        let sid := be ((bs.drop 5).take 4) % 2147483648
        let v1 := if len > s.maxf then ["C12 frame-exceeds-max-frame-size"] else []
        let v2 := match s.openBlock with
          | some o => if kind = 9 ∧ sid = o then [] else ["C12 header-block-interleaved"]
          | none => if kind = 9 then ["C12 continuation-without-block"] else []
        let isHdr := kind = 1 ∨ kind = 5 ∨ kind = 9
        let endHeaders := (flags / 4) % 2 = 1
        let s' := { s with
          starts := if kind = 9 then s.starts else s.starts + 1,
          openBlock := if isHdr then (if endHeaders then none else some sid) else s.openBlock }
        let (s'', vs) := frames fuel s' (bs.drop (9 + len))
        (s'', v1 ++ v2 ++ vs)

def out (s : St) (bs : List Nat) : St × List String :=
  let all := s.tail ++ bs
  frames (all.length + 1) s all

def shut (s : St) : List String :=
  (if s.tail ≠ [] then ["C12 transport-shut-down-inside-a-frame"] else []) ++
  (if s.openBlock.isSome then ["C12 transport-shut-down-inside-a-header-block"] else []) ++
  (if s.tail = [] ∧ s.starts ≠ s.items then ["C12 transport-shut-down-with-frames-unwritten"] else [])

end H2V.Spec.WriteMon
