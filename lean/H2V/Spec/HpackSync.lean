import H2V.Spec.Hpack
/-
  C10 reference: what it means for an encoder's output to "stay in sync" with a conforming
  decoder.  A monitor state is the reference decoder of `Spec.Hpack` plus the table size the peer
  currently allows and the lowest value it allowed since the last block (RFC 7541 §4.2: a
  reduction must be signalled at the beginning of the next header block; if the size changed
  several times in between, the smallest value first).
-/
namespace H2V.Spec.HpackSync
open H2V.Spec.Hpack

structure Mon where
  st : St
  allowed : Nat
  lowest : Option Nat
  deriving Repr, DecidableEq

def Mon.init (n : Nat) : Mon := { st := St.init n, allowed := n, lowest := none }

/-- the peer changed SETTINGS_HEADER_TABLE_SIZE to `n` (and we acknowledged it) -/
def Mon.setAllowed (m : Mon) (n : Nat) : Mon :=
  { m with allowed := n, lowest := some (match m.lowest with | some l => min l n | none => n),
           st := { m.st with limit := n } }

/-- value of a size update that starts the block, if there is one -/
def leadingSizeUpdate (bytes : List Nat) : Option Nat :=
  match bytes with
  | b :: _ => if 32 ≤ b ∧ b < 64 then (int 5 bytes).map (·.1) else none
  | [] => none

/-- one emitted header block against the submitted field list -/
def Mon.block (m : Mon) (fields : List Field) (bytes : List Nat) : Except String Mon :=
  let needSignal := match m.lowest with
    | some l => decide (m.st.maxSize > l)
    | none => false
  let signalOk := if needSignal then
      match leadingSizeUpdate bytes, m.lowest with
      | some v, some l => decide (v ≤ l)
      | _, _ => false
    else true
  if ¬ signalOk then .error "table-size reduction not signalled at the start of the block"
  else match decode m.st bytes with
    | .error e => .error s!"a conforming decoder rejects the block ({e.name})"
    | .ok (fs, st') =>
      if fs ≠ fields then .error "a conforming decoder yields a different field list"
      else if st'.maxSize > m.allowed then .error "dynamic table larger than the peer allows"
      else if tableSize st'.entries > st'.maxSize then .error "dynamic table over its own maximum"
      else .ok { m with st := st', lowest := none }

end H2V.Spec.HpackSync
