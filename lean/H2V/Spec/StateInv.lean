/-
  Invariants of the endpoint's bookkeeping that the properties promise, evaluated on the digest of
  the REAL connection's internal state after every operation (the digest is read from the `Debug`
  rendering of the real structures by the harness).  Written from the property statements:

    C16  what is assigned to streams is exactly what the connection window has set aside
         (`window − available = Σ stream.available`), and no stream holds negative capacity
    C03  the receive ledger: octets in flight for the connection = Σ in flight per stream;
         no receive window above 2^31−1
    C05  the stream counters count: `num_send_streams` / `num_recv_streams` equal the number of
         streams marked as counted in each direction; `num_recv_streams ≤ max_recv_streams`
    C18  the memory of locally reset streams is bounded by the configured quota
    C19  nothing is kept for finished streams: no second entry for a stream id, no entry that nothing
         refers to any more, no buffered events of streams that are gone, counters back to zero
         when the store is empty
-/
namespace H2V.Spec.StateInv

structure SEntry where
  id : Nat
  state : String
  sendWin : Int
  sendAvail : Int
  requested : Int
  buffered : Int
  recvWin : Int
  recvAvail : Int
  inFlight : Int
  refs : Int
  flags : String
  deriving Repr

def toInt? (s : String) : Option Int :=
  if s == "max" then some 18446744073709551615 else s.toInt?

def ints (s : String) : Option (List Int) := (s.splitOn ",").mapM toInt?

def parseS (seg : String) : Option SEntry :=
  -- "S<id>:<state>,<8 numbers>,<flags>"
  match seg.splitOn ":" with
  | [sid, rest] =>
    match (sid.drop 1).toString.toNat?, rest.splitOn "," with
    | some id, [st, a, b, c, d, e, f, g, h, fl] =>
      match toInt? a, toInt? b, toInt? c, toInt? d, toInt? e, toInt? f, toInt? g, toInt? h with
      | some a, some b, some c, some d, some e, some f, some g, some h =>
        some { id := id, state := st, sendWin := a, sendAvail := b, requested := c, buffered := d,
               recvWin := e, recvAvail := f, inFlight := g, refs := h, flags := fl }
      | _, _, _, _, _, _, _, _ => none
    | _, _ => none
  | _ => none

def has (e : SEntry) (c : Char) : Bool := e.flags.toList.contains c

/-- locally initiated? (client: odd ids) -/
def isLocal (server : Bool) (id : Nat) : Bool := if server then id % 2 == 0 else id % 2 == 1

def check (server : Bool) (resetMax : Option Nat) (digest : String) : List String :=
  let segs := digest.splitOn "|"
  let find := fun (p : String) => (segs.find? (·.startsWith p)).map fun x => (x.drop p.length).toString
  let streams := segs.filterMap fun s => if s.startsWith "S" && !s.startsWith "SB:" then parseS s else none
  let nS := (segs.filter fun s => s.startsWith "S" && !s.startsWith "SB:").length
  if nS ≠ streams.length then ["?? unparsed stream entry in digest"] else
  match (find "C:").bind ints, (find "N:").bind ints, (find "B:").bind toInt? with
  | some [cw, ca, rw, ra, infl], some [ns, nr, nlr, _nrr, _nle, _maxS, maxR], some b =>
    let sumAvail := streams.foldl (fun a e => a + e.sendAvail) 0
    let sumInfl := streams.foldl (fun a e => a + e.inFlight) 0
    let counted := streams.filter (has · 'k')
    let cs := (counted.filter fun e => isLocal server e.id).length
    let cr := (counted.filter fun e => !isLocal server e.id).length
    let ids := streams.map (·.id)
    let dup := ids.any fun i => (ids.filter (· == i)).length > 1
    let closed := fun (e : SEntry) => e.state.startsWith "Closed"
    let orphans := streams.filter fun e =>
      closed e && e.refs == 0 && !(e.flags.toList.any fun c => "scopawrS".toList.contains c) && e.buffered == 0
    -- (how the forgotten stream had ended is part of the finding's identity)
    let orphanKinds := (orphans.map fun e =>
      if e.state.startsWith "Closed.EndStream" then "ended-cleanly" else if e.state.startsWith "Closed.Error.Reset" then "reset"
      else "failed").eraseDups
    (if cw - ca ≠ sumAvail then ["C16 assigned-capacity-ledger-broken"] else []) ++
    (if streams.any (·.sendAvail < 0) then ["C16 negative-capacity-assigned"] else []) ++
    (if streams.any (fun e => closed e && e.sendAvail > 0 && e.buffered == 0) then ["C16 capacity-held-by-a-closed-stream"] else []) ++
    (if infl ≠ sumInfl then ["C03 receive-in-flight-ledger-broken"] else []) ++
    (if rw > 2147483647 ∨ ra > 2147483647 then ["C03 receive-window-above-2^31-1"] else []) ++
    (if dup then [] else
      (if (ns : Int) ≠ cs then ["C05 num_send_streams-miscounts"] else []) ++
      (if (nr : Int) ≠ cr then ["C05 num_recv_streams-miscounts"] else [])) ++
    (if nr > maxR then ["C05 more-peer-streams-than-advertised"] else []) ++
    (match resetMax with
      | some m => if nlr > m then ["C18 reset-stream-memory-above-quota"] else []
      | none => []) ++
    (if dup then ["C19 two-entries-for-one-stream-id"] else []) ++
    (orphanKinds.map fun k => s!"C19 finished-stream-still-stored({k})") ++
    (if streams.isEmpty ∧ b ≠ 0 then ["C19 buffered-events-of-forgotten-streams"] else []) ++
    (if streams.isEmpty ∧ (ns ≠ 0 ∨ nr ≠ 0) then ["C19 counters-not-idle-with-empty-store"] else [])
  | _, _, _ => if digest == "gone" ∨ digest == "-" then [] else ["?? unparsed digest"]

/-- C03, per stream: while the stream is alive, its receive handle is held and nothing is buffered for
    it, the octets the endpoint counts as in flight are exactly the octets the application was given
    and has not released yet (`held`, tracked from the API calls) — anything more is credit that
    nobody can ever give back. -/
def heldCheck (digest : String) (sid held : Nat) : List String :=
  let segs := digest.splitOn "|"
  match (segs.find? (·.startsWith s!"S{sid}:")).bind parseS with
  | none => []
  | some e =>
    if e.state.startsWith "Closed.Error" || e.state.startsWith "Closed.Scheduled" || has e 'R' then []
    else if e.inFlight ≠ held then ["C03 in-flight-octets-that-nobody-holds"] else []

/-- C16, every wait for capacity is woken: a task was told to wait by `poll_capacity` when the stream's
    usable capacity was `cap0`; now it is `cap`.  If it grew and the waiter's waker has not fired since
    (`woken`), the waiter sleeps on capacity it was promised to hear about. -/
def capWait (cap0 cap : Nat) (woken : Bool) : List String :=
  if cap > cap0 && !woken then ["C16 capacity-arrived-without-waking-the-waiter"] else []

/-- C06, nothing sendable is left behind: at a point where the connection task has polled until it had
    nothing more to write, the transport takes everything and all input has been read, a live stream that
    still has DATA buffered is waiting for window — its own (`window ≤ 0`) or the connection's (nothing
    unassigned, `connAvailable ≤ 0`, and none assigned to it, `available ≤ 0`) — or for a concurrency slot
    (`pendingOpen`).  Otherwise the scheduler has lost the stream: it will never send although it could. -/
def stalled (connAvailable window available buffered : Int) (pendingOpen : Bool) : List String :=
  if buffered > 0 && !pendingOpen && window > 0 && (available > 0 || connAvailable > 0) then
    ["C06 stream-with-buffered-data-and-window-is-not-scheduled"] else []

end H2V.Spec.StateInv
