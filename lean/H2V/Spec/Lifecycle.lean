/-
  Stream life cycle, written from RFC 9113 §5.1 (Figure 2 and the prose of the section), NOT from
  h2's code.  One stream, seen from one endpoint ("us"): `send*` = we put the frame on the wire,
  `recv*` = the peer's frame reaches us.

  Events (the legend of Figure 2):
    H  = HEADERS (with the same meaning as in the figure: a header block that is not a 1xx interim
         response; the `eos` argument is the END_STREAM flag carried by that same frame -- §5.1:
         "The same HEADERS frame can also cause a stream to immediately become half-closed")
    PP = PUSH_PROMISE *reserving this stream* (the frame itself travels on the associated stream)
    ES = END_STREAM flag (on a DATA frame, or on a trailing HEADERS)
    R  = RST_STREAM

  `step p e = none`  <=>  the RFC forbids event `e` in phase `p` (sending it is a MUST NOT, or
  receiving it MUST / MAY be treated as a PROTOCOL_ERROR / STREAM_CLOSED error).

  Figure 2, transcribed:

                              +--------+
                      send PP |        | recv PP
                     ,--------+  idle  +--------.
                    /         |        |         \
                   v          +--------+          v
            +----------+          |           +----------+
            |          |          | send H /  |          |
     ,------+ reserved |          | recv H    | reserved +------.
     |      | (local)  |          |           | (remote) |      |
     |      +---+------+          v           +------+---+      |
     |          |             +--------+             |          |
     |          |     recv ES |        | send ES     |          |
     |   send H |     ,-------+  open  +-------.     | recv H   |
     |          |    /        |        |        \    |          |
     |          v   v         +---+----+         v   v          |
     |      +----------+          |           +----------+      |
     |      |   half-  |          |           |   half-  |      |
     |      |  closed  |          | send R /  |  closed  |      |
     |      | (remote) |          | recv R    | (local)  |      |
     |      +----+-----+          |           +-----+----+      |
     |           |                |                 |           |
     |           | send ES /      |       recv ES / |           |
     |           |  send R /      v        send R / |           |
     |           |  recv R    +--------+   recv R   |           |
     | send R /  `----------->|        |<-----------'  send R / |
     | recv R                 | closed |               recv R   |
     `----------------------->|        |<-----------------------'
                              +--------+

  Prose that refines the figure (all RFC 9113 §5.1 unless said otherwise):

  idle              "Sending a HEADERS frame as a client, or receiving a HEADERS frame as a server,
                    causes the stream to become open. [...] Receiving any frame other than HEADERS
                    or PRIORITY on a stream in this state MUST be treated as a connection error of
                    type PROTOCOL_ERROR."  §6.4: "RST_STREAM frames MUST NOT be sent for a stream
                    in the idle state."
  reserved (local)  "The endpoint can send a HEADERS frame.  This causes the stream to open in a
                    half-closed (remote) state.  Either endpoint can send a RST_STREAM frame to
                    cause the stream to become closed.  An endpoint MUST NOT send any type of
                    frame other than HEADERS, RST_STREAM, or PRIORITY in this state.  Receiving any
                    type of frame other than RST_STREAM, PRIORITY, or WINDOW_UPDATE on a stream in
                    this state MUST be treated as a connection error of type PROTOCOL_ERROR."
  reserved (remote) "Receiving a HEADERS frame causes the stream to transition to half-closed
                    (local).  Either endpoint can send a RST_STREAM frame to cause the stream to
                    become closed.  An endpoint MUST NOT send any type of frame other than
                    RST_STREAM, WINDOW_UPDATE, or PRIORITY in this state.  Receiving any type of
                    frame other than HEADERS, RST_STREAM, or PRIORITY [...] MUST be treated as a
                    connection error of type PROTOCOL_ERROR."
  open              "may be used by both peers to send frames of any type" (so a further HEADERS
                    without END_STREAM keeps the stream open; with END_STREAM it half-closes it).
                    PUSH_PROMISE *reserving* a stream is only possible while it is idle (§6.6:
                    "A receiver MUST treat the receipt of a PUSH_PROMISE that promises an illegal
                    stream identifier as a connection error of type PROTOCOL_ERROR.  Note that an
                    illegal stream identifier is an identifier for a stream that is not currently
                    in the idle state."), hence `sendPP`/`recvPP` are `none` outside idle.
  half-closed (local)  "cannot be used for sending frames other than WINDOW_UPDATE, PRIORITY, and
                    RST_STREAM.  A stream transitions from this state to closed when a frame is
                    received with the END_STREAM flag set or when either peer sends a RST_STREAM."
                    "An endpoint can receive any type of frame in this state."
  half-closed (remote) "no longer being used by the peer to send frames. [...] If an endpoint
                    receives additional frames, other than WINDOW_UPDATE, PRIORITY, or RST_STREAM,
                    for a stream that is in this state, it MUST respond with a stream error of
                    type STREAM_CLOSED. [...] can be used by the endpoint to send frames of any
                    type. [...] A stream can transition from this state to closed by sending a
                    frame with the END_STREAM flag set or when either peer sends a RST_STREAM."
  closed            "the terminal state. [...] An endpoint MUST NOT send frames other than
                    PRIORITY on a closed stream."  -> every `send*` is forbidden, `sendR` included
                    (the figure has no arrow out of closed).
                    "An endpoint that sends a frame with the END_STREAM flag set or a RST_STREAM
                    frame might receive a WINDOW_UPDATE or RST_STREAM frame from its peer in the
                    time before the peer receives and processes the frame that closes the stream."
                    -> `recvR` is the one event that is explicitly tolerated on a closed stream;
                    the stream stays closed.  Everything else received "MAY [be treated] as a
                    connection error of type STREAM_CLOSED" / "MUST [be treated] as a stream error
                    of type STREAM_CLOSED" -> `none`.
-/
namespace H2V.Spec.Lifecycle

/-- the seven states of RFC 9113 Figure 2 -/
inductive Phase where
  | idle | reservedLocal | reservedRemote | open | halfClosedLocal | halfClosedRemote | closed
  deriving Repr, DecidableEq

/-- the events of RFC 9113 Figure 2 (`eos` = the END_STREAM flag on that HEADERS frame) -/
inductive Ev where
  | sendH (eos : Bool) | recvH (eos : Bool)
  | sendPP | recvPP
  | sendES | recvES
  | sendR | recvR
  deriving Repr, DecidableEq

open Phase Ev

/-- RFC 9113 §5.1; `none` = the RFC forbids the event in that phase -/
def step : Phase → Ev → Option Phase
  -- idle
  | idle, sendH eos => some (if eos then halfClosedLocal else .open)
  | idle, recvH eos => some (if eos then halfClosedRemote else .open)
  | idle, sendPP => some reservedLocal
  | idle, recvPP => some reservedRemote
  | idle, _ => none
  -- reserved (local)
  | reservedLocal, sendH eos => some (if eos then closed else halfClosedRemote)
  | reservedLocal, sendR => some closed
  | reservedLocal, recvR => some closed
  | reservedLocal, _ => none
  -- reserved (remote)
  | reservedRemote, recvH eos => some (if eos then closed else halfClosedLocal)
  | reservedRemote, sendR => some closed
  | reservedRemote, recvR => some closed
  | reservedRemote, _ => none
  -- open
  | .open, sendH eos => some (if eos then halfClosedLocal else .open)
  | .open, recvH eos => some (if eos then halfClosedRemote else .open)
  | .open, sendES => some halfClosedLocal
  | .open, recvES => some halfClosedRemote
  | .open, sendR => some closed
  | .open, recvR => some closed
  | .open, _ => none
  -- half-closed (local): we may only send R; the peer may send anything but PP-for-this-stream
  | halfClosedLocal, recvH eos => some (if eos then closed else halfClosedLocal)
  | halfClosedLocal, recvES => some closed
  | halfClosedLocal, sendR => some closed
  | halfClosedLocal, recvR => some closed
  | halfClosedLocal, _ => none
  -- half-closed (remote): the peer may only send R; we may send anything but PP-for-this-stream
  | halfClosedRemote, sendH eos => some (if eos then closed else halfClosedRemote)
  | halfClosedRemote, sendES => some closed
  | halfClosedRemote, sendR => some closed
  | halfClosedRemote, recvR => some closed
  | halfClosedRemote, _ => none
  -- closed: terminal; a late RST_STREAM from the peer is tolerated
  | closed, recvR => some closed
  | closed, _ => none

/-- we can still send DATA / trailers (the figure's "open" on our side) -/
def canSend : Phase → Bool
  | .open | halfClosedRemote => true
  | _ => false

/-- the peer can still send DATA / trailers -/
def canRecv : Phase → Bool
  | .open | halfClosedLocal => true
  | _ => false

/-- run a sequence of events; `none` as soon as one is forbidden -/
def steps : Phase → List Ev → Option Phase
  | p, [] => some p
  | p, e :: es => (step p e).bind fun p' => steps p' es

/-- closed is terminal: nothing leaves it -/
theorem closed_terminal (e : Ev) (p : Phase) (h : step closed e = some p) : p = closed := by
  cases e <;> simp [step] at h <;> exact h.symm

/-- an RST_STREAM in either direction closes every non-idle stream that is not already closed -/
theorem rst_closes (p : Phase) (hi : p ≠ idle) (hc : p ≠ closed) :
    step p sendR = some closed ∧ step p recvR = some closed := by
  cases p <;> simp_all [step]

/-- END_STREAM can be sent exactly when `canSend`, received exactly when `canRecv` -/
theorem sendES_iff (p : Phase) : (step p sendES).isSome = canSend p := by
  cases p <;> rfl

theorem recvES_iff (p : Phase) : (step p recvES).isSome = canRecv p := by
  cases p <;> rfl

-- sanity: the life cycles spelled out in RFC 9113 §8 run through `steps`

/-- client side of a request with body and a response with body -/
example : steps idle [sendH false, sendES, recvH false, recvES] = some closed := rfl
/-- server side of a GET (END_STREAM on the request HEADERS), response with trailers -/
example : steps idle [recvH true, sendH false, sendH true] = some closed := rfl
/-- server push, promising side and receiving side -/
example : steps idle [sendPP, sendH false, sendES] = some closed := rfl
example : steps idle [recvPP, recvH false, recvES] = some closed := rfl
/-- a client cancels a push it does not want -/
example : steps idle [recvPP, sendR] = some closed := rfl
/-- DATA after END_STREAM from the peer, RST_STREAM on an idle stream: forbidden -/
example : steps idle [recvH true, recvES] = none := rfl
example : steps idle [recvR] = none := rfl
example : steps idle [sendR] = none := rfl
/-- late RST_STREAM from the peer on a closed stream: tolerated -/
example : steps idle [sendH true, recvH true, recvR] = some closed := rfl

end H2V.Spec.Lifecycle
