import H2V.Spec.Rfc7541
/-
  Reference semantics of the RFC 7541 §5.2 Huffman string literal: a bit-by-bit canonical decoder
  over the code of Appendix B.  Written from the RFC, not from h2's code.
    * symbols are matched greedily (the code is prefix-free, proved in `Lemmas`);
    * decoding the EOS symbol is an error;
    * what is left at the end must be a strict prefix of EOS (all ones) of fewer than 8 bits.
-/
namespace H2V.Spec.Huffman
open H2V.Spec.Rfc7541

def byteBits (b : Nat) : List Bool :=
  [b / 128 % 2 == 1, b / 64 % 2 == 1, b / 32 % 2 == 1, b / 16 % 2 == 1,
   b / 8 % 2 == 1, b / 4 % 2 == 1, b / 2 % 2 == 1, b % 2 == 1]

def bitsOf : List Nat → List Bool
  | [] => []
  | b :: rest => byteBits b ++ bitsOf rest

/-- index of the symbol whose code is exactly (len, val) -/
def findIn : List (Nat × Nat) → Nat → Nat → Nat → Option Nat
  | [], _, _, _ => none
  | (l, c) :: rest, len, val, i => if l = len ∧ c = val then some i else findIn rest len val (i + 1)

def findSym (len val : Nat) : Option Nat := findIn huffmanCode len val 0

def EOS : Nat := 256
def MAXLEN : Nat := 30

/-- `len`/`val`: the code prefix read since the last complete symbol -/
def go : List Bool → Nat → Nat → Option (List Nat)
  | [], len, val => if len < 8 ∧ val + 1 = 2 ^ len then some [] else none
  | b :: rest, len, val =>
    let len' := len + 1
    let val' := 2 * val + (if b then 1 else 0)
    match findSym len' val' with
    | some s => if s = EOS then none else (go rest 0 0).map (s :: ·)
    | none => if len' ≥ MAXLEN then none else go rest len' val'

/-- RFC 7541 §5.2 decoding of a Huffman-encoded string literal; `none` = decoding error -/
def decode (bs : List Nat) : Option (List Nat) := go (bitsOf bs) 0 0

/-- the `len` low bits of `val`, most significant first -/
def codeBits : Nat → Nat → List Bool
  | 0, _ => []
  | len + 1, val => (val / 2 ^ len % 2 == 1) :: codeBits len val

def symBits (s : Nat) : List Bool :=
  match huffmanCode[s]? with
  | some (l, c) => codeBits l c
  | none => []

def encodeBits : List Nat → List Bool
  | [] => []
  | s :: rest => symBits s ++ encodeBits rest

def bitsVal : List Bool → Nat → Nat
  | [], acc => acc
  | b :: rest, acc => bitsVal rest (2 * acc + (if b then 1 else 0))

/-- pack bits into octets, padding the last one with ones (the EOS prefix) -/
def pack : Nat → List Bool → List Nat
  | 0, _ => []
  | fuel + 1, bits =>
    if bits.isEmpty then []
    else
      let chunk := bits.take 8
      let chunk' := chunk ++ List.replicate (8 - chunk.length) true
      bitsVal chunk' 0 :: pack fuel (bits.drop 8)

/-- RFC 7541 §5.2 encoding -/
def encode (s : List Nat) : List Nat :=
  let bits := encodeBits s
  pack (bits.length + 1) bits

end H2V.Spec.Huffman
