import H2V.Spec.Huffman
/-
  Reference HPACK decoder, written from RFC 7541 (§2.3 tables, §4 dynamic-table management,
  §5.1 integers, §5.2 strings, §6 representations), not from h2's code.  It decodes a *whole*
  header block; fragmentation does not exist at this level, which is the point of
  `split_invariance`.
  The reference puts no bound on integers (RFC 7541 §5.1 leaves the limit to the implementation);
  an implementation may reject more than the reference, never accept more, and never yield a
  different field list.
-/
namespace H2V.Spec.Hpack
open H2V.Spec.Rfc7541

abbrev Field := List Nat × List Nat

inductive Err where
  | truncated | badIndex | huffman | sizeUpdateMisplaced | sizeUpdateOversize
  deriving Repr, DecidableEq

def Err.name : Err → String
  | .truncated => "truncated"
  | .badIndex => "bad-index"
  | .huffman => "huffman"
  | .sizeUpdateMisplaced => "size-update-misplaced"
  | .sizeUpdateOversize => "size-update-oversize"

structure St where
  entries : List Field      -- newest first; index 62 is the head
  maxSize : Nat             -- current maximum size of the dynamic table (§4.2)
  limit : Nat               -- SETTINGS_HEADER_TABLE_SIZE in force: upper bound for size updates (§6.3)
  pendingLimit : Option Nat -- a changed setting that takes effect at the next header block
  deriving Repr, DecidableEq

def St.init (n : Nat) : St := { entries := [], maxSize := n, limit := n, pendingLimit := none }

def fieldSize (f : Field) : Nat := f.1.length + f.2.length + 32   -- §4.1

def tableSize : List Field → Nat
  | [] => 0
  | f :: rest => fieldSize f + tableSize rest

/-- §4.3/§4.4: evict from the end until the size fits `max` -/
def evict : List Field → Nat → List Field
  | [], _ => []
  | f :: rest, max =>
    let rest' := evict rest (max - fieldSize f)
    if fieldSize f ≤ max then f :: rest' else []

/-- §4.4: insert a new entry (an entry larger than the table empties it) -/
def insert (st : St) (f : Field) : St :=
  if fieldSize f ≤ st.maxSize then
    { st with entries := f :: evict st.entries (st.maxSize - fieldSize f) }
  else { st with entries := [] }

/-- §2.3.3 index address space -/
def lookup (st : St) (i : Nat) : Option Field :=
  if i = 0 then none
  else if i ≤ 61 then staticTable[i - 1]?
  else st.entries[i - 62]?

/-- §5.1: continuation octets, least significant group first -/
def intCont : List Nat → Nat → Nat → Option (Nat × List Nat)
  | [], _, _ => none
  | b :: rest, acc, m =>
    let acc' := acc + (b % 128) * 2 ^ m
    if b < 128 then some (acc', rest) else intCont rest acc' (m + 7)

/-- §5.1 integer with an N-bit prefix -/
def int (n : Nat) : List Nat → Option (Nat × List Nat)
  | [] => none
  | b :: rest =>
    let p := b % 2 ^ n
    if p < 2 ^ n - 1 then some (p, rest) else intCont rest p 0

/-- §5.2 string literal -/
def str : List Nat → Except Err (List Nat × List Nat)
  | [] => .error .truncated
  | b :: rest =>
    match int 7 (b :: rest) with
    | none => .error .truncated
    | some (len, r) =>
      if len > r.length then .error .truncated
      else if b ≥ 128 then
        match Huffman.decode (r.take len) with
        | some s => .ok (s, r.drop len)
        | none => .error .huffman
      else .ok (r.take len, r.drop len)

def literal (st : St) (n : Nat) (buf : List Nat) : Except Err (Field × List Nat) :=
  match int n buf with
  | none => .error .truncated
  | some (idx, r) =>
    if idx = 0 then
      match str r with
      | .error e => .error e
      | .ok (name, r1) =>
        match str r1 with
        | .error e => .error e
        | .ok (value, r2) => .ok ((name, value), r2)
    else
      match lookup st idx with
      | none => .error .badIndex
      | some e =>
        match str r with
        | .error er => .error er
        | .ok (value, r1) => .ok ((e.1, value), r1)

/-- §6: one representation after another; `seenField`: a size update is only legal before the first field (§4.2) -/
def block : Nat → St → Bool → List Nat → List Field → Except Err (List Field × St)
  | 0, st, _, _, acc => .ok (acc, st)
  | fuel + 1, st, seenField, buf, acc =>
    match buf with
    | [] => .ok (acc, st)
    | b :: _ =>
      if b ≥ 128 then                       -- §6.1 indexed
        match int 7 buf with
        | none => .error .truncated
        | some (i, r) =>
          match lookup st i with
          | none => .error .badIndex
          | some f => block fuel st true r (acc ++ [f])
      else if b ≥ 64 then                   -- §6.2.1 literal with incremental indexing
        match literal st 6 buf with
        | .error e => .error e
        | .ok (f, r) => block fuel (insert st f) true r (acc ++ [f])
      else if b ≥ 32 then                   -- §6.3 dynamic table size update
        if seenField then .error .sizeUpdateMisplaced
        else match int 5 buf with
          | none => .error .truncated
          | some (n, r) =>
            if n > st.limit then .error .sizeUpdateOversize
            else block fuel { st with maxSize := n, entries := evict st.entries n } seenField r acc
      else                                  -- §6.2.2 / §6.2.3 literal without indexing / never indexed
        match literal st 4 buf with
        | .error e => .error e
        | .ok (f, r) => block fuel st true r (acc ++ [f])

/-- decode one complete header block -/
def decode (st : St) (buf : List Nat) : Except Err (List Field × St) :=
  let st := match st.pendingLimit with
    | some n => { st with limit := n, pendingLimit := none }
    | none => st
  block (buf.length + 1) st false buf []

/-- the local SETTINGS_HEADER_TABLE_SIZE changed (takes effect at the next block) -/
def setLimit (st : St) (n : Nat) : St :=
  { st with pendingLimit := some (match st.pendingLimit with | some v => max v n | none => n) }

end H2V.Spec.Hpack
