/-
  RFC 9113 §8 message validity over the decoded field list `[(name, value)]` in wire order.
  Written from the RFC and the statement of C13, not from h2's code. One predicate per message
  kind; each returns the list of violated rules (rule ids are the granularity of known findings).
-/
namespace H2V.Spec.Http

abbrev Field := List Nat × List Nat

def ascii (s : String) : List Nat := s.toList.map (·.toNat)

def isPseudo (f : Field) : Bool := f.1.head? == some 58

/-- §8.2.1: field names are lower case, non-empty, no control / space / colon / upper case / non-ASCII -/
def nameOk (n : List Nat) : Bool :=
  let body := if n.head? == some 58 then n.drop 1 else n
  !body.isEmpty && body.all fun b => b > 32 && b < 127 && !(65 ≤ b && b ≤ 90) && b != 58

def connectionSpecific : List (List Nat) :=
  [ascii "connection", ascii "proxy-connection", ascii "keep-alive", ascii "transfer-encoding", ascii "upgrade"]

def knownPseudo : List (List Nat) :=
  [ascii ":method", ascii ":scheme", ascii ":authority", ascii ":path", ascii ":status", ascii ":protocol"]

def get (fs : List Field) (name : String) : List (List Nat) := (fs.filter (·.1 == ascii name)).map (·.2)

/-- pseudo fields after a regular field -/
def pseudoAfterRegular : List Field → Bool → Bool
  | [], _ => false
  | f :: rest, seenRegular =>
    if isPseudo f then (seenRegular || pseudoAfterRegular rest seenRegular) else pseudoAfterRegular rest true

def dupPseudo (fs : List Field) : Bool :=
  knownPseudo.any fun n => (fs.filter (·.1 == n)).length > 1

/-- rules common to every header section -/
def common (fs : List Field) : List String :=
  (if fs.any (fun f => !nameOk f.1) then ["bad-field-name"] else []) ++
  (if fs.any (fun f => connectionSpecific.contains f.1) then ["connection-specific-field"] else []) ++
  (if (get fs "te").any (· != ascii "trailers") then ["te-not-trailers"] else []) ++
  (if fs.any (fun f => isPseudo f && !knownPseudo.contains f.1) then ["unknown-pseudo"] else []) ++
  (if dupPseudo fs then ["duplicate-pseudo"] else []) ++
  (if pseudoAfterRegular fs false then ["pseudo-after-regular"] else [])

/-- §8.3.1 request (also the promised request of PUSH_PROMISE) -/
def request (fs : List Field) (extendedConnectEnabled : Bool) : List String :=
  let m := get fs ":method"
  let isConnect := m == [ascii "CONNECT"]
  let proto := get fs ":protocol"
  common fs ++
  (if !(get fs ":status").isEmpty then ["status-in-request"] else []) ++
  (if m.length != 1 then ["missing-method"] else []) ++
  (if isConnect && proto.isEmpty then
     (if (get fs ":authority").isEmpty then ["connect-without-authority"] else []) ++
     (if !(get fs ":scheme").isEmpty || !(get fs ":path").isEmpty then ["connect-with-scheme-or-path"] else [])
   else
     (if (get fs ":scheme").length != 1 then ["missing-scheme"] else []) ++
     (if (get fs ":path").length != 1 || (get fs ":path") == [[]] then ["missing-path"] else [])) ++
  (if !proto.isEmpty && !(isConnect && extendedConnectEnabled) then ["protocol-without-extended-connect"] else [])

def statusOk (v : List Nat) : Bool :=
  match v with
  | [a, b, c] => 49 ≤ a && a ≤ 57 && 48 ≤ b && b ≤ 57 && 48 ≤ c && c ≤ 57
  | _ => false

/-- §8.3.2 response (final or interim) -/
def response (fs : List Field) : List String :=
  common fs ++
  (match get fs ":status" with
   | [v] => if statusOk v then [] else ["bad-status"]
   | _ => ["missing-status"]) ++
  (if fs.any (fun f => isPseudo f && f.1 != ascii ":status") then ["request-pseudo-in-response"] else [])

/-- §8.1: trailers carry no pseudo-header fields -/
def trailers (fs : List Field) : List String :=
  common fs ++ (if fs.any isPseudo then ["pseudo-in-trailers"] else [])

def isInterim (fs : List Field) : Bool :=
  match get fs ":status" with
  | [[49, _, _]] => true
  | _ => false

/-- one `content-length` value as a number: non-empty, all digits -/
def clValue (v : List Nat) : Option Nat :=
  if !v.isEmpty && v.all (fun b => 48 ≤ b && b ≤ 57) then some (v.foldl (fun a b => a * 10 + (b - 48)) 0) else none

/-- `content-length` as a number if present and all digits; a repeated field is valid only if every
    occurrence says the same (RFC 9110 section 8.6) -/
def contentLength (fs : List Field) : Option (Option Nat) :=
  match get fs "content-length" with
  | [] => none
  | v :: rest =>
    match clValue v with
    | some n => if rest.all (fun o => clValue o == some n) then some (some n) else some none
    | none => some none

end H2V.Spec.Http
