import H2V.Spec.Wire
/-
  C09: the three-way classification of what the peer sends (RFC 9113 §5.4, §6) and the reaction
  each class requires.  The class of an injected frame is fixed by construction in the generator
  (`harness/src/conngen.rs: inject_c09`, one catalogue entry per RFC rule); this file says what the
  endpoint must put on the wire for each class.

    conn         connection error:  a GOAWAY carrying an error code must follow
    stream s     stream error:      RST_STREAM(s) must follow (a GOAWAY with an error is also
                                    acceptable: an endpoint MAY treat a stream error as a connection error)
    streamorconn either of the two for any stream
    nokill s     the tolerance window for frames racing our own RST_STREAM was configured to zero: another
                 RST_STREAM is acceptable, a connection error is not
    tolerate s   no error at all:   no GOAWAY with an error code, no RST_STREAM(s) in reaction, and the
                                    connection keeps answering (the probe PING is acknowledged)
-/
namespace H2V.Spec.Verdict
open H2V.Spec.Wire

def probe : List Nat := [0xc0, 9, 0xc0, 9, 0xc0, 9, 0xc0, 9]

def expect (w : WSt) (cls : String) (sid : Nat) : WSt :=
  { w with c09 := some (cls, sid), c09Goaway := false, c09GoawayEarly := false, c09Rst := false, c09Pong := false }

/-- the probe PING is about to be sent: what was the reaction to the injected frame alone? -/
def atProbe (w : WSt) : WSt := { w with c09GoawayEarly := w.c09Goaway }

/-- what we wrote after the injection -/
def observe (w : WSt) (f : Fr) : WSt :=
  match w.c09 with
  | none => w
  | some (cls, sid) =>
    match f with
    | .goaway _ code _ => if code ≠ 0 then { w with c09Goaway := true } else w
    | .rst s _ => if s = sid || cls == "streamorconn" then { w with c09Rst := true } else w
    | .ping true p => if p = probe then { w with c09Pong := true } else w
    | _ => w

def verdict (w : WSt) : WSt × List Viol :=
  match w.c09 with
  | none => (w, [])
  | some (cls, _) =>
    let vs : List Viol :=
      if cls == "conn" then
        (if w.c09GoawayEarly then [] else ["C09 connection-error-not-raised"])
      else if cls == "connflood" then
        -- a flood that the configured limits are there to cut off: also a matter of bounded state (C18)
        (if w.c09GoawayEarly then [] else ["C09 connection-error-not-raised", "C18 flood-accommodated-instead-of-cut-off"])
      else if cls == "stream" || cls == "streamorconn" then
        (if w.c09Rst || w.c09Goaway then [] else ["C09 stream-error-not-raised"])
      else if cls == "tolerate" then
        (if w.c09Goaway then ["C09 tolerated-frame-killed-connection"] else []) ++
        (if w.c09Rst then ["C09 tolerated-frame-reset-stream"] else []) ++
        (if w.c09Pong || w.c09Goaway then [] else ["C09 connection-stopped-answering"])
      else if cls == "nokill" then
        (if w.c09Goaway then ["C09 racing-frame-killed-connection"] else []) ++
        (if w.c09Pong || w.c09Goaway then [] else ["C09 connection-stopped-answering"])
      else ["C09 unknown-class"]
    ({ w with c09 := none }, vs)

/-- C08: the endpoint panicked -/
def panicked : List Viol := ["C08 panic-in-the-endpoint"]

/-- C08: a poll of the connection task that returned Pending.  `selfWoken`: it woke its own task while
    running; `progress`: it wrote something, consumed input or changed its state.  A task that keeps
    waking itself without progress spins for ever. -/
def polled (w : WSt) (selfWoken progress : Bool) : WSt × List Viol :=
  if selfWoken && !progress then
    let n := w.idleSelfWakes + 1
    ({ w with idleSelfWakes := n }, if n ≥ 4 then ["C08 connection-task-wakes-itself-without-progress"] else [])
  else ({ w with idleSelfWakes := 0 }, [])

/-- C06, no lost wake-up of the connection task: a poll of the connection that nobody asked for must
    find nothing to write.  `parked`: the previous poll returned Pending; `woken`: the connection's
    waker was fired since then; `input`: the transport changed since then (octets from the peer, EOF,
    an error, more room for writes) — which wakes the task through the transport's own waker.  If
    none of these happened and the poll nevertheless writes frames, a handle had queued that work
    without waking the task: in an event-driven program this poll would never have run. -/
def unsolicitedPoll (parked woken input wrote : Bool) : List Viol :=
  if parked && !woken && !input && wrote then ["C06 work-was-queued-without-waking-the-connection-task"] else []

/-- C06 (and C16 for `poll_capacity`): a poll on a stream handle that answers `Pending` has parked the
    caller's waker in the slot the wake-ups go through (`send_task` for capacity / reset waits, `recv_task`
    for response, body, trailers, interim responses); `registered`: the slot is occupied after the call. -/
def pendingRegistered (op : String) (registered : Bool) : List Viol :=
  if registered then []
  else [s!"C06 {op}-answered-Pending-without-registering-a-waker"] ++
       (if op == "cn_pollcap" then ["C16 poll_capacity-answered-Pending-without-registering-a-waker"] else [])

/-- C06: `poll_pushed` parks its caller until a PUSH_PROMISE arrives or the stream can carry none any more; a
    stream whose receive side has ended (END_STREAM, reset, connection error) with that waker still in its slot
    has swallowed the wake-up (finding F32) -/
def parkedPush (streamState : String) : List Viol :=
  [s!"C06 push-promise-waiter-still-parked-after-the-stream-ended({streamState})"]

/-- C07: once the connection object is gone, no operation on any of its handles may stay pending -/
def afterEnd (op result streamState : String) : List Viol :=
  if result == "pending" then [s!"C07 {op}-still-pending-after-the-connection-is-gone(stream:{streamState})"] else []

/-- C15: the connection's result reports the peer's error.  `codes`: the error codes of the GOAWAY frames
    received, oldest first; `result`: how the connection future completed (`done` = Ok,
    `goaway-remote` with `resultCode`, anything else = an error of our own / of the transport).
    A result that blames the peer must name a code the peer sent, and when the peer's LAST word was an
    error the connection must not finish as if nothing had happened. -/
def connResult (codes : List Nat) (result : String) (resultCode : Nat) (errorNoted : Bool := true) : List Viol :=
  (if result == "goaway-remote" && !codes.contains resultCode then
    ["C15 connection-result-reports-a-code-the-peer-never-sent"] else []) ++
  -- `errorNoted`: the endpoint had read that GOAWAY (it is in `ConnectionInner::error` before the last poll); a
  -- GOAWAY still unread when the endpoint closed for reasons of its own (idle client) cannot be reported
  (match codes.getLast? with
   | some c => if c ≠ 0 && result == "done" && errorNoted then ["C15 connection-result-hides-the-peers-GOAWAY-error"] else []
   | none => [])

/-- C17: an I/O failure of the transport surfaces on the handles as it was: a handle that reports an I/O
    error reports (one of) the kind(s) the transport raised.  `raised`: the kinds injected into the
    transport so far (empty: none — then `BrokenPipe`, h2's own rendering of a closed connection, is fine). -/
def ioSurfaced (raised : List String) (reported : String) : List Viol :=
  if raised.isEmpty || raised.contains reported then [] else ["C17 handle-reports-an-io-error-the-transport-never-raised"]

/-- C01, send side: when END_STREAM goes out on a stream, everything the application had submitted for it
    before has gone out: frames leave in order, nothing is dropped from the middle.
    `submitted`: octets accepted by `send_data` so far; `sent`: octets of DATA written so far. -/
def bodyEnd (submitted sent : Nat) : List Viol :=
  if sent ≠ submitted then ["C01 stream-ended-on-the-wire-with-another-length-than-submitted"] else []

end H2V.Spec.Verdict
