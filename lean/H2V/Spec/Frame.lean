/-
  Reference frame syntax of RFC 9113 §4.1 and §6, written from the RFC (not from h2's code):
  a parser from octets to frame values, with the size and stream-identifier rules the RFC attaches
  to each type.  Header-block fragments stay opaque octets at this level.
-/
namespace H2V.Spec.Frame

abbrev Octets := List Nat

def u16 : Octets → Nat
  | a :: b :: _ => a * 256 + b
  | _ => 0
def u24 : Octets → Nat
  | a :: b :: c :: _ => (a * 256 + b) * 256 + c
  | _ => 0
def u32 : Octets → Nat
  | a :: b :: c :: d :: _ => ((a * 256 + b) * 256 + c) * 256 + d
  | _ => 0
/-- 31-bit value: the most significant bit is reserved and ignored (§4.1, §6.9) -/
def u31 (b : Octets) : Nat := u32 b % 2 ^ 31

structure Priority where
  exclusive : Bool
  dependency : Nat
  weight : Nat
  deriving Repr, DecidableEq

inductive Frame where
  | data (sid : Nat) (endStream : Bool) (padLen : Option Nat) (data : Octets)                                  -- §6.1
  | headers (sid : Nat) (endStream endHeaders : Bool) (prio : Option Priority) (fragment : Octets)            -- §6.2
  | priority (sid : Nat) (prio : Priority)                                                                    -- §6.3
  | rstStream (sid code : Nat)                                                                                -- §6.4
  | settings (ack : Bool) (params : List (Nat × Nat))                                                         -- §6.5
  | pushPromise (sid : Nat) (endHeaders : Bool) (promised : Nat) (fragment : Octets)                          -- §6.6
  | ping (ack : Bool) (opaqueData : Octets)                                                                       -- §6.7
  | goaway (lastStreamId code : Nat) (debug : Octets)                                                         -- §6.8
  | windowUpdate (sid increment : Nat)                                                                        -- §6.9
  | continuation (sid : Nat) (endHeaders : Bool) (fragment : Octets)                                          -- §6.10
  | unknown (type flags sid : Nat) (payload : Octets)                                                         -- §4.1: ignored
  deriving Repr, DecidableEq

/-- how the RFC classifies a frame that cannot be parsed -/
inductive Violation where
  | frameSize        -- FRAME_SIZE_ERROR (§4.2, and the fixed sizes of §6)
  | protocol         -- PROTOCOL_ERROR (stream 0 / non-zero stream misuse, padding ≥ payload, bad setting value…)
  | flowControl      -- FLOW_CONTROL_ERROR (SETTINGS_INITIAL_WINDOW_SIZE above 2^31-1)
  deriving Repr, DecidableEq

def flag (flags bit : Nat) : Bool := flags / bit % 2 == 1

/-- strip `Pad Length` and the padding (§6.1, §6.2, §6.6): padding length ≥ remaining payload is a PROTOCOL_ERROR -/
def unpad (padded : Bool) (p : Octets) : Except Violation (Option Nat × Octets) :=
  if padded then
    match p with
    | [] => .error .frameSize
    | pl :: rest => if pl > rest.length then .error .protocol else .ok (some pl, rest.take (rest.length - pl))
  else .ok (none, p)

def prioOf (b : Octets) : Priority :=
  { exclusive := u32 b ≥ 2 ^ 31, dependency := u31 b, weight := b.getD 4 0 }

def params : Nat → Octets → List (Nat × Nat)
  | 0, _ => []
  | n + 1, p => if p.length < 6 then [] else (u16 p, u32 (p.drop 2)) :: params n (p.drop 6)

/-- §6.5.2: validity of a defined parameter -/
def paramViolation : Nat × Nat → Option Violation
  | (2, v) => if v > 1 then some .protocol else none
  | (4, v) => if v > 2 ^ 31 - 1 then some .flowControl else none
  | (5, v) => if v < 2 ^ 14 ∨ v > 2 ^ 24 - 1 then some .protocol else none
  | (8, v) => if v > 1 then some .protocol else none     -- RFC 8441 §3
  | _ => none

/-- one frame from its 9-octet header and payload (`len = payload.length` is the caller's business) -/
def ofParts (type flags sid : Nat) (p : Octets) : Except Violation Frame :=
  match type with
  | 0 =>
    if sid = 0 then .error .protocol
    else match unpad (flag flags 8) p with
      | .error e => .error e
      | .ok (pl, d) => .ok (.data sid (flag flags 1) pl d)
  | 1 =>
    if sid = 0 then .error .protocol
    else match unpad (flag flags 8) p with
      | .error e => .error e
      | .ok (_, d) =>
        if flag flags 32 then
          if d.length < 5 then .error .frameSize
          else .ok (.headers sid (flag flags 1) (flag flags 4) (some (prioOf d)) (d.drop 5))
        else .ok (.headers sid (flag flags 1) (flag flags 4) none d)
  | 2 =>
    if sid = 0 then .error .protocol
    else if p.length ≠ 5 then .error .frameSize
    else .ok (.priority sid (prioOf p))
  | 3 =>
    if sid = 0 then .error .protocol
    else if p.length ≠ 4 then .error .frameSize
    else .ok (.rstStream sid (u32 p))
  | 4 =>
    if sid ≠ 0 then .error .protocol
    else if flag flags 1 then (if p.length ≠ 0 then .error .frameSize else .ok (.settings true []))
    else if p.length % 6 ≠ 0 then .error .frameSize
    else
      let ps := params (p.length / 6) p
      match ps.findSome? paramViolation with
      | some v => .error v
      | none => .ok (.settings false ps)
  | 5 =>
    if sid = 0 then .error .protocol
    else match unpad (flag flags 8) p with
      | .error e => .error e
      | .ok (_, d) =>
        if d.length < 4 then .error .frameSize
        else .ok (.pushPromise sid (flag flags 4) (u31 d) (d.drop 4))
  | 6 =>
    if sid ≠ 0 then .error .protocol
    else if p.length ≠ 8 then .error .frameSize
    else .ok (.ping (flag flags 1) p)
  | 7 =>
    if sid ≠ 0 then .error .protocol
    else if p.length < 8 then .error .frameSize
    else .ok (.goaway (u31 p) (u32 (p.drop 4)) (p.drop 8))
  | 8 =>
    if p.length ≠ 4 then .error .frameSize
    else if u31 p = 0 then .error .protocol
    else .ok (.windowUpdate sid (u31 p))
  | 9 =>
    if sid = 0 then .error .protocol
    else .ok (.continuation sid (flag flags 4) p)
  | t => .ok (.unknown t flags sid p)

/-- parse exactly one frame from a complete octet string (9-octet header + declared payload) -/
def parse (b : Octets) : Option (Except Violation Frame) :=
  if b.length < 9 then none
  else if b.length ≠ 9 + u24 b then none
  else some (ofParts (b.getD 3 0) (b.getD 4 0) (u31 (b.drop 5)) (b.drop 9))

/-- split an octet stream into frames, subject to the receiver's SETTINGS_MAX_FRAME_SIZE (§4.2):
    complete frames, then either nothing / an incomplete rest, or a frame-size violation -/
def frames : Nat → Nat → Octets → List (Except Violation Frame) × Octets
  | 0, _, b => ([], b)
  | fuel + 1, maxSize, b =>
    if b.length < 9 then ([], b)
    else if u24 b > maxSize then ([.error .frameSize], b)
    else if b.length < 9 + u24 b then ([], b)
    else
      let f := ofParts (b.getD 3 0) (b.getD 4 0) (u31 (b.drop 5)) ((b.drop 9).take (u24 b))
      let (rest, tl) := frames fuel maxSize (b.drop (9 + u24 b))
      (f :: rest, tl)

end H2V.Spec.Frame
