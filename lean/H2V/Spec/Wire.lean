import H2V.Spec.Http
/-
  Wire-level reference monitors for one endpoint ("us"), written from RFC 9113 and from the
  property statements, not from h2's code.  Input: the frames we write (`tx`), the frames the peer
  sends (`rx`), in the order in which they cross the transport, plus a few application-level facts.
  Output per event: the list of violated rules, each tagged with the property it belongs to.

  These predicates are what the property theorems are stated against, and they are also evaluated
  on the traces of the real code (search for a concrete failing input).
-/
namespace H2V.Spec.Wire

inductive Role where
  | client | server
  deriving Repr, DecidableEq

/-- a frame as seen on the wire, header blocks reassembled (CONTINUATION folded into its head) -/
inductive Fr where
  | data (sid flags len dataLen : Nat)    -- len = flow-controlled length (payload incl. padding), dataLen = without
  | headers (sid flags : Nat) (fields : List (List Nat × List Nat))
  | pushPromise (sid promised : Nat) (fields : List (List Nat × List Nat))
  | priority (sid : Nat)
  | rst (sid code : Nat)
  | settings (ack : Bool) (vals : List (Nat × Nat))
  | ping (ack : Bool) (payload : List Nat)
  | goaway (last code : Nat) (debug : List Nat)
  | windowUpdate (sid inc : Nat)
  | fragment (sid : Nat)                  -- a HEADERS / PUSH_PROMISE / CONTINUATION without END_HEADERS
  | contEnd (sid : Nat)                   -- the CONTINUATION that closes a block (the block follows as `headers`)
  | other
  deriving Repr, DecidableEq

def Fr.endStream : Fr → Bool
  | .data _ fl _ _ => fl % 2 == 1
  | .headers _ fl _ => fl % 2 == 1
  | _ => false

/-- per-stream wire facts -/
structure Str where
  id : Nat
  txHeaders : Nat := 0          -- number of HEADERS we sent (incl. 1xx and trailers)
  txFinal : Bool := false       -- we sent a non-1xx HEADERS (request, or final response)
  txEnd : Bool := false         -- we sent END_STREAM
  txRst : Nat := 0              -- RST_STREAM frames we sent
  rxHeaders : Nat := 0
  rxEnd : Bool := false
  rxRst : Bool := false
  reservedByUs : Bool := false  -- we sent PUSH_PROMISE promising it
  reservedByPeer : Bool := false
  rxFrames : Nat := 0           -- frames the peer sent on the stream
  sendCredit : Int := 0         -- C02: what the peer has granted us and we have not used
  recvAdvert : Int := 0         -- C03: the window we advertise, as the peer computes it
  rxFinal : Bool := false       -- the peer sent its (non-interim) head
  rxHeadBad : List String := []     -- C13: rules the peer's head violates
  rxTrailersBad : List String := [] -- C13: rules the peer's trailers violate
  rxCl : Option (Option Nat) := none -- C13: content-length announced by the peer's head
  rxBody : Nat := 0                 -- C13: DATA payload octets received
  noBody : Bool := false            -- C13: response to HEAD, or status 204 / 304
  ourMethodHead : Bool := false
  deriving Repr

structure WSt where
  role : Role := .client
  strs : List Str := []
  maxLocalId : Nat := 0
  maxPeerId : Nat := 0
  txBlockOpen : Option Nat := none
  -- settings
  peerIws : Int := 65535             -- peer's SETTINGS_INITIAL_WINDOW_SIZE that we have ACKNOWLEDGED
  peerMaxConc : Option Nat := none   -- peer's acknowledged SETTINGS_MAX_CONCURRENT_STREAMS
  peerMaxFrame : Nat := 16384
  peerPush : Bool := true
  rxSettingsQ : List (List (Nat × Nat)) := []   -- received, not yet acknowledged by us
  ourIwsAcked : Int := 65535         -- our SETTINGS_INITIAL_WINDOW_SIZE that the PEER has acknowledged
  ourIwsMax : Int := 65535           -- the largest value we ever announced
  txSettingsQ : List (List (Nat × Nat)) := []   -- sent, not yet acknowledged by the peer
  -- connection windows
  connSendCredit : Int := 65535
  connRecvAdvert : Int := 65535
  connRecvMax : Int := 65535         -- the largest connection window we ever configured (target)
  -- pings
  rxPings : List (List Nat) := []    -- received, pong not yet sent
  -- goaway
  txGoaway : Option Nat := none
  rxGoaway : Option Nat := none
  txGoawayErr : Bool := false
  openExempt : List Nat := []         -- streams whose HEADERS were already in the codec when a GOAWAY was queued for us
  apiResets : List (Nat × Nat) := []  -- streams the application reset explicitly, with the number of their
                                      -- DATA frames that were already in the codec's write buffer
  -- C09: the class of the frame the peer has just injected, and what we have sent since
  c09 : Option (String × Nat) := none
  c09Goaway : Bool := false           -- a GOAWAY with an error code
  c09GoawayEarly : Bool := false      -- … already before the probe PING was sent (the probe must not be what provokes it)
  c09Rst : Bool := false              -- RST_STREAM for the stream concerned
  c09Pong : Bool := false             -- we answered the probe PING that followed the injection
  -- C08: consecutive polls of the connection task that woke itself without doing anything
  idleSelfWakes : Nat := 0
  -- C15, graceful shutdown: GOAWAY frames we sent; the peer has acknowledged the PING that follows the first,
  -- all-covering GOAWAY(2^31-1)
  txGoawayCount : Nat := 0
  gracefulNoticeSent : Bool := false
  shutdownPingAcked : Bool := false
  -- C14: we have acknowledged a SETTINGS that changed the peer's SETTINGS_INITIAL_WINDOW_SIZE
  peerIwsChanged : Bool := false
  -- C17: the GOAWAY frames the peer sent, oldest first: (last-stream-id, error code)
  rxGoaways : List (Nat × Nat) := []
  deriving Repr

def WSt.get (w : WSt) (id : Nat) : Option Str := w.strs.find? (·.id = id)

def WSt.put (w : WSt) (s : Str) : WSt :=
  if w.strs.any (·.id = s.id) then { w with strs := w.strs.map fun x => if x.id = s.id then s else x }
  else { w with strs := w.strs ++ [s] }

def ours (r : Role) (id : Nat) : Bool :=
  id ≠ 0 && (match r with | .client => id % 2 == 1 | .server => id % 2 == 0)

/-- closed on the wire: both directions ended, or a reset either way -/
def Str.closed (s : Str) : Bool :=
  -- (a pushed stream has one direction only: it starts half-closed towards the endpoint that promised it)
  ((s.txEnd || s.reservedByPeer) && (s.rxEnd || s.reservedByUs)) || s.txRst > 0 || s.rxRst

/-- "open on the wire" for the concurrency limit (RFC 9113 §5.1.2: open or half-closed) -/
def Str.countsOpen (s : Str) : Bool := s.txFinal && ¬ s.closed

def settingVal (vals : List (Nat × Nat)) (id : Nat) : Option Nat := (vals.find? (·.1 = id)).map (·.2)

def isInformational (fields : List (List Nat × List Nat)) : Bool :=
  match fields.find? (fun f => f.1 = [58, 115, 116, 97, 116, 117, 115]) with   -- ":status"
  | some (_, [49, _, _]) => true     -- 1xx
  | _ => false

abbrev Viol := String

-- ============================================================================ frames we WRITE

/-- C04 `legalTx`, C02 credit, C05 concurrency, C12 frame size, C14 acks, C15 goaway, C17 resets -/
def tx (w : WSt) (f : Fr) : WSt × List Viol :=
  -- contiguity of header blocks (RFC 9113 §4.3)
  let blockViol : List Viol := match w.txBlockOpen, f with
    | some sid, .fragment s => if s = sid then [] else ["C04 header-block-interleaved"]
    | some sid, .contEnd s => if s = sid then [] else ["C04 header-block-interleaved"]
    | some _, .headers .. => []       -- the reassembled block that follows its closing CONTINUATION
    | some _, .pushPromise .. => []
    | some _, _ => ["C04 header-block-interleaved"]
    | none, .contEnd _ => ["C04 continuation-without-block"]
    | none, _ => []
  let w := match f with
    | .fragment s => { w with txBlockOpen := some s }
    | .contEnd _ => w
    | .headers .. | .pushPromise .. => { w with txBlockOpen := none }
    | _ => w
  let (w, v) : WSt × List Viol := match f with
    | .headers sid fl fields =>
      if sid = 0 then (w, ["C04 headers-on-stream-0"])
      else
        let info := isInformational fields
        match w.get sid with
        | none =>
          -- opening a stream
          let viols : List Viol :=
            (if ¬ ours w.role sid then ["C04 opens-stream-with-peer-parity"] else []) ++
            (if w.role = .server then ["C04 server-opens-stream-with-HEADERS"] else []) ++
            (if sid ≤ w.maxLocalId then ["C04 stream-id-not-increasing"] else []) ++
            (if w.rxGoaway.isSome ∧ ¬ w.openExempt.contains sid then ["C15 opens-stream-after-receiving-GOAWAY"] else []) ++
            (if w.txGoaway.isSome then ["C15 opens-stream-after-sending-GOAWAY"] else []) ++
            (match w.peerMaxConc with
             | some m => if (w.strs.filter fun s => ours w.role s.id && s.countsOpen).length ≥ m
                         then ["C05 exceeds-peer-max-concurrent-streams"] else []
             | none => []) ++
            ((Http.request fields true).map fun r => "C13 tx-request-" ++ r)
          let s : Str := { id := sid, txHeaders := 1, txFinal := true, txEnd := fl % 2 == 1,
                           sendCredit := w.peerIws, recvAdvert := w.ourIwsAcked,
                           ourMethodHead := Http.get fields ":method" == [Http.ascii "HEAD"] }
          ({ (w.put s) with maxLocalId := max w.maxLocalId sid }, viols)
        | some s =>
          let viols : List Viol :=
            (if s.txEnd then ["C04 headers-after-END_STREAM"] else []) ++
            (if s.txRst > 0 then ["C04 headers-after-RST_STREAM"] else []) ++
            (if ours w.role sid ∧ ¬ s.reservedByUs ∧ w.role = .server then ["C04 headers-on-unopened-stream"] else []) ++
            (if ¬ ours w.role sid ∧ s.rxHeaders = 0 then ["C04 headers-on-idle-stream"] else []) ++
            (if s.txFinal ∧ ¬ info ∧ fl % 2 ≠ 1 then ["C04 second-final-headers-without-END_STREAM"] else []) ++
            -- a promised stream starts to count against the peer's limit when its response begins (RFC 9113 section 5.1.2)
            (if s.reservedByUs ∧ ¬ s.txFinal ∧ ¬ info then
              match w.peerMaxConc with
              | some m => if (w.strs.filter fun x => ours w.role x.id && x.countsOpen).length ≥ m
                          then ["C05 pushed-response-exceeds-peer-max-concurrent-streams"] else []
              | none => []
             else []) ++
            (if s.txFinal then (Http.trailers fields).map fun r => "C13 tx-trailers-" ++ r
             else if w.role = .server ∨ s.reservedByUs then (Http.response fields).map fun r => "C13 tx-response-" ++ r
             else [])
          let s' := { s with txHeaders := s.txHeaders + 1, txFinal := s.txFinal || ¬ info, txEnd := s.txEnd || fl % 2 == 1 }
          (w.put s', viols)
    | .data sid fl len _ =>
      if sid = 0 then (w, ["C04 data-on-stream-0"])
      else match w.get sid with
        | none => (w, ["C04 data-on-idle-stream"])
        | some s =>
          let viols : List Viol :=
            (if ¬ s.txFinal then ["C04 data-before-headers"] else []) ++
            (if s.txEnd then ["C04 data-after-END_STREAM"] else []) ++
            (if s.txRst > 0 then ["C04 data-after-RST_STREAM"] else []) ++
            (match w.apiResets.find? (·.1 = sid) with
             | some (_, 0) => ["C17 data-sent-after-the-application-reset-the-stream"]
             | _ => []) ++
            (if len > w.peerMaxFrame then ["C12 data-frame-larger-than-peer-max-frame-size"] else []) ++
            (if len > 0 ∧ (len : Int) > s.sendCredit then ["C02 data-exceeds-stream-window"] else []) ++
            (if len > 0 ∧ (len : Int) > w.connSendCredit then ["C02 data-exceeds-connection-window"] else [])
          let s' := { s with txEnd := s.txEnd || fl % 2 == 1, sendCredit := s.sendCredit - len }
          let resets := w.apiResets.map fun (i, n) => if i = sid then (i, n - 1) else (i, n)
          ({ (w.put s') with connSendCredit := w.connSendCredit - len, apiResets := resets }, viols)
    | .pushPromise sid promised _ =>
      let viols : List Viol :=
        (if w.role = .client then ["C04 client-sends-PUSH_PROMISE"] else []) ++
        (if ¬ w.peerPush then ["C04 push-while-peer-disabled-it"] else []) ++
        (match w.get sid with
         | none => ["C04 push-promise-on-idle-stream"]
         -- (a RST_STREAM of the peer may still be unread when the promise is written: only what WE did to the parent counts)
         | some s => (if s.txEnd ∨ s.txRst > 0 then ["C04 push-promise-on-closed-parent"] else [])) ++
        (if ¬ ours w.role promised then ["C04 promised-id-wrong-parity"] else []) ++
        (if promised ≤ w.maxLocalId then ["C04 promised-id-not-increasing"] else [])
      -- (what we may send on the promised stream is governed by the peer's acknowledged initial window, like on any other)
      let s : Str := { id := promised, reservedByUs := true, recvAdvert := w.ourIwsAcked, sendCredit := w.peerIws }
      ({ (w.put s) with maxLocalId := max w.maxLocalId promised }, viols)
    | .rst sid _ =>
      if sid = 0 then (w, ["C04 rst-on-stream-0"])
      else match w.get sid with
        | none =>
          -- RST_STREAM on a stream the peer opened implicitly (skipped ids are closed) is fine; on a
          -- stream *we* would have to open it is an idle stream
          if ours w.role sid ∧ sid > w.maxLocalId then (w, ["C04 rst-on-idle-stream"])
          else if ¬ ours w.role sid ∧ sid > w.maxPeerId then (w, ["C04 rst-on-idle-stream"])
          else (w, [])
        | some s =>
          let viols : List Viol :=
            -- a further RST_STREAM is only ever an answer to a further frame from the peer
            (if s.txRst ≥ 1 + s.rxFrames then ["C17 more-RST_STREAM-than-provoked"] else [])
          (w.put { s with txRst := s.txRst + 1 }, viols)
    | .windowUpdate sid inc =>
      if sid = 0 then
        let a := w.connRecvAdvert + inc
        ({ w with connRecvAdvert := a },
          (if a > w.connRecvMax then ["C03 connection-window-over-credited"] else []) ++
          (if a > 2147483647 then ["C03 connection-window-above-2^31-1"] else []))
      else match w.get sid with
        | none => (w, [])
        | some s =>
          let a := s.recvAdvert + inc
          (w.put { s with recvAdvert := a },
            (if a > w.ourIwsMax then ["C03 stream-window-over-credited"] else []) ++
            (if s.txRst > 0 then ["C04 window-update-after-RST_STREAM"] else []))
    | .settings ack vals =>
      if ack then
        match w.rxSettingsQ with
        | [] => (w, ["C14 SETTINGS-ack-without-SETTINGS"])
        | s :: rest =>
          -- the values of the acknowledged SETTINGS govern everything we send from here on
          let newIws : Int := match settingVal s 4 with | some v => v | none => w.peerIws
          let d := newIws - w.peerIws
          let strs := w.strs.map fun x => { x with sendCredit := x.sendCredit + d }
          ({ w with rxSettingsQ := rest, peerIws := newIws, strs := strs, peerIwsChanged := w.peerIwsChanged || d ≠ 0,
                    peerMaxConc := match settingVal s 3 with | some v => some v | none => w.peerMaxConc,
                    peerMaxFrame := match settingVal s 5 with | some v => v | none => w.peerMaxFrame,
                    peerPush := match settingVal s 2 with | some v => v ≠ 0 | none => w.peerPush }, [])
      else
        let iws : Int := match settingVal vals 4 with | some v => v | none => w.ourIwsMax
        ({ w with txSettingsQ := w.txSettingsQ ++ [vals], ourIwsMax := max w.ourIwsMax iws }, [])
    | .ping ack payload =>
      if ack then
        match w.rxPings with
        | [] => (w, ["C14 PONG-without-PING"])
        | p :: rest => ({ w with rxPings := rest }, if p = payload then [] else ["C14 PONG-payload-or-order-wrong"])
      else (w, [])
    | .goaway last code _ =>
      let viols : List Viol := match w.txGoaway with
        | some prev => if last > prev then ["C15 GOAWAY-last-stream-id-increased"] else []
        | none => []
      ({ w with txGoaway := some last, txGoawayErr := w.txGoawayErr || code ≠ 0, txGoawayCount := w.txGoawayCount + 1,
                gracefulNoticeSent := w.gracefulNoticeSent || (last = 2147483647 && code = 0 && w.txGoawayCount = 0) }, viols)
    | .priority _ => (w, [])
    | _ => (w, [])
  (w, blockViol ++ v)

-- ============================================================================ frames the peer SENDS

/-- fold of peer frames into the wire state; peer violations are not judged here (C09 does that) -/
def rx (w : WSt) (f : Fr) : WSt × List Viol :=
  match f with
  | .headers sid fl fields =>
    match w.get sid with
    | none =>
      -- the peer opens a stream: a request
      let s : Str := { id := sid, rxHeaders := 1, rxEnd := fl % 2 == 1, recvAdvert := w.ourIwsAcked, sendCredit := w.peerIws,
                       rxFinal := true, rxHeadBad := Http.request fields true, rxCl := Http.contentLength fields }
      ({ (w.put s) with maxPeerId := if ours w.role sid then w.maxPeerId else max w.maxPeerId sid }, [])
    | some s =>
      let s1 := { s with rxHeaders := s.rxHeaders + 1, rxEnd := s.rxEnd || fl % 2 == 1, rxFrames := s.rxFrames + 1 }
      let s2 :=
        if s.rxFinal then { s1 with rxTrailersBad := Http.trailers fields ++ (if fl % 2 == 1 then [] else ["trailers-without-END_STREAM"]) }
        else if Http.isInterim fields then
          { s1 with rxHeadBad := s1.rxHeadBad ++ Http.response fields ++ (if fl % 2 == 1 then ["interim-with-END_STREAM"] else []) }
        else
          let st := Http.get fields ":status"
          { s1 with rxFinal := true, rxHeadBad := s1.rxHeadBad ++ Http.response fields, rxCl := Http.contentLength fields,
                    noBody := s.ourMethodHead || st == [Http.ascii "204"] || st == [Http.ascii "304"] }
      (w.put s2, [])
  | .data sid fl len dl =>
    let w := { w with connRecvAdvert := w.connRecvAdvert - len }
    match w.get sid with
    | none => (w, [])
    | some s => (w.put { s with rxEnd := s.rxEnd || fl % 2 == 1, recvAdvert := s.recvAdvert - len, rxFrames := s.rxFrames + 1, rxBody := s.rxBody + dl }, [])
  | .pushPromise _ promised _ =>
    (w.put { id := promised, reservedByPeer := true, recvAdvert := w.ourIwsAcked, sendCredit := w.peerIws }, [])
  | .rst sid _ =>
    match w.get sid with
    | none => (w, [])
    | some s => (w.put { s with rxRst := true, rxFrames := s.rxFrames + 1 }, [])
  | .windowUpdate sid inc =>
    if sid = 0 then ({ w with connSendCredit := w.connSendCredit + inc }, [])
    else match w.get sid with
      | none => (w, [])
      | some s => (w.put { s with sendCredit := s.sendCredit + inc, rxFrames := s.rxFrames + 1 }, [])
  | .settings ack vals =>
    if ack then
      match w.txSettingsQ with
      | [] => (w, [])
      | s :: rest =>
        let newIws : Int := match settingVal s 4 with | some v => v | none => w.ourIwsAcked
        let d := newIws - w.ourIwsAcked
        ({ w with txSettingsQ := rest, ourIwsAcked := newIws,
                  strs := w.strs.map fun x => { x with recvAdvert := x.recvAdvert + d } }, [])
    else ({ w with rxSettingsQ := w.rxSettingsQ ++ [vals] }, [])
  | .ping ack payload =>
    if ack then
      -- the acknowledgement of the shutdown PING (h2's fixed payload) after the graceful notice
      (if w.gracefulNoticeSent && payload = [0x0b, 0x7b, 0xa2, 0xf0, 0x8b, 0x9b, 0xfe, 0x54]
        then { w with shutdownPingAcked := true } else w, [])
    else ({ w with rxPings := w.rxPings ++ [payload] }, [])
  | .goaway last code _ => ({ w with rxGoaway := some last, rxGoaways := w.rxGoaways ++ [(last, code)] }, [])
  | _ => (w, [])

-- ============================================================================ application-level facts

/-- the application reset stream `sid` (or dropped its last handle before it finished) -/
def apiReset (w : WSt) (sid inCodec : Nat) : WSt :=
  if w.apiResets.any (·.1 = sid) then w else { w with apiResets := (sid, inCodec) :: w.apiResets }

/-- the receive API handed something of stream `sid` to the application (C13) -/
def delivered (w : WSt) (sid : Nat) (what : String) : List Viol :=
  match w.get sid with
  | none => []
  | some s =>
    if what == "head" then s.rxHeadBad.map fun r => "C13 delivered-malformed-head-" ++ r
    else if what == "trailers" then s.rxTrailersBad.map fun r => "C13 delivered-malformed-trailers-" ++ r
    else if what == "end" then
      -- C01: a body ends cleanly for the application only if the peer ended it (END_STREAM) — a reset, whatever its
      -- code, is not an end
      (if ¬ s.rxEnd then ["C01 body-ended-cleanly-without-END_STREAM-from-the-peer"] else []) ++
      match s.rxCl with
      | some (some n) =>
        if s.noBody then (if s.rxBody ≠ 0 then ["C13 clean-end-of-a-bodyless-response-that-carried-data"] else [])
        else if s.rxBody ≠ n then ["C13 clean-end-although-body-differs-from-content-length"] else []
      | some none => ["C13 clean-end-with-unparsable-content-length"]
      | none => []
    else []

/-- HEADERS of `sid` were already handed to the codec when a GOAWAY was queued for us -/
def exemptOpen (w : WSt) (sid : Nat) : WSt := { w with openExempt := sid :: w.openExempt }

/-- the application raised the connection-level target window -/
def apiTarget (w : WSt) (n : Nat) : WSt := { w with connRecvMax := max w.connRecvMax n }

/-- end-of-history checks, to be evaluated once the connection is quiescent with an open transport
    (every owed reply must have been written): C14 "exactly one acknowledgement" -/
def quiescent (w : WSt) : List Viol :=
  -- graceful shutdown: once the peer has acknowledged the shutdown PING the final GOAWAY follows
  (if w.shutdownPingAcked ∧ w.txGoawayCount < 2 ∧ ¬ w.txGoawayErr then ["C15 graceful-shutdown-never-sends-its-final-GOAWAY"] else []) ++
  -- (an endpoint that has sent GOAWAY and closed the connection no longer answers)
  (if ¬ w.rxSettingsQ.isEmpty ∧ w.txGoaway.isNone then ["C14 SETTINGS-never-acknowledged"] else []) ++
  (if ¬ w.rxPings.isEmpty ∧ w.txGoaway.isNone then ["C14 PING-never-answered"] else []) ++
  (w.strs.filterMap fun s =>
    if w.apiResets.any (·.1 = s.id) ∧ s.txHeaders > 0 ∧ s.txRst = 0 ∧ ¬ (s.txEnd ∧ (s.rxEnd ∨ s.reservedByUs)) ∧ ¬ s.rxRst ∧ ¬ w.txGoawayErr
       ∧ w.txGoaway.isNone ∧ (match w.rxGoaway with | some last => decide (s.id ≤ last) | none => true) = true
    then some s!"C17 no-RST_STREAM-for-reset-stream-{s.id}" else none)

/-- C03 / C02, the wire against the endpoint's own books: at a point where the endpoint has read everything the
    peer sent and everything it wrote has been seen, the connection receive window *as the peer can compute it
    from the frames* (65 535 + WINDOW_UPDATEs we sent − flow-controlled octets of every DATA frame we were sent,
    padding included) equals the window the endpoint believes the peer has (`Recv.flow.window_size`); a frame whose
    octets the endpoint forgot to charge, or charged twice, shows here and nowhere else (the endpoint's own ledger
    stays consistent with itself).  Likewise the connection send window. -/
def quiescentWindows (w : WSt) (recvWindow sendWindow : Int) : List Viol :=
  (if w.connRecvAdvert ≠ recvWindow then
    [s!"C03 connection-receive-window-on-the-wire({w.connRecvAdvert})-differs-from-the-endpoints-account({recvWindow})"] else []) ++
  (if w.connSendCredit ≠ sendWindow then
    [s!"C02 connection-send-window-on-the-wire({w.connSendCredit})-differs-from-the-endpoints-account({sendWindow})"] else [])

/-- the same for one stream that is still live both on the wire and in the endpoint's store (no reset either
    way): receive window while the peer may still send (no END_STREAM from it yet), send window while we may. -/
def quiescentStream (w : WSt) (sid : Nat) (recvWindow sendWindow : Int) (recvHandleLive : Bool) : List Viol :=
  match w.get sid with
  | none => []
  | some s =>
    if s.txRst > 0 ∨ s.rxRst ∨ w.txGoawayErr then []
    else
      -- (once the application has dropped its receive handle h2 stops keeping the stream's receive window:
      --  noted finding F3, not judged here)
      (if recvHandleLive ∧ ¬ s.rxEnd ∧ (s.rxHeaders > 0 ∨ s.txHeaders > 0) ∧ s.recvAdvert ≠ recvWindow then
        [s!"C03 stream-receive-window-on-the-wire({s.recvAdvert})-differs-from-the-endpoints-account({recvWindow})"] else []) ++
      -- (nothing is ever sent on a stream the peer pushed: its send window is not kept)
      (if ¬ s.reservedByPeer ∧ ¬ s.txEnd ∧ (s.rxHeaders > 0 ∨ s.txHeaders > 0) ∧ s.sendCredit ≠ sendWindow then
        [s!"C02 stream-send-window-on-the-wire({s.sendCredit})-differs-from-the-endpoints-account({sendWindow})"] ++
        -- (settings apply at the ACK: once a changed SETTINGS_INITIAL_WINDOW_SIZE is acknowledged every stream that can
        --  still send is governed by it)
        (if w.peerIwsChanged then
          [s!"C14 stream-send-window({sendWindow})-is-not-what-the-acknowledged-SETTINGS_INITIAL_WINDOW_SIZE-leaves({s.sendCredit})"]
         else [])
      else [])

/-- C17, a GOAWAY from the peer surfaces with the peer's exact code: a handle of a stream that we had opened on
    the wire and that reports a remote GOAWAY error names the code of the FIRST GOAWAY whose last-stream-id lies
    below the stream (that frame refused it; earlier ones covered it, later ones find it already failed). -/
def goawayCode (w : WSt) (sid reported : Nat) : List Viol :=
  match w.get sid with
  | none => []
  | some s =>
    if s.txHeaders = 0 ∨ ¬ ours w.role sid then []
    else match w.rxGoaways.find? (fun g => g.1 < sid) with
      | some (_, code) =>
        if code ≠ reported then
          [s!"C17 handle-reports-GOAWAY-code-{reported}-but-the-GOAWAY-that-refused-stream-{sid}-said-{code}"] else []
      | none => []

/-- C15: the connection future completed although the transport neither failed nor reached EOF: the endpoint
    ended the connection of its own accord (shutdown, idle client, a fatal error of the peer) and has told the
    peer so with a GOAWAY before — also when that GOAWAY had to wait behind a full write buffer. -/
def endedByItself (w : WSt) (transportEvent : Bool) : List Viol :=
  if !transportEvent ∧ w.txGoawayCount = 0 then ["C15 connection-ended-of-its-own-accord-without-a-GOAWAY"] else []

end H2V.Spec.Wire
