import H2V.Spec.Wire
import H2V.Spec.Verdict
import H2V.Model.Basic
/-
  Monitor driver: `mon_cn <kind> <payload>` lines built by tools/props.py from the trace of the REAL
  connection; answers `ok` or `FAIL <viol> ;; <viol> …` (each violation starts with its property id).
-/
namespace H2V.Driver
open H2V H2V.Spec.Wire

def parseFieldsEq (s : String) : List (List Nat × List Nat) :=
  if s == "-" then []
  else (s.splitOn ",").filterMap fun w =>
    match w.splitOn "=" with
    | [n, v] => match Hex.toBytes? n, Hex.toBytes? v with
      | some n, some v => some (n, v)
      | _, _ => none
    | _ => none

def parseVals (s : String) : List (Nat × Nat) :=
  if s == "-" then []
  else (s.splitOn ",").filterMap fun w =>
    match w.splitOn "=" with
    | [a, b] => match a.toNat?, b.toNat? with | some a, some b => some (a, b) | _, _ => none
    | _ => none

/-- the scanner's frame rendering (harness/src/conn.rs `Scanner::feed`) -/
def parseFr (s : String) : Option Fr :=
  match s.splitOn ":" with
  | ["D", sid, fl, len] => do some (.data (← sid.toNat?) (← fl.toNat?) (← len.toNat?) (← len.toNat?))
  | ["D", sid, fl, len, dl] => do some (.data (← sid.toNat?) (← fl.toNat?) (← len.toNat?) (← dl.toNat?))
  | "H" :: _ :: _ :: _ :: "!hpack" :: _ => some .other      -- a block the HPACK decoder rejected
  | "PP" :: _ :: _ :: _ :: "!hpack" :: _ => some .other
  | ["H", sid, fl, _len, f] => do some (.headers (← sid.toNat?) (← fl.toNat?) (parseFieldsEq f))
  | ["PP", sid, pr, _len, f] => do some (.pushPromise (← sid.toNat?) (← pr.toNat?) (parseFieldsEq f))
  | "H" :: _ => some .other                                  -- a block that failed to decode part-way (`…,!hpack:<kind>`)
  | "PP" :: _ => some .other
  | ["Hfrag", sid, _, _] => do some (.fragment (← sid.toNat?))
  | ["PPfrag", sid, _, _] => do some (.fragment (← sid.toNat?))
  | ["C", sid, fl, _] => do
    let fl ← fl.toNat?
    if fl / 4 % 2 == 1 then some (.contEnd (← sid.toNat?)) else some (.fragment (← sid.toNat?))
  | ["PRI", sid] => do some (.priority (← sid.toNat?))
  | ["R", sid, code] => do some (.rst (← sid.toNat?) (← code.toNat?))
  | ["S", _sid, ack, vals] => some (.settings (ack == "1") (parseVals vals))
  | ["P", _sid, ack, h] => do some (.ping (ack == "1") (← Hex.toBytes? h))
  | ["G", _sid, last, code, h] => do some (.goaway (← last.toNat?) (← code.toNat?) (← Hex.toBytes? h))
  | ["W", sid, inc] => do some (.windowUpdate (← sid.toNat?) (← inc.toNat?))
  | ["PREFACE"] => some .other
  | "U" :: _ => some .other
  | _ => none

def showViols (vs : List Viol) : String :=
  if vs.isEmpty then "ok" else "FAIL " ++ " ;; ".intercalate vs

def handleWire (w : WSt) (ws : List String) : Option (WSt × String) :=
  match ws with
  | ["mon_cn", "new", role] =>
    some ({ role := if role == "server" then .server else .client }, "ok")
  | ["mon_cn", "tx", f] =>
    match parseFr f with
    | some fr => let (w', vs) := tx w fr; some (H2V.Spec.Verdict.observe w' fr, showViols vs)
    | none => none
  | ["mon_cn", "rx", f] =>
    match parseFr f with
    | some fr => let (w', vs) := rx w fr; some (w', showViols vs)
    | none => none
  | ["mon_cn", "reset", sid, cb] =>
    match sid.toNat?, cb.toNat? with
    | some s, some n => some (apiReset w s n, "ok")
    | _, _ => none
  | ["mon_cn", "exempt_open", sid] => sid.toNat?.map fun s => (exemptOpen w s, "ok")
  | ["mon_cn", "target", n] => n.toNat?.map fun n => (apiTarget w n, "ok")
  | ["mon_cn", "expect", cls, sid] => sid.toNat?.map fun s => (H2V.Spec.Verdict.expect w cls s, "ok")
  | ["mon_cn", "probe"] => some (H2V.Spec.Verdict.atProbe w, "ok")
  | ["mon_cn", "verdict"] => let (w', vs) := H2V.Spec.Verdict.verdict w; some (w', showViols vs)
  | ["mon_cn", "panic"] => some (w, showViols H2V.Spec.Verdict.panicked)
  | ["mon_cn", "polled", sw, pr] => let (w', vs) := H2V.Spec.Verdict.polled w (sw == "1") (pr == "1"); some (w', showViols vs)
  | ["mon_cn", "pollwork", pk, wk, inp, wr] =>
    some (w, showViols (H2V.Spec.Verdict.unsolicitedPoll (pk == "1") (wk == "1") (inp == "1") (wr == "1")))
  | ["mon_cn", "pendreg", op, reg] => some (w, showViols (H2V.Spec.Verdict.pendingRegistered op (reg == "1")))
  | ["mon_cn", "parkedpush", sst] => some (w, showViols (H2V.Spec.Verdict.parkedPush sst))
  | ["mon_cn", "afterend", op, r, sst] => some (w, showViols (H2V.Spec.Verdict.afterEnd op r sst))
  | ["mon_cn", "connresult", pc, r, rc] =>
    some (w, showViols (H2V.Spec.Verdict.connResult ((pc.splitOn ",").filterMap (·.toNat?)) r (rc.toNat?.getD 0)))
  | ["mon_cn", "connresult", pc, r, rc, known] =>
    some (w, showViols (H2V.Spec.Verdict.connResult ((pc.splitOn ",").filterMap (·.toNat?)) r (rc.toNat?.getD 0) (known == "1")))
  | ["mon_cn", "ioerr", raised, reported] =>
    some (w, showViols (H2V.Spec.Verdict.ioSurfaced ((raised.splitOn ",").filter (· ≠ "-")) reported))
  | ["mon_cn", "bodyend", a, b] =>
    match a.toNat?, b.toNat? with
    | some x, some y => some (w, showViols (H2V.Spec.Verdict.bodyEnd x y))
    | _, _ => none
  | ["mon_cn", "goawaycode", sid, code] =>
    match sid.toNat?, code.toNat? with
    | some i, some c => some (w, showViols (goawayCode w i c))
    | _, _ => none
  | ["mon_cn", "ended", te] => some (w, showViols (endedByItself w (te == "1")))
  | ["mon_cn", "quiescent"] => some (w, showViols (quiescent w))
  | ["mon_cn", "quiescent", rw, sw] =>
    match rw.toInt?, sw.toInt? with
    | some r, some s => some (w, showViols (quiescent w ++ quiescentWindows w r s))
    | _, _ => some (w, showViols (quiescent w))
  | ["mon_cn", "quiescent_stream", sid, rw, sw, live] =>
    match sid.toNat?, rw.toInt?, sw.toInt? with
    | some i, some r, some s => some (w, showViols (quiescentStream w i r s (live == "1")))
    | _, _, _ => none
  | ["mon_cn", "delivered", sid, what] =>
    match sid.toNat? with
    | some s => some (w, showViols (delivered w s what))
    | none => none
  | _ => none

end H2V.Driver
