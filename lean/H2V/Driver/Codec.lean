import H2V.Model.CodecRead
import H2V.Model.CodecWrite
import H2V.Driver.Core
/-
  Line-protocol driver, codec read side. Canonical rendering of frames shared with the harness.
-/
namespace H2V.Driver
open H2V H2V.Model H2V.Model.Frame H2V.Model.CodecRead H2V.Model.CodecWrite

def optHex : Option Bytes → String
  | none => "~"
  | some b => Hex.render b

def renderPseudo (p : Pseudo) : String :=
  s!"m={optHex p.method} s={optHex p.scheme} a={optHex p.authority} p={optHex p.path} pr={optHex p.protocol} st={optHex p.status}"

def renderFields (fs : List (Bytes × List Bytes)) : String :=
  if fs.isEmpty then "-"
  else ",".intercalate (fs.map fun (n, vs) => Hex.render n ++ "=" ++ ";".intercalate (vs.map Hex.render))

def b01 (b : Bool) : String := if b then "1" else "0"

def renderFrame : Frame → String
  | .data sid payload eos pad =>
    s!"DATA sid={sid} eos={b01 eos} pad={match pad with | some n => toString n | none => "none"} len={payload.length} data={Hex.render payload}"
  | .headers sid eos dep blk =>
    let d := match dep with | some (i, w, x) => s!"{i}:{w}:{b01 x}" | none => "none"
    s!"HEADERS sid={sid} eos={b01 eos} dep={d} over={b01 blk.isOverSize} {renderPseudo blk.pseudo} fields={renderFields blk.fields}"
  | .priority sid dep w x => s!"PRIORITY sid={sid} dep={dep} w={w} x={b01 x}"
  | .reset sid code => s!"RST_STREAM sid={sid} code={code}"
  | .settings ack vals =>
    s!"SETTINGS ack={b01 ack} vals={if vals.isEmpty then "-" else ",".intercalate (vals.map fun (i, v) => s!"{i}:{v}")}"
  | .pushPromise sid promised blk =>
    s!"PUSH_PROMISE sid={sid} promised={promised} over={b01 blk.isOverSize} {renderPseudo blk.pseudo} fields={renderFields blk.fields}"
  | .ping ack p => s!"PING ack={b01 ack} payload={Hex.render p}"
  | .goAway last code dbg => s!"GOAWAY last={last} code={code} debug={Hex.render dbg}"
  | .windowUpdate sid inc => s!"WINDOW_UPDATE sid={sid} inc={inc}"

def renderErr : RErr → String
  | .goAway code dbg => s!"ERR goaway code={code} debug={if dbg.isEmpty then "-" else dbg}"
  | .reset sid code => s!"ERR reset sid={sid} code={code}"
  | .io what => s!"ERR io {what}"

def renderItems (items : List CodecRead.Item) : String :=
  if items.isEmpty then "-"
  else " ;; ".intercalate (items.map fun
    | .frame f => renderFrame f
    | .err e => renderErr e)

/-- `p` = Pending, a number = accept at most that many octets; `-` = empty script -/
def parseScript (s : String) : Option (List (Option Nat)) :=
  if s == "-" then some []
  else (s.splitOn ",").mapM fun w => if w == "p" then some none else w.toNat?.map some

def parseSettingsVals (s : String) : Option (List (Nat × Nat)) :=
  if s == "-" then some []
  else (s.splitOn ",").mapM fun w =>
    match w.splitOn ":" with
    | [a, b] => match a.toNat?, b.toNat? with | some a, some b => some (a, b) | _, _ => none
    | _ => none

def parseItem (ws : List String) : Option CodecWrite.Item :=
  match ws with
  | ["data", sid, eos, h] =>
    match sid.toNat?, Hex.toBytes? h with
    | some sid, some p => some (.simple (.data sid p (eos == "1") none))
    | _, _ => none
  | ["settings", ack, vals] => (parseSettingsVals vals).map fun v => .simple (.settings (ack == "1") v)
  | ["ping", ack, h] => (Hex.toBytes? h).map fun p => .simple (.ping (ack == "1") p)
  | ["goaway", last, code, h] =>
    match last.toNat?, code.toNat?, Hex.toBytes? h with
    | some l, some c, some d => some (.simple (.goAway l c d))
    | _, _, _ => none
  | ["window_update", sid, inc] =>
    match sid.toNat?, inc.toNat? with
    | some s, some i => some (.simple (.windowUpdate s i))
    | _, _ => none
  | ["reset", sid, code] =>
    match sid.toNat?, code.toNat? with
    | some s, some c => some (.simple (.reset s c))
    | _, _ => none
  | ["headers", sid, eos, f] =>
    match sid.toNat?, parseFields f with
    | some s, some fs => some (.headers s (eos == "1") fs)
    | _, _ => none
  | ["push_promise", sid, pr, f] =>
    match sid.toNat?, pr.toNat?, parseFields f with
    | some s, some p, some fs => some (.pushPromise s p fs)
    | _, _, _ => none
  | _ => none

/-- every iteration of `flush` either writes at least one octet, consumes a script entry, or emits a
    CONTINUATION frame -/
def flushFuel (w : Writer) : Nat :=
  let pend := w.buf.length + (match w.next with | some (.data r) => r.length | some (.continuation _ h) => 2 * h.length + 20 | none => 0)
  2 * pend + 64

structure CState where
  rd : Reader := Reader.new 16384
  rdDead : Bool := false
  wrFinal : Bool := false
  /-- a second reader, configured like `rd`, that is only ever fed whole byte strings -/
  rdWhole : Reader := Reader.new 16384
  wr : Writer := {}
  wrReady : Bool := false      -- the last `wr_ready` said Ready and nothing was buffered since

def handleCodec (st : CState) (ws : List String) : Option (CState × String) :=
  match ws with
  | ["rd_new", n] =>
    match n.toNat? with
    | some n => some ({ st with rd := Reader.new n, rdDead := false, rdWhole := Reader.new n }, "ok")
    | none => none
  | ["rd_set_max_frame", n] =>
    match n.toNat? with
    | some n => some ({ st with rd := st.rd.setMaxFrameSize n, rdWhole := st.rdWhole.setMaxFrameSize n }, "ok")
    | none => none
  | ["rd_set_max_header_list", n] =>
    match n.toNat? with
    | some n => some ({ st with rd := st.rd.setMaxHeaderListSize n, rdWhole := st.rdWhole.setMaxHeaderListSize n }, "ok")
    | none => none
  | ["rd_set_header_table", n] =>
    match n.toNat? with
    | some n => some ({ st with rd := { st.rd with hpack := st.rd.hpack.queueSizeUpdate n },
                                rdWhole := { st.rdWhole with hpack := st.rdWhole.hpack.queueSizeUpdate n } }, "ok")
    | none => none
  | ["rd_feed", h] =>
    match Hex.toBytes? h with
    | some bs =>
      if st.rdDead then some (st, "dead")
      else
        let (r, items, dead) := st.rd.feed bs
        some ({ st with rd := r, rdDead := dead }, renderItems items)
    | none => none
  | ["rd_eof"] =>
    if st.rdDead then some (st, "dead")
    else if st.rd.buf.isEmpty then some (st, "end")
    else some ({ st with rdDead := true }, "ERR io bytes-remaining")
  | ["wr_new"] => some ({ st with wr := {}, wrReady := false, wrFinal := false }, "ok")
  | ["wr_set_max_frame", n] =>
    match n.toNat? with
    | some n => some ({ st with wr := { st.wr with maxFrame := n } }, "ok")
    | none => none
  | ["wr_set_header_table", n] =>
    match n.toNat? with
    | some n => some ({ st with wr := { st.wr with hpack := st.wr.hpack.updateMaxSize n } }, "ok")
    | none => none
  | ["wr_ready", sc] =>
    match parseScript sc with
    | some script =>
      if st.wr.hasCapacity then some ({ st with wrReady := true }, "ready out=-")
      else
        let (w, _, out, res) := Writer.flush (flushFuel st.wr) st.wr script []
        match res with
        | .ready =>
          if w.hasCapacity then some ({ st with wr := w, wrReady := true }, s!"ready out={Hex.render out}")
          else some ({ st with wr := w, wrReady := false }, s!"pending out={Hex.render out}")
        | .pending => some ({ st with wr := w, wrReady := false }, s!"pending out={Hex.render out}")
        | .writeZero => some ({ st with wr := w, wrReady := false }, s!"err WriteZero out={Hex.render out}")
        | .loop => some ({ st with wr := w, wrReady := false }, "loop")
    | none => none
  | "wr_buffer" :: rest =>
    match parseItem rest with
    | some it =>
      if ¬ st.wrReady then some (st, "nocap")
      else
        let (w, r) := st.wr.buffer it
        some ({ st with wr := w, wrReady := false },
          match r with | .ok => "ok" | .payloadTooBig => "err PayloadTooBig" | .unimplemented => "panic")
    | none => none
  | ["wr_flush", sc] =>
    match parseScript sc with
    | some script =>
      let (w, _, out, res) := Writer.flush (flushFuel st.wr) st.wr script []
      let r := match res with | .ready => "ready" | .pending => "pending" | .writeZero => "err WriteZero" | .loop => "loop"
      some ({ st with wr := w, wrReady := false }, s!"{r} out={Hex.render out}")
    | none => none
  | ["wr_shutdown", sc] =>
    match parseScript sc with
    | some script =>
      let (w, done, out, res, shut) := Writer.shutdown (flushFuel st.wr) st.wr st.wrFinal script
      let r := match res with | .ready => "ready" | .pending => "pending" | .writeZero => "err WriteZero" | .loop => "loop"
      some ({ st with wr := w, wrReady := false, wrFinal := done }, s!"{r} out={Hex.render out} shut={if shut then 1 else 0}")
    | none => none
  | ["spec_rd_all", h] =>
    -- chunk invariance: whatever the chunking was, the reader must have produced what it produces
    -- when the transport delivers the same octets in one piece (followed by EOF)
    match Hex.toBytes? h with
    | some bs =>
      let (r, items, dead) := st.rdWhole.feed bs
      let tailItem := if dead then [] else if r.buf.isEmpty then ["end"] else ["ERR io bytes-remaining"]
      let all := (items.map fun | .frame f => renderFrame f | .err e => renderErr e) ++ tailItem
      some (st, if all.isEmpty then "-" else " ;; ".intercalate all)
    | none => none
  | _ => none

end H2V.Driver
