import H2V.Model.ConnFlow
import H2V.Model.ConnState
/-
  Component drivers: `FlowControl` (fc_*) and `State` (stt_*) of proto/streams, driven exactly like
  the hooks `h2::verif_hooks::{flow, state}` drive the real types.
-/
namespace H2V.Driver
open H2V H2V.Model.Conn

structure CompState where
  fc : FlowControl := FlowControl.new
  st : State := {}

def flowRes : FlowRes → String
  | .ok _ => "ok"
  | .error (.reason r) => s!"err:{r}"
  | .error .assertFailed => "panic"

def bstr (b : Bool) : String := if b then "true" else "false"

def peerDebug : Peer → String
  | .awaitingHeaders => "AwaitingHeaders" | .streaming => "Streaming"

def reasonDebug (r : Reason) : String :=
  match reasonName r with
  | some n => n
  | none => s!"Reason({r})"

/-- `{:?}` of `proto::Error` with spaces replaced by `_` -/
def perrDebug : PErr → String
  | .reset sid r i => s!"Reset(StreamId({sid}),_{reasonDebug r},_{i.name})"
  | .goAway d r i => s!"GoAway({debugBytes d},_{reasonDebug r},_{i.name})"
  | .io kind msg =>
    match msg with
    | some m => s!"Io({kind},_Some(\"{m.replace " " "_"}\"))"
    | none => s!"Io({kind},_None)"

/-- the hook's short rendering of an error result -/
def perrShort : PErr → String
  | .reset _ r i => s!"Reset:{r}:{i.name}"
  | .goAway _ r i => s!"GoAway:{r}:{i.name}"
  | .io kind _ => s!"Io:{kind}"

def causeDebug : Cause → String
  | .endStream => "EndStream"
  | .error e => s!"Error({perrDebug e})"
  | .errorAfterEndStream e => s!"ErrorAfterEndStream({perrDebug e})"
  | .scheduledLibraryReset r => s!"ScheduledLibraryReset({reasonDebug r})"

/-- `{:?}` of `State` (its `Debug` prints the inner enum), spaces replaced by `_` -/
def stateDebug (s : State) : String :=
  match s.inner with
  | .idle => "Idle"
  | .reservedLocal => "ReservedLocal"
  | .reservedRemote => "ReservedRemote"
  | .open l r => s!"Open_\{_local:_{peerDebug l},_remote:_{peerDebug r}_}"
  | .halfClosedLocal p => s!"HalfClosedLocal({peerDebug p})"
  | .halfClosedRemote p => s!"HalfClosedRemote({peerDebug p})"
  | .closed c => s!"Closed({causeDebug c})"

def describeState (s : State) : String :=
  let sched := match s.getScheduledReset with | some r => s!"Some({r})" | none => "None"
  let ero := match s.ensureRecvOpen with | .ok b => s!"Ok({bstr b})" | .error e => s!"Err({perrShort e})"
  s!"{stateDebug s}_sched={sched}_is_sched={bstr s.isScheduledReset}_local_err={bstr s.isLocalError}_remote_reset={bstr s.isRemoteReset}_reset={bstr s.isReset}_send_streaming={bstr s.isSendStreaming}_recv_headers={bstr s.isRecvHeaders}_recv_streaming={bstr s.isRecvStreaming}_recv_eos={bstr s.isRecvEndStream}_closed={bstr s.isClosed}_send_closed={bstr s.isSendClosed}_idle={bstr s.isIdle}_ensure_recv_open={ero}"

def userErrDebug (e : Except UserError Unit) : String :=
  match e with
  | .ok _ => "Ok(())"
  | .error .unexpectedFrameType => "Err(\"UnexpectedFrameType\")"
  | .error _ => "Err(?)"

def handleComp (c : CompState) (ws : List String) : Option (CompState × String) :=
  match ws with
  | ["fc_new"] => some ({ c with fc := FlowControl.new }, "ok")
  | ["fc_op", name, arg] =>
    match arg.toNat? with
    | none => none
    | some a =>
      let fin := fun (f : FlowControl) (r : String) =>
        some ({ c with fc := f }, s!"{r} w={f.windowSize.val} a={f.available.val}")
      match name with
      | "inc_window" => let (f, r) := c.fc.incWindow a; fin f (flowRes r)
      | "dec_send_window" => let (f, r) := c.fc.decSendWindow a; fin f (flowRes r)
      | "dec_recv_window" => let (f, r) := c.fc.decRecvWindow a; fin f (flowRes r)
      | "assign_capacity" => let (f, r) := c.fc.assignCapacity a; fin f (flowRes r)
      | "claim_capacity" => let (f, r) := c.fc.claimCapacity a; fin f (flowRes r)
      | "send_data" =>
        let (f, r) := c.fc.sendData a
        match r with
        | .error .assertFailed => some (c, "panic")
        | _ => fin f (flowRes r)
      | "unclaimed_capacity" => fin c.fc (match c.fc.unclaimedCapacity with | some v => s!"some:{v}" | none => "none")
      | "has_unavailable" => fin c.fc (bstr c.fc.hasUnavailable)
      | "window_size" => fin c.fc (toString c.fc.windowSz)
      | _ => none
  | ["stt_new"] => let s : State := {}; some ({ c with st := s }, s!"ok {describeState s}")
  | ["stt_ev", name, arg] =>
    match arg.toNat? with
    | none => none
    | some a =>
      let fin := fun (s : State) (r : String) => some ({ c with st := s }, s!"{r} {describeState s}")
      match name with
      | "send_open" => let (s, r) := c.st.sendOpen (a ≠ 0); fin s (userErrDebug r)
      | "recv_open" =>
        let (s, r) := c.st.recvOpen (a % 2 == 1) (a / 2 % 2 == 1)
        fin s (match r with | .ok b => s!"Ok({bstr b})" | .error e => s!"Err({perrShort e})")
      | "reserve_remote" =>
        let (s, r) := c.st.reserveRemote
        fin s (match r with | .ok _ => "Ok(())" | .error e => s!"Err({perrShort e})")
      | "reserve_local" => let (s, r) := c.st.reserveLocal; fin s (userErrDebug r)
      | "recv_close" =>
        let (s, r) := c.st.recvClose
        fin s (match r with | .ok _ => "Ok(())" | .error e => s!"Err({perrShort e})")
      | "recv_reset" => fin (c.st.recvReset 1 CANCEL (a % 2 == 1)) "()"
      | "handle_error" => fin (c.st.handleError (PErr.libraryGoAway PROTOCOL_ERROR)) "()"
      | "recv_eof" => fin c.st.recvEof "()"
      | "send_close" =>
        match c.st.sendClose with
        | some s => fin s "()"
        | none => some (c, "panic")
      | "set_reset" =>
        fin (c.st.setReset 1 CANCEL (match a with | 0 => .user | 1 => .library | _ => .remote)) "()"
      | "set_scheduled_reset" => fin (c.st.setScheduledReset CANCEL) "()"
      | _ => none
  | _ => none

end H2V.Driver
