import H2V.Model.HpackDec
import H2V.Spec.Hpack
import H2V.Spec.HpackSync
import H2V.Model.HpackEnc
/-
  Line-protocol driver, pure-layer commands (Huffman, HPACK integers, HPACK decoder).
  One output line per input line.  Unknown or malformed commands answer `bad-op` (never defaulted).
-/
namespace H2V.Driver
open H2V H2V.Model

structure DState where
  dec : Hpack.Decoder := Hpack.Decoder.new 4096
  decTail : Bytes := []
  decFirst : Bool := true
  spec : Spec.Hpack.St := Spec.Hpack.St.init 4096
  enc : Hpack.Encoder := Hpack.Encoder.new 4096
  mon : Spec.HpackSync.Mon := Spec.HpackSync.Mon.init 4096

def showFields (fs : List Hpack.Header) : String :=
  if fs.isEmpty then "-" else ",".intercalate (fs.map fun (n, v) => Hex.render n ++ ":" ++ Hex.render v)

/-- `hexname:hexvalue:flags` (flags: `-`, `s`, `n`, `sn`), comma separated; `-` = empty list -/
def parseFields (s : String) : Option (List Hpack.Field) :=
  if s == "-" then some []
  else (s.splitOn ",").mapM fun w =>
    match w.splitOn ":" with
    | [n, v, fl] =>
      match Hex.toBytes? n, Hex.toBytes? v with
      | some n, some v => some { h := (n, v), sensitive := fl.contains 's', nameless := fl.contains 'n' }
      | _, _ => none
    | _ => none

def resName : Except Hpack.DErr Unit → String
  | .ok _ => "ok"
  | .error e => e.name

def handleCore (st : DState) (ws : List String) : Option (DState × String) :=
  match ws with
  | ["huff_enc", h] =>
    match Hex.toBytes? h with
    | some bs => some (st, Hex.render (Huffman.encode bs))
    | none => none
  | ["huff_dec", h] =>
    match Hex.toBytes? h with
    | some bs =>
      some (st, match Huffman.decode bs with
        | .ok out => "ok " ++ Hex.render out
        | .err _ => "err InvalidHuffmanCode"
        | .loop => "loop")
    | none => none
  | ["int_dec", p, h] =>
    match p.toNat?, Hex.toBytes? h with
    | some p, some bs =>
      some (st, match Hpack.decodeInt bs p with
        | .ok (v, rest) => s!"ok {v} {rest.length}"
        | .error e => "err " ++ e.name)
    | _, _ => none
  | ["int_enc", v, p, f] =>
    match v.toNat?, p.toNat?, f.toNat? with
    | some v, some p, some f => some (st, Hex.render (Hpack.encodeInt v p f))
    | _, _, _ => none
  | ["dec_new", n] =>
    match n.toNat? with
    | some n => some ({ st with dec := Hpack.Decoder.new n, decTail := [], decFirst := true }, "ok")
    | none => none
  | ["dec_queue", n] =>
    match n.toNat? with
    | some n => some ({ st with dec := st.dec.queueSizeUpdate n }, "ok")
    | none => none
  | ["dec_newblock"] => some ({ st with decTail := [], decFirst := true }, "ok")
  | ["dec_feed", h] =>
    match Hex.toBytes? h with
    | some bs =>
      let d := if st.decFirst then st.dec else st.dec.continueBlock
      let o := d.decode (st.decTail ++ bs)
      some ({ st with dec := o.dec, decTail := o.tail, decFirst := false },
        s!"res={resName o.result} tail={o.tail.length} size={o.dec.table.size} max={o.dec.table.maxSize} n={o.dec.table.entries.length} fields={showFields o.fields}")
    | none => none
  | ["enc_new", n, _cap] =>
    match n.toNat? with
    | some n => some ({ st with enc := Hpack.Encoder.new n }, "ok")
    | none => none
  | ["enc_max", n] =>
    match n.toNat? with
    | some n => some ({ st with enc := st.enc.updateMaxSize n }, "ok")
    | none => none
  | ["enc_block", f] =>
    match parseFields f with
    | some fs =>
      match fs.findSome? (fun fl => match Hpack.mkHeader fl.h.1 fl.h.2 with | .ok _ => none | .error e => some e) with
      | some e => some (st, "err " ++ e.name)
      | none =>
        match st.enc.encode fs with
        | some (e', bytes) =>
          some ({ st with enc := e' }, s!"{Hex.render bytes} size={e'.size} max={e'.maxSize} n={e'.entries.length}")
        | none => some (st, "panic")
    | none => none
  -- monitors: the reference semantics evaluated on what the REAL code emitted
  | ["mon_enc_new", n] =>
    match n.toNat? with
    | some n => some ({ st with mon := Spec.HpackSync.Mon.init n }, "ok")
    | none => none
  | ["mon_enc_max", n] =>
    match n.toNat? with
    | some n => some ({ st with mon := st.mon.setAllowed n }, "ok")
    | none => none
  | ["mon_enc_block", f, h] =>
    match parseFields f, Hex.toBytes? h with
    | some fs, some bytes =>
      match st.mon.block (fs.map (·.h)) bytes with
      | .ok m' => some ({ st with mon := m' }, "ok")
      | .error why => some (st, "FAIL " ++ why)
    | _, _ => none
  -- reference (RFC) semantics: answered by the spec here, by the real code in the harness
  | ["spec_huff_dec", h] =>
    match Hex.toBytes? h with
    | some bs =>
      some (st, match Spec.Huffman.decode bs with
        | some out => "ok " ++ Hex.render out
        | none => "err")
    | none => none
  | ["spec_dec_new", n] =>
    match n.toNat? with
    | some n => some ({ st with spec := Spec.Hpack.St.init n }, "ok")
    | none => none
  | ["spec_dec_queue", n] =>
    match n.toNat? with
    | some n => some ({ st with spec := Spec.Hpack.setLimit st.spec n }, "ok")
    | none => none
  | ["spec_dec_block", h] =>
    match Hex.toBytes? h with
    | some bs =>
      match Spec.Hpack.decode st.spec bs with
      | .ok (fs, sp) =>
        let strict := fs.all fun (n, v) => match Hpack.mkHeader n v with | .ok _ => true | .error _ => false
        some ({ st with spec := sp },
          s!"res=ok strict={if strict then 1 else 0} size={Spec.Hpack.tableSize sp.entries} n={sp.entries.length} fields={showFields fs}")
      | .error e => some (st, s!"res=err reason={e.name}")
    | none => none
  | _ => none

end H2V.Driver
