import H2V.Lemmas.ConnHttpPStill
import H2V.Lemmas.ConnHttpPInner
/-
  C13 (ConnHttpP), part 18 — "the stream (or connection) is failed instead": a stream error raised by the
  receive path either becomes a connection error (too many internal resets) or leaves the stream — as
  long as it exists — in a reset state, from which the application's polls answer the error, never a
  clean end.
-/
namespace H2V.Lemmas.ConnHttpP
open H2V H2V.Model H2V.Model.Conn

theorem stream_of_get?' (s : Streams) (k : Nat) (st : Stream) (h : s.store.get? k = some st) : s.stream k = st := by
  unfold Streams.stream; rw [h]; rfl

theorem setReset_state (st : Stream) (r : Reason) (i : Initiator) :
    (Stream.setReset st r i).1.key = st.key ∧
    (Stream.setReset st r i).1.state = { inner := .closed (.error (.reset st.id r i)) } := by
  have h := KeepsP.comp (KeepsP.comp keepsP_notifySend keepsP_notifyPush) keepsP_notifyRecv
    { st with state := st.state.setReset st.id r i }
  exact ⟨h.1, h.2⟩

/-- the state `send_reset` leaves the stream in, if the stream is still there -/
theorem sendSendReset_state (s : Streams) (k : Nat) (r : Reason) (i : Initiator) (st' : Stream)
    (hg : (s.sendSendReset k r i).store.get? k = some st') :
    ∃ st, s.store.get? k = some st ∧
      st'.state = if st.state.isReset then st.state else { inner := .closed (.error (.reset st.id r i)) } := by
  unfold Streams.sendSendReset at hg
  simp only at hg
  by_cases hr : (s.stream k).state.isReset = true
  · rw [if_pos hr] at hg
    refine ⟨st', hg, ?_⟩
    rw [stream_of_get?' s k st' hg] at hr
    rw [if_pos hr]
  · rw [if_neg hr] at hg
    -- everything behind `set_reset` leaves the state alone
    have hstill : Still (s.modStreamW k fun st => st.setReset r i)
        (if ((s.stream k).state.isClosed && ((s.stream k).pendingSend.isEmpty && (s.stream k).bufferedSendData == 0)) = true
          then (s.modStreamW k fun st => st.setReset r i)
          else
            ((if ((s.modStreamW k fun st => st.setReset r i).stream k).isPendingOpen = true then
                match ((s.modStreamW k fun st => st.setReset r i).stream k).pendingSend.head? with
                | some f =>
                  (((s.modStreamW k fun st => st.setReset r i).modStream k fun st =>
                    { st with pendingSend := st.pendingSend.drop 1 }).clearQueue k).modStream k
                      fun st => { st with pendingSend := st.pendingSend ++ [f] }
                | none => ((s.modStreamW k fun st => st.setReset r i).modStream k fun st =>
                    { st with pendingSend := st.pendingSend.drop 1 }).clearQueue k
              else (s.modStreamW k fun st => st.setReset r i).clearQueue k).queueFrame k (.reset r)).reclaimAllCapacity k) := by
      generalize (s.modStreamW k fun st => st.setReset r i) = s1
      have h0 := Still.refl s1
      still
    obtain ⟨st1, g1, e1⟩ := hstill k st' hg
    rw [get?_modStreamW s k _ (fun st => (setReset_state st r i).1), if_pos rfl] at g1
    cases hs : s.store.get? k with
    | none => rw [hs] at g1; cases g1
    | some st =>
      rw [hs] at g1
      simp only [Option.map_some, Option.some.injEq] at g1
      subst g1
      refine ⟨st, rfl, ?_⟩
      rw [stream_of_get?' s k st hs] at hr
      rw [if_neg hr, e1, (setReset_state st r i).2]


/-- a stream that was reset because of what the peer sent (or is in any other reset state) -/
def Failed (st : Stream) (reason : Reason) (init : Initiator) (st' : Stream) : Prop :=
  st'.state = if st.state.isReset then st.state else { inner := .closed (.error (.reset st.id reason init)) }

theorem Failed.isReset {st st' : Stream} {r : Reason} {i : Initiator} (h : Failed st r i st') :
    st'.state.isReset = true := by
  unfold Failed at h
  split at h
  · rename_i hr; rw [h]; exact hr
  · rw [h]; rfl

/-- **`Actions::reset_on_recv_stream_err` on a stream error**: either the connection is failed
    (ENHANCE_YOUR_CALM, too many internal resets), or the answer is `Ok` and the stream — if it is
    still in the store — is `Failed` -/
theorem resetOnRecvStreamErr_fails (s : Streams) (k id' : Nat) (reason : Reason) (init : Initiator) :
    (s.resetOnRecvStreamErr k (.error (.reset id' reason init))).2 =
        .error (PErr.libraryGoAwayData ENHANCE_YOUR_CALM "too_many_internal_resets") ∨
    ((s.resetOnRecvStreamErr k (.error (.reset id' reason init))).2 = .ok () ∧
      ∀ st', (s.resetOnRecvStreamErr k (.error (.reset id' reason init))).1.store.get? k = some st' →
        ∃ st, s.store.get? k = some st ∧ Failed st reason init st') := by
  unfold Streams.resetOnRecvStreamErr
  simp only
  split
  · refine Or.inr ⟨rfl, fun st' hg => ?_⟩
    simp only at hg
    have h1 : Still ((s.modCountsA "can_inc_num_local_error_resets" Counts.incNumLocalErrorResets).sendSendReset k reason init)
        ((((s.modCountsA "can_inc_num_local_error_resets" Counts.incNumLocalErrorResets).sendSendReset k reason init
          ).enqueueResetExpiration k).modStreamW k Stream.notifyRecv) := by
      have h0 := Still.refl ((s.modCountsA "can_inc_num_local_error_resets" Counts.incNumLocalErrorResets).sendSendReset k reason init)
      generalize ((s.modCountsA "can_inc_num_local_error_resets" Counts.incNumLocalErrorResets).sendSendReset k reason init) = s2 at h0 ⊢
      still
    obtain ⟨st1, g1, e1⟩ := h1 k st' hg
    obtain ⟨st, g0, e0⟩ := sendSendReset_state _ k reason init st1 g1
    have h2 : Still s (s.modCountsA "can_inc_num_local_error_resets" Counts.incNumLocalErrorResets) :=
      (Still.refl s).modCountsA _ _
    obtain ⟨st0, g00, e00⟩ := h2 k st g0
    have hslab : (s.modCountsA "can_inc_num_local_error_resets" Counts.incNumLocalErrorResets).store.get? k = s.store.get? k := by
      unfold Streams.modCountsA
      split
      · rfl
      · rw [panic_store]
    rw [hslab] at g0
    exact ⟨st, g0, by unfold Failed; rw [e1, e0]⟩
  · exact Or.inl rfl

/-! ### what the application's polls answer on a failed stream -/

/-- on a stream in state `Closed(Error(e))` with an empty receive queue, `poll_data`, `poll_trailers`
    and `poll_response` all answer the error `e` — never "end of stream" -/
theorem polls_answer_error (s : Streams) (k : Nat) (tag : String) (e : PErr) (fuel : Nat)
    (hst : (s.stream k).state.inner = .closed (.error e)) (hq : (s.stream k).pendingRecv = []) :
    (∃ s', s.recvPollData k tag = (s', .err e)) ∧ (∃ s', s.recvPollTrailers k tag = (s', .err e)) ∧
    (∃ s', Streams.recvPollResponse (fuel + 1) s k tag = (s', .err e)) := by
  have hopen : (s.stream k).state.ensureRecvOpen = .error e := by
    unfold State.ensureRecvOpen; rw [hst]
  refine ⟨?_, ?_, ?_⟩
  · unfold Streams.recvPollData Streams.scheduleRecv
    simp only [hq, hopen]
    exact ⟨_, rfl⟩
  · unfold Streams.recvPollTrailers Streams.scheduleRecv
    simp only [hq, hopen]
    exact ⟨_, rfl⟩
  · unfold Streams.recvPollResponse
    simp only [hq, hopen]
    exact ⟨_, rfl⟩


theorem recvOpen_err (st : State) (eos inf : Bool) (st' : State) (e : PErr) (h : st.recvOpen eos inf = (st', .error e)) :
    e = PErr.libraryGoAway PROTOCOL_ERROR := by
  unfold State.recvOpen at h
  simp only at h
  repeat' split at h
  all_goals first | (cases h; rfl) | cases h

theorem rhCl_err (s : Streams) (k : Nat) (h : HeadersIn) (e : PErr) (hr : (rhCl s k h).2 = some e) :
    ∃ i, e = PErr.libraryReset i PROTOCOL_ERROR := by
  generalize hx : rhCl s k h = x at hr
  unfold rhCl at hx
  repeat' split at hx
  all_goals subst hx
  all_goals first | (cases hr; exact ⟨_, rfl⟩) | cases hr

theorem rhTail_err (s : Streams) (k : Nat) (h : HeadersIn) (i : Bool) (e : PErr) (hr : (rhTail s k h i).2 = .state e) :
    ∃ j, e = PErr.libraryReset j PROTOCOL_ERROR := by
  generalize hx : rhTail s k h i = x at hr
  unfold rhTail at hx
  simp only at hx
  repeat' split at hx
  all_goals subst hx
  all_goals first | (cases hr; exact ⟨_, rfl⟩) | cases hr

/-- **how `Recv::recv_headers` refuses**: a connection error PROTOCOL_ERROR (the frame does not fit the
    stream's state), a stream error PROTOCOL_ERROR, or — a pushed response arriving when the
    receive-stream limit has been reached meanwhile — a stream error REFUSED_STREAM; nothing else -/
theorem recvRecvHeaders_refusals (s : Streams) (k : Nat) (h : HeadersIn) (e : PErr)
    (hr : (s.recvRecvHeaders k h).2 = .state e) :
    e = PErr.libraryGoAway PROTOCOL_ERROR ∨ (∃ i, e = PErr.libraryReset i PROTOCOL_ERROR) ∨
    (∃ i, e = PErr.libraryReset i REFUSED_STREAM) := by
  rw [recvRecvHeaders_eq] at hr
  split at hr
  · rename_i st' e' heq
    cases hr
    exact Or.inl (recvOpen_err _ _ _ _ _ heq)
  · rename_i st' i heq
    split at hr
    · cases hr
      exact Or.inr (Or.inr ⟨_, rfl⟩)
    · have hc := rhCl_err (rhPre s k h st' i) k h
      generalize rhCl (rhPre s k h st' i) k h = c at hc hr
      obtain ⟨s2, o⟩ := c
      cases o with
      | some e' =>
        simp only at hr
        cases hr
        exact Or.inr (Or.inl (hc e rfl))
      | none => exact Or.inr (Or.inl (rhTail_err s2 k h i e hr))

/-- every refusal of a MALFORMED head is PROTOCOL_ERROR: REFUSED_STREAM only comes from the concurrency
    limit (`rhRefuse`), before the head is looked at -/
theorem recvRecvHeaders_refused_stream (s : Streams) (k : Nat) (h : HeadersIn) (i : Nat)
    (hr : (s.recvRecvHeaders k h).2 = .state (PErr.libraryReset i REFUSED_STREAM)) :
    ∃ st' ini, (s.stream k).state.recvOpen h.eos h.isInformational = (st', .ok ini) ∧ rhRefuse s k st' ini = true := by
  rw [recvRecvHeaders_eq] at hr
  split at hr
  · rename_i st' e' heq
    cases hr
    have := recvOpen_err _ _ _ _ _ heq
    cases this
  · rename_i st' ini heq
    split at hr
    · rename_i hrf; exact ⟨st', ini, heq, hrf⟩
    · exfalso
      have hc := rhCl_err (rhPre s k h st' ini) k h
      generalize rhCl (rhPre s k h st' ini) k h = c at hc hr
      obtain ⟨s2, o⟩ := c
      cases o with
      | some e' =>
        simp only at hr
        cases hr
        obtain ⟨j, hj⟩ := hc _ rfl
        cases hj
      | none =>
        obtain ⟨j, hj⟩ := rhTail_err s2 k h ini _ hr
        cases hj

/-- the outcome "connection failed, or `Ok` with the stream failed (if still there)" -/
def FailsStream (s1 : Streams) (k : Nat) (reason : Reason) (init : Initiator) (r : Streams × Except PErr Unit) : Prop :=
  r.2 = .error (PErr.libraryGoAwayData ENHANCE_YOUR_CALM "too_many_internal_resets") ∨
  (r.2 = .ok () ∧ ∀ st', r.1.store.get? k = some st' → ∃ st, s1.store.get? k = some st ∧ Failed st reason init st')

theorem reset_then_transitionAfter (s1 : Streams) (k id' : Nat) (reason : Reason) (init : Initiator) (b : Bool) :
    FailsStream s1 k reason init
      (((s1.resetOnRecvStreamErr k (.error (.reset id' reason init))).1.transitionAfter k b),
       (s1.resetOnRecvStreamErr k (.error (.reset id' reason init))).2) := by
  rcases resetOnRecvStreamErr_fails s1 k id' reason init with h | ⟨h1, h2⟩
  · exact Or.inl h
  · refine Or.inr ⟨h1, fun st' hg => ?_⟩
    obtain ⟨st1, g1, e1⟩ := ((Still.refl _).transitionAfter k b) k st' hg
    obtain ⟨st, g0, f0⟩ := h2 st1 g1
    exact ⟨st, g0, by unfold Failed at f0 ⊢; rw [e1]; exact f0⟩

/-- **a head that `Recv::recv_headers` refuses with a stream error fails the stream (or the
    connection)** — `Inner::recv_headers`' transition closure, every state -/
theorem refused_head_fails (s : Streams) (k : Nat) (h : HeadersIn) (i : Nat) (reason : Reason) (init : Initiator)
    (hrh : (s.stream k).state.isRecvHeaders = true)
    (hr : (s.recvRecvHeaders k h).2 = .state (.reset i reason init)) :
    FailsStream (s.recvRecvHeaders k h).1 k reason init (s.transition k fun s => rhBody s k h) := by
  unfold Streams.transition rhBody
  simp only [hrh, Bool.not_true, Bool.false_and, Bool.false_eq_true, if_false, if_true]
  generalize s.recvRecvHeaders k h = r at hr ⊢
  obtain ⟨s1, res⟩ := r
  simp only at hr
  subst hr
  exact reset_then_transitionAfter s1 k i reason init _

/-- … and so do trailers refused with a stream error (content-length not used up) -/
theorem refused_trailers_fail (s : Streams) (k : Nat) (h : HeadersIn) (i : Nat) (reason : Reason) (init : Initiator)
    (hrh : (s.stream k).state.isRecvHeaders = false) (heos : h.eos = true)
    (hr : (s.recvRecvTrailers k h).2 = .error (.reset i reason init)) :
    FailsStream (s.recvRecvTrailers k h).1 k reason init (s.transition k fun s => rhBody s k h) := by
  unfold Streams.transition rhBody
  simp only [hrh, heos, Bool.not_false, Bool.not_true, Bool.and_false, Bool.false_eq_true, if_false]
  generalize s.recvRecvTrailers k h = r at hr ⊢
  obtain ⟨s1, res⟩ := r
  simp only at hr
  subst hr
  exact reset_then_transitionAfter s1 k i reason init _


/-- **reported as an error, not as a clean end**: once a stream that was not already reset is `Failed`
    and its receive queue is drained, every poll of the application answers the reset error -/
theorem failed_polls (s : Streams) (k : Nat) (tag : String) (fuel : Nat) (st : Stream) (reason : Reason)
    (init : Initiator) (hf : Failed st reason init (s.stream k)) (hnr : st.state.isReset = false)
    (hq : (s.stream k).pendingRecv = []) :
    (∃ s', s.recvPollData k tag = (s', .err (.reset st.id reason init))) ∧
    (∃ s', s.recvPollTrailers k tag = (s', .err (.reset st.id reason init))) ∧
    (∃ s', Streams.recvPollResponse (fuel + 1) s k tag = (s', .err (.reset st.id reason init))) := by
  unfold Failed at hf
  rw [hnr] at hf
  simp only [Bool.false_eq_true, if_false] at hf
  exact polls_answer_error s k tag _ fuel (by rw [hf]) hq

end H2V.Lemmas.ConnHttpP
