import H2V.Lemmas.ConnNoPanicPAccRecv
import H2V.Lemmas.ConnNoPanicPHist
/-
  C08 (no panic) — the server accept path, part 4: `AL` for the handle functions of streams.rs that
  neither create nor release a stream, for `reset_on_recv_stream_err` and for the closures of the frame
  entry points that do not belong to the accept path.
-/
namespace H2V.Lemmas.ConnNoPanicP
open H2V H2V.Model H2V.Model.Conn H2V.Lemmas.ConnCountsP
attribute [local irreducible] wrapSubU32 wrapSubUsize

theorem maybeCancel_al (s : Streams) (k : Nat) : AL [] s (s.maybeCancel k) := by
  unfold Streams.maybeCancel; al_auto
theorem refReserveCapacity_al (s : Streams) (k c : Nat) : AL [] s (s.refReserveCapacity k c) := by
  unfold Streams.refReserveCapacity; al_auto
theorem refReleaseCapacity_al (s : Streams) (k c : Nat) : AL [] s (s.refReleaseCapacity k c).1 := by
  unfold Streams.refReleaseCapacity; al_auto
theorem refClearRecvBuffer_al (s : Streams) (k : Nat) : AL [k] s (s.refClearRecvBuffer k) := by
  unfold Streams.refClearRecvBuffer; al_auto
theorem pollPendingOpen_al (s : Streams) (p : Option Nat) (t : String) : AL [] s (s.pollPendingOpen p t).1 := by
  unfold Streams.pollPendingOpen; al_auto
theorem cloneHandle_al (s : Streams) : AL [] s s.cloneHandle := by
  unfold Streams.cloneHandle; al_auto
theorem dropHandle_al (s : Streams) : AL [] s s.dropHandle := by
  unfold Streams.dropHandle; al_auto
theorem refPollData_al (s : Streams) (k : Nat) (t : String) : AL [k] s (s.refPollData k t).1 := by
  unfold Streams.refPollData
  split
  · next s1 payload budgeted heq =>
    have h1 : AL [k] s s1 := AL.of_fst_eq heq (recvPollData_al s k t)
    al_auto
  · exact recvPollData_al s k t

/-- not an error `Reset(_, _, Initiator::Remote)` -/
def NotRemote (res : Except PErr Unit) : Prop := ∀ e, res = .error e → NotRR e

theorem resetOnRecvStreamErr_al (s : Streams) (k : Nat) (res : Except PErr Unit) (hr : NotRemote res) :
    AL [] s (s.resetOnRecvStreamErr k res).1 := by
  unfold Streams.resetOnRecvStreamErr
  split
  · next id reason init =>
    have hi : init ≠ .remote := fun e => hr _ rfl id reason (by rw [e])
    al_auto
  · exact .refl _ _

theorem notRemote_ok (u : Unit) : NotRemote (.ok u) := fun _ h => by cases h
theorem notRemote_lib (id : Nat) (r : Reason) : NotRemote (.error (PErr.libraryReset id r)) :=
  fun _ h => by cases h; exact notRR_reset _ _ (by decide)
theorem notRemote_goAway (r : Reason) : NotRemote (.error (PErr.libraryGoAway r)) :=
  fun _ h => by cases h; exact notRR_goAway _ _ _
theorem notRemote_goAwayData (r : Reason) (d : String) : NotRemote (.error (PErr.libraryGoAwayData r d)) :=
  fun _ h => by cases h; exact notRR_goAway _ _ _

/-- the closure of `Actions::send_reset` -/
theorem actionsSendResetClosure_al (k : Nat) (reason : Reason) (init : Initiator) (hi : init ≠ .remote) (s : Streams) :
    AL [] s (actionsSendResetClosure k reason init s).1 := by
  unfold actionsSendResetClosure
  al_auto

end H2V.Lemmas.ConnNoPanicP
