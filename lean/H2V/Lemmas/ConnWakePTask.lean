import H2V.Lemmas.ConnWakePPoll
/-
  ConnWakeP, part 7 — C06 (4): the connection task is woken whenever a handle gives it work.
  `TaskWoken s s'`: the connection task's slot (`Actions.task`) is empty in `s'` and the tag that
  was parked in `s` (if any) was written to the wake log between `s` and `s'`.
  For every handle operation that schedules a stream for sending, makes a window update due, or
  drops the last handle, the lemma states the exact condition under which there is new work and
  proves `TaskWoken` under it.
-/
namespace H2V.Lemmas.ConnWakeP
open H2V H2V.Model H2V.Model.Conn

def TaskWoken (s s' : Streams) : Prop :=
  s'.actions.task = none ∧ ∀ t, s.actions.task = some t → t ∈ newWakes s s'

theorem notifyTask_woken (s : Streams) : TaskWoken s s.notifyTask := by
  unfold Streams.notifyTask
  split
  · next t ht => exact ⟨rfl, fun t' ht' => by rw [ht] at ht'; cases ht'; simp [newWakes]⟩
  · next ht => exact ⟨ht, fun t' ht' => by rw [ht] at ht'; cases ht'⟩

/-- steps before the wake … -/
theorem TaskWoken.after {s s1 s2 : Streams} (h1 : Step none s s1) (h2 : TaskWoken s1 s2) (hw : s1.wakes <+: s2.wakes) :
    TaskWoken s s2 := by
  refine ⟨h2.1, fun t ht => ?_⟩
  rw [newWakes_trans h1.wakes hw]
  rcases h1.task with e | ⟨_, e⟩
  · exact List.mem_append_right _ (h2.2 t (e ▸ ht))
  · rcases e t ht with e | e
    · exact List.mem_append_left _ e
    · cases e

/-- … and after it -/
theorem TaskWoken.before {s s1 s2 : Streams} (h1 : TaskWoken s s1) (hw : s.wakes <+: s1.wakes) (h2 : Step none s1 s2) :
    TaskWoken s s2 := by
  have hn : s2.actions.task = none := by
    rcases h2.task with e | ⟨e, _⟩
    · rw [e, h1.1]
    · simpa using e
  refine ⟨hn, fun t ht => ?_⟩
  rw [newWakes_trans hw h2.wakes]
  exact List.mem_append_left _ (h1.2 t ht)

theorem TaskWoken.step_notify {s s1 : Streams} (h1 : Step none s s1) : TaskWoken s s1.notifyTask :=
  .after h1 (notifyTask_woken s1) (notifyTask_step none s1).wakes

theorem TaskWoken.step_notify_step {s s1 s2 : Streams} (h1 : Step none s s1) (h2 : Step none s1.notifyTask s2) :
    TaskWoken s s2 :=
  (TaskWoken.step_notify h1).before (h1.wakes.trans (notifyTask_step none s1).wakes) h2

-- ===================================================================== scheduling a stream

/-- `schedule_send` on a stream that may send (not waiting in `pending_open`, not an unannounced
    pushed stream) wakes the connection task -/
theorem scheduleSend_woken {s : Streams} {k : Nat} (h : (s.stream k).isSendReady = true) :
    TaskWoken s (s.scheduleSend k) := by
  unfold Streams.scheduleSend
  rw [if_pos h]
  exact .step_notify (qPush_acc _ _ (Step.refl _ _))

theorem isSendReady_modStream {s : Streams} {k : Nat} (f : Stream → Stream)
    (hf : ∀ a, (f a).key = a.key ∧ (f a).isPendingOpen = a.isPendingOpen ∧ (f a).isPendingPush = a.isPendingPush) :
    ((s.modStream k f).stream k).isSendReady = (s.stream k).isSendReady := by
  cases ha : s.store.get? k with
  | none =>
    have : (s.modStream k f).stream k = s.stream k := by
      simp only [Streams.modStream, ha]; unfold Streams.panic; split <;> rfl
    rw [this]
  | some a =>
    rw [stream_modStream_same f ha (hf a).1, stream_eq_of_get? ha]
    simp [Stream.isSendReady, (hf a).2.1, (hf a).2.2]

/-- `queue_frame` (HEADERS, DATA with capacity, RST_STREAM, PUSH_PROMISE, trailers) on a stream that
    may send wakes the connection task -/
theorem queueFrame_woken {s : Streams} {k : Nat} (f : SFrame) (h : (s.stream k).isSendReady = true) :
    TaskWoken s (s.queueFrame k f) := by
  unfold Streams.queueFrame
  refine .after (modStream_acc k _ (sstep_of_inert _ (by inert)) (Step.refl _ _)) (scheduleSend_woken ?_)
    (scheduleSend_acc (cx := none) k (Step.refl _ _)).wakes
  rw [isSendReady_modStream (fun st => { st with pendingSend := st.pendingSend ++ [f] }) fun a => ⟨rfl, rfl, rfl⟩]
  exact h

theorem stream_modStreamW_same {s : Streams} {k : Nat} {a : Stream} (f : Stream → Stream × List String)
    (ha : s.store.get? k = some a) (hk : (f a).1.key = a.key) : (s.modStreamW k f).stream k = (f a).1 := by
  have hak : a.key = k := Store.get?_key ha
  simp only [Streams.modStreamW, ha, Streams.stream, Streams.setStream, Streams.wake, Store.get?_set, hk, hak, if_true,
    Option.map_some, Option.getD_some]

theorem isSendReady_modStreamW {s : Streams} {k : Nat} (f : Stream → Stream × List String)
    (hf : ∀ a, (f a).1.key = a.key ∧ (f a).1.isPendingOpen = a.isPendingOpen ∧ (f a).1.isPendingPush = a.isPendingPush) :
    ((s.modStreamW k f).stream k).isSendReady = (s.stream k).isSendReady := by
  cases ha : s.store.get? k with
  | none =>
    have : (s.modStreamW k f).stream k = s.stream k := by
      simp only [Streams.modStreamW, ha]; unfold Streams.panic; split <;> rfl
    rw [this]
  | some a =>
    rw [stream_modStreamW_same f ha (hf a).1, stream_eq_of_get? ha]
    simp [Stream.isSendReady, (hf a).2.1, (hf a).2.2]

theorem setReset_flags (a : Stream) (r : Reason) (i : Initiator) :
    (a.setReset r i).1.key = a.key ∧ (a.setReset r i).1.isPendingOpen = a.isPendingOpen ∧
    (a.setReset r i).1.isPendingPush = a.isPendingPush := by
  unfold Stream.setReset Stream.notifySend Stream.notifyPush Stream.notifyRecv
  cases a.sendTask <;> cases a.openTask <;> cases a.recvTask <;> cases a.pushTask <;> simp

theorem modPrio_stream (s : Streams) (f : Prioritize → Prioritize) (k : Nat) : (s.modPrio f).stream k = s.stream k := rfl

theorem clearQueue_isSendReady (s : Streams) (k : Nat) : ((s.clearQueue k).stream k).isSendReady = (s.stream k).isSendReady := by
  unfold Streams.clearQueue
  have := isSendReady_modStream (s := s) (k := k)
    (fun st => { st with pendingSend := [], bufferedSendData := 0, requestedSendCapacity := 0 }) fun a => ⟨rfl, rfl, rfl⟩
  simp only
  split
  · split
    · rw [modPrio_stream]; exact this
    · exact this
  · exact this

/-- `send_reset` (from a handle or from the library) that has something to tell the peer — the stream
    was not reset already and is not both closed and flushed — wakes the connection task, provided the
    stream may send -/
theorem sendSendReset_woken {s : Streams} {k : Nat} (r : Reason) (i : Initiator)
    (h1 : (s.stream k).state.isReset = false)
    (h2 : ((s.stream k).state.isClosed && ((s.stream k).pendingSend.isEmpty && (s.stream k).bufferedSendData == 0)) = false)
    (h3 : (s.stream k).isSendReady = true) : TaskWoken s (s.sendSendReset k r i) := by
  unfold Streams.sendSendReset
  simp only [h1, h2, Bool.false_eq_true, if_false]
  have hr : ((s.modStreamW k fun st => st.setReset r i).stream k).isSendReady = true := by
    rw [isSendReady_modStreamW _ fun a => setReset_flags a r i]; exact h3
  have hpo : ((s.modStreamW k fun st => st.setReset r i).stream k).isPendingOpen = false := by
    simp [Stream.isSendReady] at hr; exact hr.1
  simp only [hpo, Bool.false_eq_true, if_false]
  have hs1 : Step none s ((s.modStreamW k fun st => st.setReset r i).clearQueue k) := by
    step_grind
  refine TaskWoken.before (TaskWoken.after hs1 (queueFrame_woken _ ?_) (queueFrame_acc (cx := none) k _ (Step.refl _ _)).wakes)
    (hs1.wakes.trans (queueFrame_acc (cx := none) k _ (Step.refl _ _)).wakes) (reclaimAllCapacity_acc k (Step.refl _ _))
  rw [clearQueue_isSendReady]; exact hr

/-- `SendStream::send_reset` / `SendResponse::send_reset` -/
theorem refSendReset_woken {s : Streams} {k : Nat} (r : Reason)
    (h1 : (s.stream k).state.isReset = false)
    (h2 : ((s.stream k).state.isClosed && ((s.stream k).pendingSend.isEmpty && (s.stream k).bufferedSendData == 0)) = false)
    (h3 : (s.stream k).isSendReady = true) : TaskWoken s (s.refSendReset k r) := by
  have hw := sendSendReset_woken r .user h1 h2 h3
  have hs := sendSendReset_acc (cx := none) k r .user (Step.refl none s)
  have key : TaskWoken s (s.actionsSendReset k r .user).1 := by
    unfold Streams.actionsSendReset Streams.transition
    simp only [Initiator.isLibrary, Bool.false_eq_true, if_false]
    refine TaskWoken.before hw hs.wakes ?_
    step_grind
  unfold Streams.refSendReset
  split
  · next s1 _ heq => rw [heq] at key; exact key
  · next s1 _ heq =>
    rw [heq] at key
    exact key.before ((actionsSendReset_acc (cx := none) k r .user (Step.refl _ _)).of_fst heq).wakes (panic_step _ _ _)

/-- `SendStream::reserve_capacity` with a smaller value (capacity is given back and handed to the
    streams waiting for it, which are scheduled): the connection task is woken.
    (Before fix 6a8a003 it was not: the lost wake-up found with this model.) -/
theorem refReserveCapacity_woken {s : Streams} {k c : Nat}
    (h : ((s.reserveCapacity k c).stream k).requestedSendCapacity < (s.stream k).requestedSendCapacity) :
    TaskWoken s (s.refReserveCapacity k c) := by
  unfold Streams.refReserveCapacity
  simp only [h, if_true]
  exact .step_notify (reserveCapacity_acc k c (Step.refl _ _))

/-- `release_capacity` that makes a connection-level WINDOW_UPDATE due wakes the connection task -/
theorem releaseConnectionCapacity_woken {s : Streams} {c : Nat}
    (h : (s.modRecv fun r => { r with inFlightData := wrapSubU32 r.inFlightData c, flow := (r.flow.assignCapacity c).1 }).recv.flow.unclaimedCapacity.isSome = true) :
    TaskWoken s (s.releaseConnectionCapacity c true) := by
  unfold Streams.releaseConnectionCapacity
  simp only [h, Bool.and_self, if_true]
  exact .step_notify (modRecv_acc _ (Step.refl _ _))

/-- `FlowControl::release_capacity` (the handle): when the released octets make a stream-level
    WINDOW_UPDATE due the stream is queued in `pending_window_updates` and the connection task is woken -/
theorem refReleaseCapacity_woken {s : Streams} {k c : Nat}
    (hc : ¬ c > (s.stream k).inFlightRecvData)
    (h : (((s.releaseConnectionCapacity c true).modStream k fun st => { st with inFlightRecvData := wrapSubU32 st.inFlightRecvData c, recvFlow := (st.recvFlow.assignCapacity c).1 }).stream k).recvFlow.unclaimedCapacity.isSome = true) :
    TaskWoken s (s.refReleaseCapacity k c).1 := by
  unfold Streams.refReleaseCapacity Streams.releaseCapacity
  simp only [hc, if_false, h, if_true]
  refine .step_notify ?_
  step_grind

/-- `Drop for Streams` (a `SendRequest` clone, …): when only the connection's own handle is left the
    connection task is woken (it may have to shut down) -/
theorem dropHandle_woken {s : Streams} (h : s.refs = 2) : TaskWoken s s.dropHandle := by
  unfold Streams.dropHandle
  simp only [h]
  exact .step_notify (setRefs_acc _ (Step.refl _ _))

theorem notifyTask_recv (s : Streams) : s.notifyTask.recv = s.recv := by
  unfold Streams.notifyTask; split <;> rfl

/-- `Connection::set_target_window_size` that makes a connection WINDOW_UPDATE due -/
theorem setTargetConnectionWindow_woken {s : Streams} {t : Nat}
    (hok : (s.setTargetConnectionWindow t).2 = .ok ()) (hp : (s.setTargetConnectionWindow t).1.panicked = none)
    (hu : (s.setTargetConnectionWindow t).1.recv.flow.unclaimedCapacity.isSome = true) :
    TaskWoken s (s.setTargetConnectionWindow t).1 := by
  unfold Streams.setTargetConnectionWindow at hok hp hu ⊢
  cases hadd : s.recv.flow.available.add s.recv.inFlightData with
  | error e => simp [hadd] at hok
  | ok w =>
    simp only [hadd] at hok hp hu ⊢
    cases hcs : w.checkedSize with
    | none =>
      simp only [hcs] at hp
      unfold Streams.panic at hp
      split at hp
      · next hh => rw [hh] at hp; cases hp
      · cases hp
    | some cur =>
      simp only [hcs] at hok hp hu ⊢
      rcases hfl : (if t > cur then s.recv.flow.assignCapacity (t - cur) else s.recv.flow.claimCapacity (cur - t)) with ⟨fl, r⟩
      simp only [hfl] at hok hp hu ⊢
      cases r with
      | error e => simp at hok
      | ok u =>
        simp only at hok hp hu ⊢
        split
        · exact .step_notify (modRecv_acc _ (Step.refl _ _))
        · next hn => simp only [hn, Bool.false_eq_true, if_false] at hu

/-- `send_headers` (request head, response head): the connection task is woken — explicitly when the
    stream has to wait in `pending_open`, through `schedule_send` otherwise -/
theorem sendHeaders_woken {s : Streams} {k : Nat} {eos : Bool} {f : List Hpack.Field}
    (hok : (s.sendHeaders k eos f).2 = .ok ()) (hr : (s.stream k).isSendReady = true) :
    TaskWoken s (s.sendHeaders k eos f).1 := by
  unfold Streams.sendHeaders at hok ⊢
  cases hc : Streams.checkHeaders f with
  | error e => simp [hc] at hok
  | ok u =>
    simp only [hc] at hok ⊢
    rcases hso : (s.stream k).state.sendOpen eos with ⟨st', r⟩
    cases r with
    | error e => simp [hso] at hok
    | ok u =>
      simp only [hso] at hok ⊢
      have h1 : Step none s (s.modStream k fun st => { st with state := st' }) := by
        have : st' = ((s.stream k).state.sendOpen eos).1 := by rw [hso]
        subst this; step_grind
      have hr1 : ((s.modStream k fun st => { st with state := st' }).stream k).isSendReady = true := by
        rw [isSendReady_modStream (fun st => { st with state := st' }) fun a => ⟨rfl, rfl, rfl⟩]; exact hr
      split
      · exact .step_notify (queueFrame_acc _ _ (queueOpen_acc _ h1))
      · next hpo =>
        try simp only [hpo, Bool.false_eq_true, if_false]
        exact .after h1 (queueFrame_woken _ hr1) (queueFrame_acc (cx := none) k _ (Step.refl _ _)).wakes

/-- `send_trailers` -/
theorem sendTrailers_woken {s : Streams} {k : Nat} {f : List Hpack.Field}
    (hok : (s.sendTrailers k f).2 = .ok ()) (hr : (s.stream k).isSendReady = true) :
    TaskWoken s (s.sendTrailers k f).1 := by
  unfold Streams.sendTrailers at hok ⊢
  cases hc : Streams.checkHeaders f with
  | error e => simp [hc] at hok
  | ok u =>
    simp only [hc] at hok ⊢
    split
    · next hn => simp [hn] at hok
    · next hss =>
      simp only
      have h1 : Step none s (match (s.stream k).state.sendClose with
          | some st' => s.modStream k fun st => { st with state := st' }
          | none => s.panic "send_close: unexpected state") := by step_grind
      have hr1 : ((match (s.stream k).state.sendClose with
          | some st' => s.modStream k fun st => { st with state := st' }
          | none => s.panic "send_close: unexpected state").stream k).isSendReady = true := by
        split
        · next st' _ => rw [isSendReady_modStream (fun st => { st with state := st' }) fun a => ⟨rfl, rfl, rfl⟩]; exact hr
        · have : ∀ m, (s.panic m).stream k = s.stream k := by intro m; unfold Streams.panic; split <;> rfl
          rw [this]; exact hr
      exact (TaskWoken.after h1 (queueFrame_woken _ hr1) (queueFrame_acc (cx := none) k _ (Step.refl _ _)).wakes).before
        (h1.wakes.trans (queueFrame_acc (cx := none) k _ (Step.refl _ _)).wakes) (reserveCapacity_acc k 0 (Step.refl _ _))

theorem KeysBounded.fresh {st : Store} (h : KeysBounded st) : st.get? st.nextKey = none := by
  cases hg : st.get? st.nextKey with
  | none => rfl
  | some a => exact absurd (h.get? hg) (Nat.lt_irrefl _)

theorem panic_store (s : Streams) (m : String) : (s.panic m).store = s.store := by
  unfold Streams.panic; split <;> rfl

/-- the `pending` stream of the `SendRequest` only matters for the "rejected" answer -/
theorem sendRequest_ok_none {s s' : Streams} {b : Bool} {f : List Hpack.Field} {eos : Bool} {p : Option Nat} {r : Nat × Bool}
    (h : s.sendRequest b f eos p = (s', .ok r)) : s.sendRequest b f eos none = (s', .ok r) := by
  rcases p with _ | q
  · exact h
  · unfold Streams.sendRequest at h ⊢
    cases hq : (s.stream q).isPendingOpen with
    | false => simpa [hq] using h
    | true =>
      simp only [hq, if_true] at h
      split at h
      · cases h
      · split at h <;> cases h

/-- `SendRequest::send_request` that succeeds wakes the connection task (the new stream is either
    queued in `pending_open` — explicit wake — or scheduled for sending) -/
theorem sendRequest_woken {s s' : Streams} {b : Bool} {f : List Hpack.Field} {eos : Bool} {p : Option Nat} {r : Nat × Bool}
    (hb : KeysBounded s.store) (h : s.sendRequest b f eos p = (s', .ok r)) : TaskWoken s s' := by
  replace h := sendRequest_ok_none h
  unfold Streams.sendRequest at h
  cases hce : s.ensureNoConnError with
  | error e => simp [hce] at h
  | ok u =>
  cases hnx : s.actions.send.nextStreamId.isNone with
  | true => simp [hce, hnx] at h
  | false =>
  simp only [hce, hnx, Bool.false_eq_true, if_false] at h
  cases hsv : s.counts.isServer with
    | true => simp [hsv] at h
    | false =>
    rcases hso : s.sendOpenId with ⟨s1, e | id⟩
    · simp [hsv, hso] at h
    · simp only [hsv, hso, Bool.false_eq_true, if_false] at h
      have h1 : Step none s s1 := (sendOpenId_acc (Step.refl _ _)).of_fst hso
      -- the state just before `send_headers`
      generalize hst : (if b = true then { Stream.new id s1.actions.send.initWindowSz s1.recv.initWindowSz with contentLength := ContentLength.head }
          else Stream.new id s1.actions.send.initWindowSz s1.recv.initWindowSz) = st at h
      generalize hs2 : (if s1.store.contains id = true then s1.panic "assertion failed: self.ids.insert(id, index).is_none()" else s1) = s2 at h
      have h2 : Step none s s2 := by subst hs2; step_grind
      have hb2 : KeysBounded s2.store := h2.bounded hb
      have hflags : st.isPendingOpen = false ∧ st.isPendingPush = false := by
        subst hst; split <;> exact ⟨rfl, rfl⟩
      have hready : (({ s2 with store := (s2.store.insert st).1 } : Streams).stream s2.store.nextKey).isSendReady = true := by
        simp only [Streams.stream, Store.get?_insert, hb2.fresh, if_true, Option.getD_some,
          Stream.isSendReady, hflags.1, hflags.2]
        rfl
      have h3 : Step none s ({ s2 with store := (s2.store.insert st).1 } : Streams) := insert_acc st h2
      simp only [Store.insert_key] at h
      rcases hsh : Streams.sendHeaders { s2 with store := (s2.store.insert st).1 } s2.store.nextKey eos f with ⟨s3, e | u⟩
      · simp [hsh] at h
      · simp only [hsh] at h
        obtain ⟨rfl, _⟩ := Prod.mk.inj h
        have hok : (Streams.sendHeaders { s2 with store := (s2.store.insert st).1 } s2.store.nextKey eos f).2 = .ok () := by
          rw [hsh]
        have hw := sendHeaders_woken hok hready
        rw [hsh] at hw
        have hs3 : Step none ({ s2 with store := (s2.store.insert st).1 } : Streams) s3 :=
          (sendHeaders_acc _ _ _ (Step.refl _ _)).of_fst hsh
        exact (TaskWoken.after h3 hw hs3.wakes).before (h3.wakes.trans hs3.wakes)
          (refInc_acc _ (setRefs_acc _ (Step.refl _ _)))

end H2V.Lemmas.ConnWakeP
