import H2V.Lemmas.ConnWakePForEach
/-
  ConnWakeP, part 9 — a second, generic frame relation `GStep rm R` used for the teardown functions
  (`handle_error`, `recv_go_away`, `recv_eof` and everything they call):
    * every stream entry of `s` is still there in `s'` and related by `R` (a reflexive, transitive
      relation that fixes the key), or — only when `rm` — was removed from the slab;
    * the id map is unchanged unless `rm`.
  Instances of `R`: `Keep` (receive queue, reference count and "END_STREAM seen" are kept: a complete
  message survives the teardown), `Frame` (`state`, `pending_send`, `buffered_send_data` untouched),
  `Triv` (nothing but identity: "no stream is removed").
-/
namespace H2V.Lemmas.ConnWakeP
open H2V H2V.Model H2V.Model.Conn

class IsPre (R : Stream → Stream → Prop) : Prop where
  refl : ∀ a, R a a
  trans : ∀ {a b c}, R a b → R b c → R a c
  key : ∀ {a b}, R a b → b.key = a.key

/-- (only for functions that never insert a stream: an absent key stays absent) -/
structure GStep (rm : Prop) (R : Stream → Stream → Prop) (s s' : Streams) : Prop where
  fresh : ∀ k, s.store.get? k = none → s'.store.get? k = none
  keep : ∀ k a, s.store.get? k = some a →
    (rm ∧ s'.store.get? k = none) ∨ ∃ b, s'.store.get? k = some b ∧ R a b
  ids : rm ∨ s'.store.ids = s.store.ids

section
variable {rm : Prop} {R : Stream → Stream → Prop} [IsPre R]

theorem GStep.refl (s : Streams) : GStep rm R s s :=
  ⟨fun _ h => h, fun _ a h => Or.inr ⟨a, h, IsPre.refl a⟩, Or.inr rfl⟩

theorem GStep.trans {s s' s'' : Streams} (h1 : GStep rm R s s') (h2 : GStep rm R s' s'') : GStep rm R s s'' where
  fresh := fun k h => h2.fresh k (h1.fresh k h)
  keep := fun k a h => by
    rcases h1.keep k a h with ⟨r, h'⟩ | ⟨b, hb, hab⟩
    · exact Or.inl ⟨r, h2.fresh k h'⟩
    · rcases h2.keep k b hb with h'' | ⟨c, hc, hbc⟩
      · exact Or.inl h''
      · exact Or.inr ⟨c, hc, IsPre.trans hab hbc⟩
  ids := by
    rcases h1.ids with r | e1
    · exact Or.inl r
    · rcases h2.ids with r | e2
      · exact Or.inl r
      · exact Or.inr (e2.trans e1)

theorem GStep.of_store_eq {s s' : Streams} (h : s'.store = s.store) : GStep rm R s s' := by
  refine ⟨by rw [h]; exact fun _ h => h, ?_, Or.inr (by rw [h])⟩
  rw [h]; exact fun _ a h => Or.inr ⟨a, h, IsPre.refl a⟩

theorem GStep.of_fst {α : Type} {s s' : Streams} {p : Streams × α} {r : α}
    (e : p = (s', r)) (h : GStep rm R s p.1) : GStep rm R s s' := by
  rw [e] at h; exact h

theorem panic_store' (s : Streams) (m : String) : (s.panic m).store = s.store := by
  unfold Streams.panic; split <;> rfl

variable {s0 s : Streams}

theorem g_panic (m : String) (h : GStep rm R s0 s) : GStep rm R s0 (s.panic m) :=
  h.trans (.of_store_eq (panic_store' s m))
theorem g_unsup (m : String) (h : GStep rm R s0 s) : GStep rm R s0 (s.unsup m) :=
  h.trans (.of_store_eq (by unfold Streams.unsup; split <;> rfl))
theorem g_wake (w : List String) (h : GStep rm R s0 s) : GStep rm R s0 (s.wake w) := h.trans (.of_store_eq rfl)
theorem g_notifyTask (h : GStep rm R s0 s) : GStep rm R s0 s.notifyTask :=
  h.trans (.of_store_eq (by unfold Streams.notifyTask; split <;> rfl))
theorem g_modPrio (f : Prioritize → Prioritize) (h : GStep rm R s0 s) : GStep rm R s0 (s.modPrio f) :=
  h.trans (.of_store_eq rfl)
theorem g_modSend (f : Send → Send) (h : GStep rm R s0 s) : GStep rm R s0 (s.modSend f) := h.trans (.of_store_eq rfl)
theorem g_modRecv (f : Recv → Recv) (h : GStep rm R s0 s) : GStep rm R s0 (s.modRecv f) := h.trans (.of_store_eq rfl)
theorem g_modCounts (f : Counts → Counts) (h : GStep rm R s0 s) : GStep rm R s0 (s.modCounts f) :=
  h.trans (.of_store_eq rfl)
theorem g_modCountsA (m : String) (f : Counts → Option Counts) (h : GStep rm R s0 s) :
    GStep rm R s0 (s.modCountsA m f) := by
  unfold Streams.modCountsA; split
  · exact h.trans (.of_store_eq rfl)
  · exact g_panic _ h
theorem g_setQ (q : QName) (l : List Nat) (h : GStep rm R s0 s) : GStep rm R s0 (s.setQ q l) := by
  cases q <;> exact h.trans (.of_store_eq rfl)
theorem g_setCounts (c : Counts) (h : GStep rm R s0 s) : GStep rm R s0 { s with counts := c } :=
  h.trans (.of_store_eq rfl)
theorem g_setConnError (e : PErr) (h : GStep rm R s0 s) :
    GStep rm R s0 { s with actions := { s.actions with connError := some e } } := h.trans (.of_store_eq rfl)

theorem g_setStream_wake' (b : Stream) (w : List String) (hb : R (s.stream b.key) b) (h : GStep rm R s0 s) :
    GStep rm R s0 ((s.setStream b).wake w) := by
  cases hg : s.store.get? b.key with
  | none =>
    have : s.setStream b = s := by unfold Streams.setStream; rw [Store.set_of_none hg]
    rw [this]; exact g_wake w h
  | some a =>
    rw [stream_eq_of_get? hg] at hb
    refine h.trans ⟨fun k hn => ?_, fun k x hx => Or.inr ?_, Or.inr rfl⟩
    · show (s.store.set b).get? k = none
      rw [Store.get?_set]; split <;> simp [hn]
    · show ∃ y, (s.store.set b).get? k = some y ∧ _
      rw [Store.get?_set]
      by_cases hk : k = b.key
      · subst hk
        rw [hg] at hx; cases hx
        exact ⟨b, by simp [hg], hb⟩
      · exact ⟨x, by simp [hk, hx], IsPre.refl _⟩

theorem g_setStream_wake (k : Nat) (b : Stream) (w : List String) (hb : R (s.stream k) b) (h : GStep rm R s0 s) :
    GStep rm R s0 ((s.setStream b).wake w) := by
  have hk : b.key = k := by rw [IsPre.key hb, stream_key]
  subst hk; exact g_setStream_wake' b w hb h

theorem g_setStream (k : Nat) (b : Stream) (hb : R (s.stream k) b) (h : GStep rm R s0 s) :
    GStep rm R s0 (s.setStream b) := by
  have := g_setStream_wake k b [] hb h
  have e : (s.setStream b).wake [] = s.setStream b := by simp [Streams.wake]
  rwa [e] at this

theorem g_modStream (k : Nat) (f : Stream → Stream) (hf : R (s.stream k) (f (s.stream k))) (h : GStep rm R s0 s) :
    GStep rm R s0 (s.modStream k f) := by
  unfold Streams.modStream
  split
  · next a ha => rw [stream_eq_of_get? ha] at hf; exact g_setStream k _ (by rw [stream_eq_of_get? ha]; exact hf) h
  · exact g_panic _ h

theorem g_modStreamW (k : Nat) (f : Stream → Stream × List String) (hf : R (s.stream k) (f (s.stream k)).1)
    (h : GStep rm R s0 s) : GStep rm R s0 (s.modStreamW k f) := by
  unfold Streams.modStreamW
  split
  · next a ha =>
    rw [stream_eq_of_get? ha] at hf
    exact g_setStream_wake k _ _ (by rw [stream_eq_of_get? ha]; exact hf) h
  · exact g_panic _ h

theorem g_unlink (hr : rm) (id : Nat) (h : GStep rm R s0 s) : GStep rm R s0 { s with store := s.store.unlink id } :=
  h.trans ⟨fun _ h => h, fun _ a h => Or.inr ⟨a, h, IsPre.refl a⟩, Or.inl hr⟩

theorem g_remove (hr : rm) (k n : Nat) (h : GStep rm R s0 s) :
    GStep rm R s0 { s with store := s.store.remove k, recvBufferLeaked := n } := by
  refine h.trans ⟨fun k' hn => ?_, fun k' a ha => ?_, Or.inr rfl⟩
  · show (s.store.remove k).get? k' = none
    rw [Store.get?_remove]; split <;> simp [hn]
  · show (rm ∧ (s.store.remove k).get? k' = none) ∨ ∃ b, (s.store.remove k).get? k' = some b ∧ _
    rw [Store.get?_remove]
    by_cases hk : k' = k
    · exact Or.inl ⟨hr, by simp [hk]⟩
    · exact Or.inr ⟨a, by simp [hk, ha], IsPre.refl _⟩

end

-- ===================================================================== the three instances

/-- what the teardown keeps of a stream: its receive queue, its handles, "END_STREAM was received" -/
structure Keep (a b : Stream) : Prop where
  key : b.key = a.key
  id : b.id = a.id
  recv : b.pendingRecv = a.pendingRecv
  refCount : b.refCount = a.refCount
  eos : a.state.isRecvEndStream = true → b.state.isRecvEndStream = true

instance : IsPre Keep where
  refl _ := ⟨rfl, rfl, rfl, rfl, fun h => h⟩
  trans h1 h2 := ⟨h2.key.trans h1.key, h2.id.trans h1.id, h2.recv.trans h1.recv, h2.refCount.trans h1.refCount,
    fun h => h2.eos (h1.eos h)⟩
  key h := h.key

@[grind =] theorem keep_iff (a b : Stream) : Keep a b ↔ (b.key = a.key ∧ b.id = a.id ∧ b.pendingRecv = a.pendingRecv ∧
    b.refCount = a.refCount ∧ (a.state.isRecvEndStream = true → b.state.isRecvEndStream = true)) :=
  ⟨fun h => ⟨h.1, h.2, h.3, h.4, h.5⟩, fun ⟨h1, h2, h3, h4, h5⟩ => ⟨h1, h2, h3, h4, h5⟩⟩

/-- the fields `Stream::is_closed` looks at -/
structure Frame (a b : Stream) : Prop where
  key : b.key = a.key
  id : b.id = a.id
  state : b.state = a.state
  buffered : b.bufferedSendData = a.bufferedSendData
  pendingSend : b.pendingSend = a.pendingSend

instance : IsPre Frame where
  refl _ := ⟨rfl, rfl, rfl, rfl, rfl⟩
  trans h1 h2 := ⟨h2.key.trans h1.key, h2.id.trans h1.id, h2.state.trans h1.state, h2.buffered.trans h1.buffered,
    h2.pendingSend.trans h1.pendingSend⟩
  key h := h.key

@[grind =] theorem frame_iff (a b : Stream) : Frame a b ↔ (b.key = a.key ∧ b.id = a.id ∧ b.state = a.state ∧
    b.bufferedSendData = a.bufferedSendData ∧ b.pendingSend = a.pendingSend) :=
  ⟨fun h => ⟨h.1, h.2, h.3, h.4, h.5⟩, fun ⟨h1, h2, h3, h4, h5⟩ => ⟨h1, h2, h3, h4, h5⟩⟩

structure Triv (a b : Stream) : Prop where
  key : b.key = a.key
  id : b.id = a.id

instance : IsPre Triv where
  refl _ := ⟨rfl, rfl⟩
  trans h1 h2 := ⟨h2.key.trans h1.key, h2.id.trans h1.id⟩
  key h := h.key

@[grind =] theorem triv_iff (a b : Stream) : Triv a b ↔ (b.key = a.key ∧ b.id = a.id) :=
  ⟨fun h => ⟨h.1, h.2⟩, fun ⟨h1, h2⟩ => ⟨h1, h2⟩⟩

-- the waker-touching stream methods under the three relations

theorem notifySend_fields (x : Stream) :
    x.notifySend.1.key = x.key ∧ x.notifySend.1.id = x.id ∧ x.notifySend.1.state = x.state ∧
    x.notifySend.1.pendingRecv = x.pendingRecv ∧ x.notifySend.1.refCount = x.refCount ∧
    x.notifySend.1.bufferedSendData = x.bufferedSendData ∧ x.notifySend.1.pendingSend = x.pendingSend ∧
    x.notifySend.1.sendCapacityInc = x.sendCapacityInc := by
  cases h1 : x.sendTask <;> cases h2 : x.openTask <;> simp [Stream.notifySend, h1, h2]

theorem notifyPush_fields (x : Stream) :
    x.notifyPush.1.key = x.key ∧ x.notifyPush.1.id = x.id ∧ x.notifyPush.1.state = x.state ∧
    x.notifyPush.1.pendingRecv = x.pendingRecv ∧ x.notifyPush.1.refCount = x.refCount ∧
    x.notifyPush.1.bufferedSendData = x.bufferedSendData ∧ x.notifyPush.1.pendingSend = x.pendingSend := by
  cases h1 : x.pushTask <;> simp [Stream.notifyPush, h1]

theorem notifyRecv_fields' (x : Stream) :
    x.notifyRecv.1.key = x.key ∧ x.notifyRecv.1.id = x.id ∧ x.notifyRecv.1.state = x.state ∧
    x.notifyRecv.1.pendingRecv = x.pendingRecv ∧ x.notifyRecv.1.refCount = x.refCount ∧
    x.notifyRecv.1.bufferedSendData = x.bufferedSendData ∧ x.notifyRecv.1.pendingSend = x.pendingSend := by
  cases h1 : x.recvTask <;> simp [Stream.notifyRecv, h1]

@[grind ←] theorem keep_notifySend (x : Stream) : Keep x x.notifySend.1 := by
  obtain ⟨h1, h2, h3, h4, h5, _⟩ := notifySend_fields x; exact ⟨h1, h2, h4, h5, by rw [h3]; exact fun h => h⟩
@[grind ←] theorem keep_notifyPush (x : Stream) : Keep x x.notifyPush.1 := by
  obtain ⟨h1, h2, h3, h4, h5, _⟩ := notifyPush_fields x; exact ⟨h1, h2, h4, h5, by rw [h3]; exact fun h => h⟩
@[grind ←] theorem keep_notifyRecv (x : Stream) : Keep x x.notifyRecv.1 := by
  obtain ⟨h1, h2, h3, h4, h5, _⟩ := notifyRecv_fields' x; exact ⟨h1, h2, h4, h5, by rw [h3]; exact fun h => h⟩
@[grind ←] theorem triv_notifySend (x : Stream) : Triv x x.notifySend.1 := by
  obtain ⟨h1, h2, _⟩ := notifySend_fields x; exact ⟨h1, h2⟩
@[grind ←] theorem triv_notifyPush (x : Stream) : Triv x x.notifyPush.1 := by
  obtain ⟨h1, h2, _⟩ := notifyPush_fields x; exact ⟨h1, h2⟩
@[grind ←] theorem triv_notifyRecv (x : Stream) : Triv x x.notifyRecv.1 := by
  obtain ⟨h1, h2, _⟩ := notifyRecv_fields' x; exact ⟨h1, h2⟩

theorem assignCapacity_fields (x : Stream) (c m : Nat) :
    (x.assignCapacity c m).1.key = x.key ∧ (x.assignCapacity c m).1.id = x.id ∧ (x.assignCapacity c m).1.state = x.state ∧
    (x.assignCapacity c m).1.pendingRecv = x.pendingRecv ∧ (x.assignCapacity c m).1.refCount = x.refCount ∧
    (x.assignCapacity c m).1.bufferedSendData = x.bufferedSendData ∧ (x.assignCapacity c m).1.pendingSend = x.pendingSend := by
  unfold Stream.assignCapacity Stream.notifyCapacity
  simp only
  split
  · obtain ⟨h1, h2, h3, h4, h5, h6, h7, _⟩ := notifySend_fields
      { x with sendFlow := (x.sendFlow.assignCapacity c).1, sendCapacityInc := true }
    exact ⟨h1, h2, h3, h4, h5, h6, h7⟩
  · exact ⟨rfl, rfl, rfl, rfl, rfl, rfl, rfl⟩

@[grind ←] theorem keep_assignCapacity (x : Stream) (c m : Nat) : Keep x (x.assignCapacity c m).1 := by
  obtain ⟨h1, h2, h3, h4, h5, _⟩ := assignCapacity_fields x c m; exact ⟨h1, h2, h4, h5, by rw [h3]; exact fun h => h⟩
@[grind ←] theorem frame_assignCapacity (x : Stream) (c m : Nat) : Frame x (x.assignCapacity c m).1 := by
  obtain ⟨h1, h2, h3, _, _, h6, h7⟩ := assignCapacity_fields x c m; exact ⟨h1, h2, h3, h6, h7⟩
@[grind ←] theorem triv_assignCapacity (x : Stream) (c m : Nat) : Triv x (x.assignCapacity c m).1 := by
  obtain ⟨h1, h2, _⟩ := assignCapacity_fields x c m; exact ⟨h1, h2⟩

theorem setReset_fields (x : Stream) (r : Reason) (i : Initiator) :
    (x.setReset r i).1.key = x.key ∧ (x.setReset r i).1.id = x.id ∧
    (x.setReset r i).1.pendingRecv = x.pendingRecv ∧ (x.setReset r i).1.refCount = x.refCount := by
  cases h1 : x.sendTask <;> cases h2 : x.openTask <;> cases h3 : x.recvTask <;> cases h4 : x.pushTask <;>
    simp [Stream.setReset, Stream.notifySend, Stream.notifyPush, Stream.notifyRecv, h1, h2, h3, h4]

theorem eos_false_of_scheduled {x : State} {r : Reason} (h : x.getScheduledReset = some r) :
    x.isRecvEndStream = false := by
  state_cases x <;> simp_all [State.getScheduledReset, State.isRecvEndStream]

/-- `set_reset` of a stream whose implicit reset was only scheduled: no END_STREAM is forgotten
    (a scheduled reset had forgotten it already) -/
@[grind ←] theorem keep_setReset_scheduled (x : Stream) (r : Reason) (i : Initiator)
    (h : x.state.isRecvEndStream = false) : Keep x (x.setReset r i).1 := by
  obtain ⟨h1, h2, h3, h4⟩ := setReset_fields x r i
  refine ⟨h1, h2, h3, h4, fun he => ?_⟩
  rw [h] at he; cases he
attribute [grind →] eos_false_of_scheduled
@[grind ←] theorem triv_setReset (x : Stream) (r : Reason) (i : Initiator) : Triv x (x.setReset r i).1 := by
  obtain ⟨h1, h2, _⟩ := setReset_fields x r i; exact ⟨h1, h2⟩

theorem setQueued_fields (a : Stream) (q : QName) (v : Bool) :
    (a.setQueued q v).key = a.key ∧ (a.setQueued q v).id = a.id ∧ (a.setQueued q v).state = a.state ∧
    (a.setQueued q v).pendingRecv = a.pendingRecv ∧ (a.setQueued q v).refCount = a.refCount ∧
    (a.setQueued q v).bufferedSendData = a.bufferedSendData ∧ (a.setQueued q v).pendingSend = a.pendingSend := by
  cases q <;> exact ⟨rfl, rfl, rfl, rfl, rfl, rfl, rfl⟩
@[grind ←] theorem keep_setQueued (a : Stream) (q : QName) (v : Bool) : Keep a (a.setQueued q v) := by
  obtain ⟨h1, h2, h3, h4, h5, _⟩ := setQueued_fields a q v; exact ⟨h1, h2, h4, h5, by rw [h3]; exact fun h => h⟩
@[grind ←] theorem frame_setQueued (a : Stream) (q : QName) (v : Bool) : Frame a (a.setQueued q v) := by
  obtain ⟨h1, h2, h3, _, _, h6, h7⟩ := setQueued_fields a q v; exact ⟨h1, h2, h3, h6, h7⟩
@[grind ←] theorem triv_setQueued (a : Stream) (q : QName) (v : Bool) : Triv a (a.setQueued q v) := by
  obtain ⟨h1, h2, _⟩ := setQueued_fields a q v; exact ⟨h1, h2⟩

/-- `State::recv_eof` / `handle_error` keep "END_STREAM was received" -/
theorem recvEof_keeps_eos (x : State) (h : x.isRecvEndStream = true) : x.recvEof.isRecvEndStream = true := by
  state_cases x <;> simp_all [State.isRecvEndStream, State.recvEof]
theorem handleError_keeps_eos (x : State) (e : PErr) (h : x.isRecvEndStream = true) :
    (x.handleError e).isRecvEndStream = true := by
  state_cases x <;> simp_all [State.isRecvEndStream, State.handleError]
attribute [grind ←] recvEof_keeps_eos handleError_keeps_eos

end H2V.Lemmas.ConnWakeP
