import H2V.Lemmas.ConnNoPanicPConnHist
import H2V.Lemmas.ConnFlowPWire
import H2V.Lemmas.CodecReader
/-
  C08 (no panic) — connection layer, part 4: what `FramedRead::poll_next` guarantees about the frames it
  yields (`WireOK`): a WINDOW_UPDATE increment and a SETTINGS_INITIAL_WINDOW_SIZE are at most 2^31-1
  (`ConnFlowP.decodeFrame_ok`), and the
  payload of a DATA frame (with its padding) is at most the frame length, which passed the size check of the
  length-delimited decoder (`max_frame_size ≤ 2^24-1`).
-/
namespace H2V.Lemmas.ConnNoPanicP
open H2V H2V.Model H2V.Model.Conn H2V.Model.CodecRead

theorem stripPadding_len {p : Bytes} {pl : Nat} {d : Bytes} (h : Frame.stripPadding p = .ok (pl, d)) :
    d.length + pl + 1 ≤ p.length := by
  unfold Frame.stripPadding at h
  split at h
  · cases h
  · rename_i padLen rest
    split at h
    · cases h
    · rename_i hlt
      injection h with h
      injection h with h1 h2
      subst h1; subst h2
      simp only [List.length_take, List.length_cons] at hlt ⊢
      omega

/-- the DATA payload with its padding fits in `n` octets -/
def DL (n : Nat) : Frame.Frame → Prop
  | .data _ d _ pad => d.length + (match pad with | some p => p + 1 | none => 0) ≤ n
  | _ => True

theorem toFrame_dl (n : Nat) (c : Continuable) : DL n c.toFrame := by
  cases c <;> exact trivial

theorem afterHpack_dl {n : Nat} {r r' : Reader} {c : Continuable} {tail : Bytes} {count : Nat} {eh : Bool} {sid : Nat}
    {res : Except Frame.FErr Unit} {f : Frame.Frame} (h : afterHpack r c tail count eh sid res = (r', .frame f)) :
    DL n f := by
  unfold afterHpack at h
  dsimp only at h
  have hc : ∀ {r'' : Reader}, (if eh = true then (({ r with partialBlk := none } : Reader), DF.frame c.toFrame)
      else ({ r with partialBlk := some { frame := c, buf := tail, count := count } }, DF.none)) = (r'', DF.frame f) →
      DL n f := by
    intro r'' hh
    split at hh
    · injection hh with _ hh; injection hh with hh; rw [← hh]; exact toFrame_dl n c
    · injection hh with _ hh; cases hh
  split at h
  · exact hc h
  · split at h
    · exact hc h
    · injection h with _ h; cases h
  all_goals (injection h with _ h; cases h)

theorem loadData_dl {h : Frame.Head} {payload : Bytes} {g : Frame.Frame} (hl : Frame.loadData h payload = .ok g) :
    DL payload.length g := by
  unfold Frame.loadData at hl
  dsimp only at hl
  split at hl
  · cases hl
  · split at hl
    · split at hl
      · cases hl
      · rename_i pl d hs
        cases hl
        have := stripPadding_len hs
        show d.length + (pl + 1) ≤ payload.length
        omega
    · cases hl
      exact Nat.le_refl _

/-- **a DATA frame `decode_frame` yields fits in the frame it was cut from** -/
theorem decodeFrame_dl {r r' : Reader} {bytes : Bytes} {f : Frame.Frame}
    (h : decodeFrame r bytes = (r', .frame f)) : DL (bytes.length - 9) f := by
  unfold decodeFrame at h
  dsimp only at h
  have hs : ∀ (x : Except Frame.FErr Frame.Frame), (∀ g, x = .ok g → DL (bytes.length - 9) g) →
      (match x with | .ok f => (r, DF.frame f) | .error _ => (r, connErr)) = (r', DF.frame f) →
      DL (bytes.length - 9) f := by
    intro x hx hh
    split at hh
    · rename_i g
      injection hh with _ hh; injection hh with hh; rw [← hh]; exact hx g rfl
    · injection hh with _ hh; cases hh
  split at h
  · injection h with _ h; cases h
  · split at h
    · exact hs _ (fun g hg => by
        unfold Frame.loadSettings at hg
        repeat' split at hg
        all_goals first | (cases hg; exact trivial) | cases hg) h
    · exact hs _ (fun g hg => by
        unfold Frame.loadPing at hg
        repeat' split at hg
        all_goals first | (cases hg; exact trivial) | cases hg) h
    · exact hs _ (fun g hg => by
        unfold Frame.loadWindowUpdate at hg
        dsimp only at hg
        repeat' split at hg
        all_goals first | (cases hg; exact trivial) | cases hg) h
    · exact hs _ (fun g hg => by
        have := loadData_dl hg
        rw [List.length_drop] at this
        exact this) h
    · exact hs _ (fun g hg => by
        unfold Frame.loadReset at hg
        split at hg <;> first | (cases hg; exact trivial) | cases hg) h
    · split at h
      · injection h with _ h; cases h
      · exact hs _ (fun g hg => by
          unfold Frame.loadGoAway at hg
          split at hg <;> first | (cases hg; exact trivial) | cases hg) h
    · split at h
      · injection h with _ h; cases h
      · split at h
        · rename_i g hg
          injection h with _ h; injection h with h; rw [← h]
          unfold Frame.loadPriority at hg
          dsimp only at hg
          repeat' split at hg
          all_goals first | (cases hg; exact trivial) | cases hg
        all_goals (injection h with _ h; cases h)
    · split at h
      · injection h with _ h; cases h
      · injection h with _ h; cases h
      · exact afterHpack_dl h
    · split at h
      · injection h with _ h; cases h
      · injection h with _ h; cases h
      · exact afterHpack_dl h
    · repeat' split at h
      all_goals first | exact afterHpack_dl h | (injection h with _ h; cases h)
    · injection h with _ h; cases h

/-- the two facts about a reader that bound the frames it cuts -/
structure RB (r : Reader) : Prop where
  max : r.maxFrameLen ≤ 16777215
  need : ∀ n, r.need = some n → n ≤ 16777224

def WireItem : Item → Prop
  | .frame f => WireOK f
  | .err _ => True

theorem wireOK_of {n : Nat} {f : Frame.Frame} (h1 : ConnFlowP.FrameOk f) (h2 : DL (n - 9) f) (hn : n ≤ 16777224) : WireOK f := by
  cases f <;> try exact trivial
  · -- data
    unfold WireOK FrameLenOK
    have : (2147483647 : Nat) = Generated.Consts.MAX_WINDOW_SIZE := rfl
    rw [← this]
    exact Nat.le_trans h2 (by omega)
  · exact h1
  · exact h1

theorem drain_wire : ∀ (fuel : Nat) (r : Reader) (acc : List Item), RB r → (∀ i ∈ acc, WireItem i) →
    RB (Reader.drain fuel r acc).1 ∧ ∀ i ∈ (Reader.drain fuel r acc).2.1, WireItem i
  | 0, r, acc, h, ha => ⟨h, ha⟩
  | fuel + 1, r, acc, h, ha => by
    unfold Reader.drain
    simp only
    split
    · exact ⟨h, ha⟩
    · refine ⟨h, fun i hi => ?_⟩
      rcases List.mem_append.mp hi with hi | hi
      · exact ha i hi
      · simp only [List.mem_singleton] at hi; subst hi; trivial
    · rename_i n hneed
      have hn : n ≤ 16777224 := by
        split at hneed
        · rename_i m hm
          injection hneed with hneed; injection hneed with hneed
          subst hneed
          exact h.need _ hm
        · split at hneed
          · cases hneed
          · split at hneed
            · cases hneed
            · rename_i hle
              injection hneed with hneed; injection hneed with hneed
              subst hneed
              have := h.max
              omega
      split
      · exact ⟨⟨h.max, fun m hm => by cases hm; exact hn⟩, ha⟩
      · have hb : RB { r with buf := r.buf.drop n, need := none } := ⟨h.max, fun m hm => by cases hm⟩
        have d1 : RB (decodeFrame { r with buf := r.buf.drop n, need := none } (r.buf.take n)).1 :=
          ⟨by rw [Codec.decodeFrame_maxFrameLen]; exact hb.max, by rw [Codec.decodeFrame_need]; exact hb.need⟩
        have d2 : ∀ r2 f, decodeFrame { r with buf := r.buf.drop n, need := none } (r.buf.take n) = (r2, .frame f) → WireOK f := by
          intro r2 f hd
          refine wireOK_of (n := (r.buf.take n).length) (ConnFlowP.decodeFrame_ok hd) (decodeFrame_dl hd) ?_
          rw [List.length_take]; omega
        generalize decodeFrame { r with buf := r.buf.drop n, need := none } (r.buf.take n) = x at d1 d2 ⊢
        obtain ⟨r2, df⟩ := x
        cases df with
        | frame f =>
          simp only
          exact drain_wire fuel r2 _ d1 (fun i hi => by
            rcases List.mem_append.mp hi with hi | hi
            · exact ha i hi
            · simp only [List.mem_singleton] at hi; subst hi; exact d2 r2 f rfl)
        | none => exact drain_wire fuel r2 acc d1 ha
        | err e =>
          simp only
          refine ⟨d1, fun i hi => ?_⟩
          rcases List.mem_append.mp hi with hi | hi
          · exact ha i hi
          · simp only [List.mem_singleton] at hi; subst hi; trivial

/-- **`FramedRead::poll_next`**: the reader bounds are kept (only `buf`, `need`, the HPACK state and the header block
    being reassembled change), and a frame it yields is `WireOK` -/
theorem pollNext_wire : ∀ (fuel : Nat) (c : Codec) (tag : String), RB c.r →
    RB (pollNext fuel c tag).1.r ∧ (pollNext fuel c tag).1.w = c.w ∧ ∀ f, (pollNext fuel c tag).2 = .frame f → WireOK f
  | 0, c, tag, h => ⟨h, rfl, fun f hf => by cases hf⟩
  | fuel + 1, c, tag, h => by
    unfold pollNext
    split
    · exact ⟨h, rfl, fun f hf => by cases hf⟩
    · simp only
      have hb : RB { c.r with buf := c.r.buf ++ c.io.rd } := ⟨h.max, h.need⟩
      have hd := drain_wire 1 { c.r with buf := c.r.buf ++ c.io.rd } [] hb (fun i hi => by cases hi)
      generalize Reader.drain 1 { c.r with buf := c.r.buf ++ c.io.rd } [] = x at hd ⊢
      obtain ⟨r1, items, dead⟩ := x
      simp only at hd ⊢
      obtain ⟨d1, d2⟩ := hd
      split
      · rename_i f rest
        exact ⟨d1, rfl, fun f' hf' => by cases hf'; exact d2 _ (List.mem_cons_self ..)⟩
      · exact ⟨d1, rfl, fun f' hf' => by cases hf'⟩
      · repeat' split
        all_goals first
          | exact pollNext_wire fuel _ tag d1
          | exact ⟨d1, rfl, fun f' hf' => by cases hf'⟩

end H2V.Lemmas.ConnNoPanicP
