import H2V.Lemmas.ConnCtlPAck
/-
  ConnCtlP, part 3 — once `go_away_now` has run (`close_now` set) or the connection state left
  `Open`, `Connection::poll` reads no frame and acknowledges nothing any more: it only flushes the
  pending GOAWAY and closes.  Used by C14 (no second ACK after a failed `apply_remote_settings`) and
  by C15 (nothing is processed after an abrupt shutdown / a connection error).
-/
set_option autoImplicit false
set_option linter.unusedSimpArgs false
namespace H2V.Lemmas.ConnCtlP
open H2V H2V.Model H2V.Model.Conn

/-- `go_away_now` has run: the connection only flushes its GOAWAY and closes -/
def Halting (c : Conn) : Prop := c.goAway.closeNow = true ∧ c.goAway.goingAway.isSome = true

/-- the connection will not read any more -/
def Dead (c : Conn) : Prop := Halting c ∨ c.state ≠ .open

/-- the ack-relevant part of the state is the same -/
def SameAck (c c' : Conn) : Prop :=
  c'.settings.remote = c.settings.remote ∧ c'.pingPong.pendingPong = c.pingPong.pendingPong

theorem SameAck.refl (c : Conn) : SameAck c c := ⟨rfl, rfl⟩
theorem SameAck.trans {a b c : Conn} (h1 : SameAck a b) (h2 : SameAck b c) : SameAck a c :=
  ⟨h2.1.trans h1.1, h2.2.trans h1.2⟩

-- ===================================================================== GoAway (go_away.rs)

theorem GoAway.goAway_spec (g : GoAway) (f : GoAwayFrame) :
    (g.goAway f).1.goingAway = some { lastProcessedId := f.lastStreamId, reason := f.reason } ∧
    (g.goAway f).1.pending = some f ∧ (g.goAway f).1.closeNow = g.closeNow ∧
    (g.goAway f).1.isUserInitiated = g.isUserInitiated := ⟨rfl, rfl, rfl, rfl⟩

theorem GoAway.goAwayNow_halting (g : GoAway) (f : GoAwayFrame) :
    (g.goAwayNow f).1.closeNow = true ∧ (g.goAwayNow f).1.goingAway.isSome = true := by
  unfold GoAway.goAwayNow
  dsimp only
  cases hg : g.goingAway with
  | none => exact ⟨rfl, rfl⟩
  | some ga => dsimp only; split <;> simp [GoAway.goAway, hg]

theorem goAwayNowData_halting (c : Conn) (e : Reason) (d : Bytes) : Halting (c.goAwayNowData e d) := by
  unfold Conn.goAwayNowData
  dsimp only
  have := GoAway.goAwayNow_halting c.goAway { lastStreamId := c.streams.recv.lastProcessedId, reason := e, debugData := d }
  split <;> exact this

theorem goAwayNowData_same (c : Conn) (e : Reason) (d : Bytes) :
    (c.goAwayNowData e d).settings = c.settings ∧ (c.goAwayNowData e d).pingPong = c.pingPong ∧
    (c.goAwayNowData e d).state = c.state ∧ (c.goAwayNowData e d).error = c.error := by
  unfold Conn.goAwayNowData
  dsimp only
  split <;> exact ⟨rfl, rfl, rfl, rfl⟩

theorem handleGoAway_cases (c : Conn) (r : Reason) (d : Bytes) (i : Initiator) :
    c.handleGoAway r d i = { c with state := .closing r i } ∨
    c.handleGoAway r d i = ({ c with streams := (c.streams.handleError (.goAway d r i)).1 } : Conn).goAwayNowData r d := by
  unfold Conn.handleGoAway
  cases hg : c.goAway.goingAway with
  | none => right; simp
  | some ga =>
    by_cases hr : (ga.reason == r) = true
    · left; simp [hr]
    · right; simp [hr]

theorem handleGoAway_spec (c : Conn) (r : Reason) (d : Bytes) (i : Initiator) :
    Dead (c.handleGoAway r d i) ∧ (c.handleGoAway r d i).settings = c.settings ∧
    (c.handleGoAway r d i).pingPong = c.pingPong ∧ (c.handleGoAway r d i).error = c.error := by
  rcases handleGoAway_cases c r d i with h | h <;> rw [h]
  · exact ⟨Or.inr (by simp), rfl, rfl, rfl⟩
  · obtain ⟨h1, h2, h3, h4⟩ := goAwayNowData_same { c with streams := (c.streams.handleError (.goAway d r i)).1 } r d
    exact ⟨Or.inl (goAwayNowData_halting _ r d), h1, h2, h4⟩

theorem Dead.of_goAway_state {c c' : Conn} (h : Dead c) (hg : c'.goAway = c.goAway) (hs : c'.state = c.state) : Dead c' := by
  rcases h with h | h
  · exact Or.inl (by unfold Halting at *; rw [hg]; exact h)
  · exact Or.inr (by rw [hs]; exact h)

/-- `handle_poll2_result`: settings / ping state untouched -/
theorem handlePoll2Result_same (c : Conn) (res : Except PErr Unit) :
    (c.handlePoll2Result res).1.settings = c.settings ∧ (c.handlePoll2Result res).1.pingPong = c.pingPong := by
  unfold Conn.handlePoll2Result
  cases res with
  | ok u => exact ⟨rfl, rfl⟩
  | error e =>
    cases e with
    | goAway d r i =>
      obtain ⟨-, h2, h3, -⟩ := handleGoAway_spec c r d i
      exact ⟨h2, h3⟩
    | reset id r i =>
      dsimp only
      split
      · exact ⟨rfl, rfl⟩
      · split
        · exact ⟨rfl, rfl⟩
        · rename_i s g hg
          obtain ⟨-, h2, h3, -⟩ := handleGoAway_spec { c with streams := s } g.reason (Http.str g.debugData) .library
          exact ⟨h2, h3⟩
    | io kind msg =>
      dsimp only
      split <;> exact ⟨rfl, rfl⟩

/-- a dead connection stays dead through `handle_poll2_result` -/
theorem handlePoll2Result_dead (c : Conn) (res : Except PErr Unit) (hd : Dead c) :
    Dead (c.handlePoll2Result res).1 := by
  unfold Conn.handlePoll2Result
  cases res with
  | ok u => exact Or.inr (by simp)
  | error e =>
    cases e with
    | goAway d r i => exact (handleGoAway_spec c r d i).1
    | reset id r i =>
      dsimp only
      split
      · exact hd
      · split
        · exact hd.of_goAway_state rfl rfl
        · rename_i s g hg
          exact (handleGoAway_spec { c with streams := s } g.reason (Http.str g.debugData) .library).1
    | io kind msg =>
      dsimp only
      split
      · exact Or.inr (by simp)
      · exact hd.of_goAway_state rfl rfl

/-- a connection-level error or the end of input kills the connection -/
theorem handlePoll2Result_kills (c : Conn) (res : Except PErr Unit)
    (h : res = .ok () ∨ ∃ d r i, res = .error (.goAway d r i)) : Dead (c.handlePoll2Result res).1 := by
  rcases h with rfl | ⟨d, r, i, rfl⟩
  · exact Or.inr (by simp [Conn.handlePoll2Result])
  · exact (handleGoAway_spec c r d i).1

-- ===================================================================== a halting poll2 reads nothing

/-- all events are about GOAWAY frames -/
def OnlyGoAway (evs : List Ev) : Prop := ∀ e ∈ evs, (∃ f, e = .goAwaySent f) ∨ (∃ f, e = .goAwayLost f)

theorem OnlyGoAway.nil : OnlyGoAway [] := fun _ h => by cases h
theorem OnlyGoAway.append {a b : List Ev} (ha : OnlyGoAway a) (hb : OnlyGoAway b) : OnlyGoAway (a ++ b) := by
  intro e he
  rcases List.mem_append.mp he with h | h
  · exact ha e h
  · exact hb e h

theorem OnlyGoAway.quiet {evs : List Ev} (h : OnlyGoAway evs) :
    rxS evs = [] ∧ ackS evs = [] ∧ rxP evs = [] ∧ ansP evs = [] ∧ pongP evs = [] := by
  induction evs with
  | nil => simp
  | cons e t ih =>
    have ht : OnlyGoAway t := fun x hx => h x (List.mem_cons_of_mem _ hx)
    obtain ⟨i1, i2, i3, i4, i5⟩ := ih ht
    rcases h e (List.mem_cons_self ..) with ⟨f, rfl⟩ | ⟨f, rfl⟩ <;>
      simp_all [rxS, ackS, rxP, ansP, pongP]

theorem OnlyGoAway.led {c c' : Conn} {evs : List Ev} (h : OnlyGoAway evs) (hs : SameAck c c') : Led c evs c' := by
  obtain ⟨q1, q2, q3, q4, -⟩ := h.quiet
  exact Led.of_same hs.1 hs.2 q1 q2 q3 q4

theorem sendPendingGoAwayT_spec (c : Conn) :
    OnlyGoAway (sendPendingGoAwayT c).2 ∧
    (sendPendingGoAwayT c).1.1.goAway.closeNow = c.goAway.closeNow ∧
    (sendPendingGoAwayT c).1.1.goAway.goingAway = c.goAway.goingAway ∧
    (sendPendingGoAwayT c).1.1.goAway.isUserInitiated = c.goAway.isUserInitiated ∧
    (sendPendingGoAwayT c).1.1.settings = c.settings ∧ (sendPendingGoAwayT c).1.1.pingPong = c.pingPong ∧
    (sendPendingGoAwayT c).1.1.state = c.state ∧ (sendPendingGoAwayT c).1.1.error = c.error ∧
    (sendPendingGoAwayT c).1.1.streams = c.streams ∧
    (Halting c → match (sendPendingGoAwayT c).1.2 with
      | .pending => True
      | .err _ => True
      | .reason _ => (sendPendingGoAwayT c).1.1.goAway.shouldCloseNow = true
      | .none => False) := by
  unfold sendPendingGoAwayT
  cases hp : c.goAway.pending with
  | none =>
    dsimp only
    by_cases hc : c.goAway.shouldCloseNow = true
    · rw [if_pos hc]
      cases hg : c.goAway.goingAway with
      | none =>
        refine ⟨OnlyGoAway.nil, rfl, hg, rfl, rfl, rfl, rfl, rfl, rfl, ?_⟩
        intro h; simp [Halting, hg] at h
      | some ga => exact ⟨OnlyGoAway.nil, rfl, hg, rfl, rfl, rfl, rfl, rfl, rfl, fun _ => hc⟩
    · rw [if_neg hc]
      refine ⟨OnlyGoAway.nil, rfl, rfl, rfl, rfl, rfl, rfl, rfl, rfl, ?_⟩
      intro h
      exact hc (by simp [GoAway.shouldCloseNow, hp, h.1])
  | some f =>
    dsimp only
    rcases h : c.codecPollReady with ⟨c1, st⟩
    obtain ⟨h1, h2, h3, h4, h5, h6⟩ := codecPollReady_eq c c1 st h
    cases st with
    | pending => exact ⟨OnlyGoAway.nil, by rw [h3], by rw [h3], by rw [h3], h1, h2, h5, h6, h4, fun _ => trivial⟩
    | err e =>
      refine ⟨?_, by simp [h3], by simp [h3], by simp [h3], h1, h2, h5, h6, h4, fun _ => trivial⟩
      intro x hx; simp at hx; exact Or.inr ⟨f, hx⟩
    | ok =>
      refine ⟨?_, by simp [h3], by simp [h3], by simp [h3], by simp [h1], by simp [h2], by simp [h5], by simp [h6], by simp [h4], ?_⟩
      · intro x hx; simp at hx; exact Or.inl ⟨f, hx⟩
      · intro hh
        simp [GoAway.shouldCloseNow, h3, hh.1]

/-- **a connection that has run `go_away_now` reads nothing**: its `poll2` only tries to flush the GOAWAY -/
theorem poll2LoopT_halting (fuel : Nat) (c : Conn) (h : Halting c) :
    OnlyGoAway (poll2LoopT fuel c).2 ∧ Halting (poll2LoopT fuel c).1.1 ∧
    (poll2LoopT fuel c).1.1.settings = c.settings ∧ (poll2LoopT fuel c).1.1.pingPong = c.pingPong ∧
    (poll2LoopT fuel c).1.1.state = c.state ∧ (poll2LoopT fuel c).1.1.error = c.error := by
  cases fuel with
  | zero => exact ⟨OnlyGoAway.nil, h, rfl, rfl, rfl, rfl⟩
  | succ fuel =>
    obtain ⟨g1, g2, g3, g4, g5, g6, g7, g8, g9, g10⟩ := sendPendingGoAwayT_spec c
    have g10 := g10 h
    unfold poll2LoopT
    rcases hG : sendPendingGoAwayT c with ⟨⟨c1, st1⟩, e0⟩
    rw [hG] at g1 g2 g3 g4 g5 g6 g7 g8 g9 g10
    dsimp only at g1 g2 g3 g4 g5 g6 g7 g8 g9 g10
    have hh : Halting c1 := by unfold Halting; rw [g2, g3]; exact h
    cases st1 with
    | pending => exact ⟨g1, hh, g5, g6, g7, g8⟩
    | err e => exact ⟨g1, hh, g5, g6, g7, g8⟩
    | none => exact absurd g10 id
    | reason r =>
      dsimp only
      rw [if_pos g10]
      split <;> exact ⟨g1, hh, g5, g6, g7, g8⟩

end H2V.Lemmas.ConnCtlP
