import H2V.Lemmas.ConnNoPanicPAccPath
/-
  C08 (no panic) — the server accept path, part 8: **`Streams::next_incoming` and `Recv::take_request` cannot panic**.
  `next_incoming`: the popped key is live (`AccOK`), and when the popped stream was reset by the peer
  `num_remote_reset_streams > 0` (`J.rr`).  `take_request`: the handle `next_incoming` has just handed out
  names a stream whose `pending_recv` starts with the request head (`J.qd`).
-/
namespace H2V.Lemmas.ConnNoPanicP
open H2V H2V.Model H2V.Model.Conn H2V.Lemmas.ConnCountsP
attribute [local irreducible] wrapSubU32 wrapSubUsize

/-- the counter is decremented for a popped stream that was counted -/
theorem J.decRemote {s : Streams} (hj : J s) (hsl : rrCount s + 1 ≤ s.counts.numRemoteResetStreams) :
    J { s with counts := { s.counts with numRemoteResetStreams := s.counts.numRemoteResetStreams - 1 } } := by
  refine ⟨⟨hj.acc.fl, hj.acc.nodup⟩, hj.qd, ?_, hj.si, hj.cl⟩
  show rrCount s ≤ s.counts.numRemoteResetStreams - 1
  omega

/-- what `Streams::next_incoming` does to the state, step by step -/
theorem nextIncoming_some {s s1 : Streams} {k : Nat} (h : s.qPop .pendingAccept = (s1, some k)) :
    s.nextIncoming = ((if (s1.stream k).state.isRemoteReset = true then
        Streams.modCountsA { s1 with refs := s1.refs + 1 } "self.num_remote_reset_streams > 0" Counts.decNumRemoteResetStreams
      else { s1 with refs := s1.refs + 1 }).refInc k, some k) := by
  unfold Streams.nextIncoming Streams.recvNextIncoming
  rw [h]
  rfl

theorem nextIncoming_none {s s1 : Streams} (h : s.qPop .pendingAccept = (s1, none)) : s.nextIncoming = (s, none) := by
  unfold Streams.nextIncoming Streams.recvNextIncoming
  rw [h]
  unfold Streams.qPop at h
  split at h
  · cases h; rfl
  · cases h

/-- **`Streams::next_incoming` keeps `NPI` and `J`** — `assert!(self.num_remote_reset_streams > 0)` cannot fire — and
    hands out a handle on a live stream that had none, whose `pending_recv` starts with the request head -/
theorem nextIncoming_npi {s : Streams} {H : List Nat} (hn : NPI (fun _ => False) s) (hj : J s) (hh : HOK s H) :
    NPI (fun _ => False) s.nextIncoming.1 ∧ J s.nextIncoming.1 ∧
    (s.nextIncoming.2 = none → s.nextIncoming.1 = s) ∧
    (∀ k, s.nextIncoming.2 = some k → k ∈ s.recv.pendingAccept ∧ k ∉ H ∧ HOK s.nextIncoming.1 (k :: H) ∧
      Live s.nextIncoming.1 k ∧ (s.nextIncoming.1.stream k).refCount = 1 ∧ ReqHead (s.nextIncoming.1.stream k)) := by
  cases hq : s.qPop .pendingAccept with
  | mk s1 o =>
    cases o with
    | none =>
      rw [nextIncoming_none hq]
      exact ⟨hn, hj, fun _ => rfl, fun k hk => by cases hk⟩
    | some k =>
      obtain ⟨hj1, hl, hl1, hc1, hnq1, hr0, hreq, hsrv, hr1, hp1, hst1, hsl⟩ := hj.qPopAcc hq
      have hmem : k ∈ s.recv.pendingAccept := by
        unfold Streams.qPop at hq
        split at hq
        · cases hq
        · next id rest heq =>
          simp only [Prod.mk.injEq, Option.some.injEq] at hq
          rw [← hq.2]; have : s.recv.pendingAccept = id :: rest := heq; rw [this]; exact List.mem_cons_self ..
      have hn1 : NPI (fun _ => False) s1 := by
        have := qPopAcc_npi hn hj.acc; rw [hq] at this; exact this
      have hkeys1 : SameKeys s s1 := by have := SameKeys.qPop s .pendingAccept; rw [hq] at this; exact this
      -- the counter
      generalize hs3 : (if (s1.stream k).state.isRemoteReset = true then
        Streams.modCountsA { s1 with refs := s1.refs + 1 } "self.num_remote_reset_streams > 0" Counts.decNumRemoteResetStreams
        else { s1 with refs := s1.refs + 1 }) = s3
      have h3 : J s3 ∧ s3.store = s1.store ∧ s3.panicked = s1.panicked ∧ s3.recv.pendingAccept = s1.recv.pendingAccept ∧
          s3.counts.isServer = s1.counts.isServer := by
        have hj2 : J { s1 with refs := s1.refs + 1 } := hj1.al0 (setMisc_al (ks := []) s1 s1.actions (s1.refs + 1) _ _ _ rfl)
        rw [← hs3]
        split
        · next hrr =>
          rw [hst1] at hrr
          have hsl1 := hsl hrr
          rw [← hc1] at hsl1
          have hpos : s1.counts.numRemoteResetStreams > 0 := by omega
          have e : Streams.modCountsA { s1 with refs := s1.refs + 1 } "self.num_remote_reset_streams > 0" Counts.decNumRemoteResetStreams =
              { ({ s1 with refs := s1.refs + 1 } : Streams) with
                counts := { s1.counts with numRemoteResetStreams := s1.counts.numRemoteResetStreams - 1 } } := by
            unfold Streams.modCountsA Counts.decNumRemoteResetStreams
            simp only [hpos, if_true]
          rw [e]
          exact ⟨hj2.decRemote hsl1, rfl, rfl, rfl, rfl⟩
        · exact ⟨hj2, rfl, rfl, rfl, rfl⟩
      obtain ⟨hj3, hst3, hp3, hq3, hsv3⟩ := h3
      have hstr3 : ∀ j, s3.stream j = s1.stream j := fun j => by unfold Streams.stream; rw [hst3]
      have hl3 : Live s3 k := by unfold Live at hl1 ⊢; rw [hst3]; exact hl1
      have hnq3 : k ∉ s3.recv.pendingAccept := by rw [hq3]; exact hnq1
      have hrh3 : (s3.stream k).state.isRecvHeaders = false := by
        rw [hstr3, hst1]
        cases hh' : (s.stream k).state.isRecvHeaders with
        | false => rfl
        | true => exact absurd (hj.si hsrv k hl hh').2 hreq.ne_nil
      have hj4 := refInc_j hj3 hl3 hnq3 (fun _ => hrh3)
      have hst4 : (s3.refInc k).stream k = { s3.stream k with refCount := (s3.stream k).refCount + 1 } :=
        stream_modStream_live hl3 _ (fun _ => rfl)
      have hl4 : Live (s3.refInc k) k := (SameKeys.modStream _ _ _).live.mpr hl3
      have hnH : k ∉ H := fun hkH => by
        obtain ⟨x, hx, hc⟩ := hh k hkH
        have := count_pos_of_mem hkH
        rw [stream_of_get? hx] at hr0; omega
      rw [nextIncoming_some hq, hs3]
      refine ⟨?_, hj4, (fun h => by cases h), (fun k' hk' => ?_)⟩
      · -- `NPI`: the counting invariants travel along `Ev`
        have ev := nextIncoming_ev (ρ := false) s
        rw [nextIncoming_some hq, hs3] at ev
        have hav3 : AvOK s3 := by unfold AvOK; rw [hst3]; exact hn1.av
        have hids3 : IdsOK s3 := hn1.ids.of_frame (.of_store_eq hst3) (by rw [hst3]) (.of_store hst3)
        refine hn.ev ev noE ?_ (avOK_modStream_flow _ _ (fun _ => rfl) hav3)
          (hids3.of_frame (SameKeys.modStream _ _ _) (modStream_ids _ _ _) (SPr.modStream _ _ _ (fun _ => rfl) (fun _ => rfl)))
        unfold Streams.refInc
        rw [modStream_panicked_live hl3, hp3]; exact hn1.np
      · simp only [Option.some.injEq] at hk'
        subst hk'
        refine ⟨hmem, hnH, ?_, hl4, by rw [hst4, hstr3]; show (s1.stream k).refCount + 1 = 1; rw [hr1], ?_⟩
        · intro j hjm
          rcases List.mem_cons.mp hjm with e | e
          · subst e
            obtain ⟨y, hy⟩ := hl4
            refine ⟨y, hy, ?_⟩
            rw [List.count_cons_self, List.count_eq_zero_of_not_mem hnH, ← stream_of_get? hy, hst4]
            exact Nat.le_add_left _ _
          · have hjk : j ≠ k := fun e' => hnH (e' ▸ e)
            obtain ⟨x, hx, hc⟩ := hh j e
            have hlj3 : Live s3 j := by
              unfold Live; rw [hst3]; exact hkeys1.live.mpr ⟨x, hx⟩
            obtain ⟨y, hy⟩ := (SameKeys.modStream s3 k fun st => { st with refCount := st.refCount + 1 }).live.mpr hlj3
            refine ⟨y, hy, ?_⟩
            rw [List.count_cons_of_ne (fun e' => hjk e'.symm), ← stream_of_get? (s := s3.refInc k) hy]
            unfold Streams.refInc
            rw [show (s3.modStream k fun st => { st with refCount := st.refCount + 1 }).stream j = s3.stream j from by
              apply stream_modStream_ne _ _ _ ?_ hjk; intro _; rfl, hstr3]
            have : (s1.stream j).refCount = (s.stream j).refCount := by
              have := qPop_spr (P := (·.refCount)) s .pendingAccept (fun x v => setQueued_ref x _ v) j
              rw [hq] at this; exact this
            rw [this, stream_of_get? hx]; exact hc
        · obtain ⟨m, u, f, rest, hr⟩ := hreq
          exact ⟨m, u, f, rest, by rw [hst4, hstr3]; show (s1.stream k).pendingRecv = _; rw [hp1, hr]⟩

/-- **`Recv::take_request` cannot reach its `unreachable!`** on a handle whose stream starts with the request head
    (what `next_incoming` has just handed out); it keeps `NPI` and `J` -/
theorem recvTakeRequest_npi {s : Streams} (hn : NPI (fun _ => False) s) (hj : J s) {k : Nat} (hk : Live s k)
    (hr : (s.stream k).refCount > 0) (hreq : ReqHead (s.stream k)) :
    NPI (fun _ => False) (s.recvTakeRequest k).1 ∧ J (s.recvTakeRequest k).1 ∧ (s.recvTakeRequest k).2.isSome = true := by
  obtain ⟨m, u, f, rest, hp⟩ := hreq
  have ev := recvTakeRequest_ev (ρ := false) s k
  unfold Streams.recvTakeRequest at ev ⊢
  rw [hp] at ev ⊢
  dsimp only at ev ⊢
  refine ⟨hn.lt (LT.w (modStream_lt _ _ _ (fun _ => by inert_tac))) (liveAll1 hk) ev noE, ?_, rfl⟩
  exact hj.al1 (modStream_alp _ _ _ (ar_pop hp)) (hj.not_mem_of_ref hr)

/-- `server::Connection::poll_accept`: `next_incoming` and, on the handle it returns, `take_request` -/
def acceptOp (s : Streams) : Streams :=
  match s.nextIncoming with
  | (s', some k) => (s'.recvTakeRequest k).1
  | (s', none) => s'

/-- **the server accept path cannot panic** -/
theorem acceptOp_npi {s : Streams} {H : List Nat} (hn : NPI (fun _ => False) s) (hj : J s) (hh : HOK s H) :
    NPI (fun _ => False) (acceptOp s) ∧ J (acceptOp s) := by
  obtain ⟨h1, h2, _, h4⟩ := nextIncoming_npi hn hj hh
  unfold acceptOp
  cases hq : s.nextIncoming with
  | mk s' o =>
    rw [hq] at h1 h2 h4
    cases o with
    | none => exact ⟨h1, h2⟩
    | some k =>
      obtain ⟨_, _, _, hl, hr, hreq⟩ := h4 k rfl
      have := recvTakeRequest_npi h1 h2 hl (by rw [hr]; exact Nat.one_pos) hreq
      exact ⟨this.1, this.2.1⟩

end H2V.Lemmas.ConnNoPanicP
