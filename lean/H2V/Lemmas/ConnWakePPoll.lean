import H2V.Lemmas.ConnWakePStepStreams
/-
  ConnWakeP, part 6 — the `poll_*` functions of the handles: when they answer `Pending` they have
  parked the caller's waker in the slot of the stream, and the condition they wait for is false
  (C06: WAITING ⇒ REGISTERED); when the stream is closed or the connection has an error they never
  answer `Pending` (C07: nothing hangs) — with the two exceptions that are real and are stated as
  counterexamples in `ConnWakePFindings.lean`.
-/
namespace H2V.Lemmas.ConnWakeP
open H2V H2V.Model H2V.Model.Conn

-- ===================================================================== reading a stream back

theorem stream_modStream_same {s : Streams} {k : Nat} {a : Stream} (f : Stream → Stream)
    (ha : s.store.get? k = some a) (hk : (f a).key = a.key) : (s.modStream k f).stream k = f a := by
  have hak : a.key = k := Store.get?_key ha
  simp only [Streams.modStream, ha, Streams.stream, Streams.setStream, Store.get?_set, hk, hak, if_true,
    Option.map_some, Option.getD_some]

theorem get?_modStream_same {s : Streams} {k : Nat} {a : Stream} (f : Stream → Stream)
    (ha : s.store.get? k = some a) (hk : (f a).key = a.key) : (s.modStream k f).store.get? k = some (f a) := by
  have hak : a.key = k := Store.get?_key ha
  simp only [Streams.modStream, ha, Streams.setStream, Store.get?_set, hk, hak, if_true, Option.map_some]

theorem get?_modStream_other {s : Streams} {k k' : Nat} (f : Stream → Stream) (hf : ∀ a, (f a).key = a.key)
    (hkk : k' ≠ k) : (s.modStream k f).store.get? k' = s.store.get? k' := by
  unfold Streams.modStream
  split
  · next a ha =>
    have hak : a.key = k := Store.get?_key ha
    simp only [Streams.setStream, Store.get?_set, hf, hak, if_neg hkk]
  · unfold Streams.panic; split <;> rfl

theorem modStream_wakes (s : Streams) (k : Nat) (f : Stream → Stream) : (s.modStream k f).wakes = s.wakes := by
  unfold Streams.modStream; split
  · rfl
  · unfold Streams.panic; split <;> rfl

theorem modStream_actions (s : Streams) (k : Nat) (f : Stream → Stream) : (s.modStream k f).actions = s.actions := by
  unfold Streams.modStream; split
  · rfl
  · unfold Streams.panic; split <;> rfl

/-- a stream whose state is not `Idle` exists in the slab (a dangling key reads as a blank stream) -/
theorem get?_of_closed {s : Streams} {k : Nat} (h : (s.stream k).state.isClosed = true) :
    ∃ a, s.store.get? k = some a ∧ s.stream k = a := by
  cases ha : s.store.get? k with
  | some a => exact ⟨a, rfl, stream_eq_of_get? ha⟩
  | none => simp [Streams.stream, ha, State.isClosed] at h

-- ===================================================================== State facts

theorem not_sendStreaming_of_closed {x : State} (h : x.isClosed = true) : x.isSendStreaming = false := by
  state_cases x <;> simp_all [State.isClosed, State.isSendStreaming]

/-- a closed stream answers `ensure_recv_open` with an error or "no more" — never "still open" -/
theorem ensureRecvOpen_of_closed {x : State} (h : x.isClosed = true) : x.ensureRecvOpen ≠ .ok true := by
  state_cases x <;> simp_all [State.isClosed, State.ensureRecvOpen]

/-- … and a stream that has seen END_STREAM answers "no more", not an error: the buffered message
    is followed by a clean end -/
theorem ensureRecvOpen_of_eos {x : State} (h : x.isRecvEndStream = true) : x.ensureRecvOpen = .ok false := by
  state_cases x <;> simp_all [State.isRecvEndStream, State.ensureRecvOpen]

/-- `ensure_reason` on a closed stream: a reason or an error — except after a clean end -/
theorem ensureReason_of_closed {x : State} (h : x.isClosed = true) (he : x.inner ≠ .closed .endStream)
    (mode : PollReset) : x.ensureReason mode ≠ .ok none := by
  state_cases x <;> simp_all [State.isClosed, State.ensureReason]

/-- the exception: after a clean end `ensure_reason` says "nothing yet" for ever -/
theorem ensureReason_endStream (mode : PollReset) : ({ inner := .closed .endStream } : State).ensureReason mode = .ok none := by
  cases mode <;> rfl

-- ===================================================================== poll_capacity

/-- `poll_capacity` answers `Pending` only after parking the caller in `send_task`; the stream is
    then still send-streaming, and either no capacity was assigned since the last poll, or the
    capacity is zero (and the flag is cleared so that the next increase wakes again) -/
theorem pollCapacity_pending {s s' : Streams} {k : Nat} {tag : String} {a : Stream}
    (ha : s.store.get? k = some a) (h : s.pollCapacity k tag = (s', .pending)) :
    (s'.stream k).sendTask = some tag ∧ a.state.isSendStreaming = true ∧
    (a.sendCapacityInc = false ∨ a.capacity s.prio.maxBufferSize = 0) ∧
    (s'.stream k).sendCapacityInc = false ∧ s'.wakes = s.wakes := by
  have hst : s.stream k = a := stream_eq_of_get? ha
  unfold Streams.pollCapacity at h
  simp only [hst] at h
  split at h
  · cases h
  · next hss =>
    split at h
    · next hinc =>
      obtain ⟨rfl, _⟩ := Prod.mk.inj h
      rw [stream_modStream_same _ ha rfl]
      simp_all [Stream.waitSend, modStream_wakes]
    · next hinc =>
      split at h
      · next hcap =>
        obtain ⟨rfl, _⟩ := Prod.mk.inj h
        have h1 := get?_modStream_same (fun st => { st with sendCapacityInc := false }) ha rfl
        rw [stream_modStream_same _ h1 rfl]
        refine ⟨rfl, by simpa using hss, Or.inr ?_, rfl, by simp [modStream_wakes]⟩
        have : (s.modStream k fun st => { st with sendCapacityInc := false }).sendCapacity k =
            a.capacity s.prio.maxBufferSize := by
          unfold Streams.sendCapacity
          rw [stream_modStream_same _ ha rfl]
          simp [Streams.prio, modStream_actions, Stream.capacity]
        rw [← this]; exact hcap
      · cases h

/-- a stream that is not send-streaming (closed, reset, half-closed local) gets `Ready(None)` -/
theorem pollCapacity_closed {s : Streams} {k : Nat} {tag : String}
    (h : (s.stream k).state.isClosed = true) : s.pollCapacity k tag = (s, .none) := by
  unfold Streams.pollCapacity
  simp [not_sendStreaming_of_closed h]

-- ===================================================================== poll_reset

theorem pollReset_pending {s s' : Streams} {k : Nat} {mode : PollReset} {tag : String} {a : Stream}
    (ha : s.store.get? k = some a) (h : s.pollReset k mode tag = (s', .ok none)) :
    (s'.stream k).sendTask = some tag ∧ a.state.ensureReason mode = .ok none ∧ s'.wakes = s.wakes := by
  have hst : s.stream k = a := stream_eq_of_get? ha
  unfold Streams.pollReset at h
  simp only [hst] at h
  split at h
  · cases h
  · cases h
  · next hr =>
    obtain ⟨rfl, _⟩ := Prod.mk.inj h
    rw [stream_modStream_same _ ha rfl]
    exact ⟨rfl, hr, modStream_wakes _ _ _⟩

/-- on a closed stream `poll_reset` is `Ready` (the reason, or the connection's error) — unless the
    stream ended cleanly (see `pollReset_endStream_hangs`) -/
theorem pollReset_closed {s : Streams} {k : Nat} {mode : PollReset} {tag : String}
    (h : (s.stream k).state.isClosed = true) (he : (s.stream k).state.inner ≠ .closed .endStream) :
    (s.pollReset k mode tag).2 ≠ .ok none ∧ (s.pollReset k mode tag).1 = s := by
  unfold Streams.pollReset
  have := ensureReason_of_closed h he mode
  split <;> simp_all

-- ===================================================================== receive side

theorem scheduleRecv_pending {s s' : Streams} {k : Nat} {tag : String} {a : Stream}
    (ha : s.store.get? k = some a) (h : s.scheduleRecv k tag = (s', .ok true)) :
    (s'.stream k).recvTask = some tag ∧ a.state.ensureRecvOpen = .ok true ∧ s'.wakes = s.wakes := by
  have hst : s.stream k = a := stream_eq_of_get? ha
  unfold Streams.scheduleRecv at h
  simp only [hst] at h
  split at h
  · cases h
  · next hr =>
    obtain ⟨rfl, _⟩ := Prod.mk.inj h
    rw [stream_modStream_same _ ha rfl]
    exact ⟨rfl, hr, modStream_wakes _ _ _⟩
  · cases h

/-- `poll_data` answers `Pending` only with an empty receive queue on a stream whose receive side is
    still open, after parking the caller in `recv_task` -/
theorem recvPollData_pending {s s' : Streams} {k : Nat} {tag : String} {a : Stream}
    (ha : s.store.get? k = some a) (h : s.recvPollData k tag = (s', .pending)) :
    (s'.stream k).recvTask = some tag ∧ a.pendingRecv = [] ∧ a.state.ensureRecvOpen = .ok true ∧
    s'.wakes = s.wakes := by
  have hst : s.stream k = a := stream_eq_of_get? ha
  unfold Streams.recvPollData at h
  simp only [hst] at h
  split at h
  · cases h
  · cases h
  · next hq =>
    split at h
    · cases h
    · next s1 hs =>
      obtain ⟨rfl, _⟩ := Prod.mk.inj h
      obtain ⟨h1, h2, h3⟩ := scheduleRecv_pending ha hs
      exact ⟨h1, hq, h2, h3⟩
    · cases h

/-- `poll_data` (through `OpaqueStreamRef`) likewise -/
theorem refPollData_pending {s s' : Streams} {k : Nat} {tag : String} {a : Stream}
    (ha : s.store.get? k = some a) (h : s.refPollData k tag = (s', .pending)) :
    (s'.stream k).recvTask = some tag ∧ a.pendingRecv = [] ∧ a.state.ensureRecvOpen = .ok true ∧
    s'.wakes = s.wakes := by
  unfold Streams.refPollData at h
  split at h
  · cases h
  · next r hne =>
    cases hr : s.recvPollData k tag with
    | mk s1 r1 =>
      rw [hr] at h
      cases h
      exact recvPollData_pending ha hr

/-- a closed stream (connection ended, reset, clean end) never makes `poll_data` wait -/
theorem recvPollData_closed {s : Streams} {k : Nat} {tag : String}
    (h : (s.stream k).state.isClosed = true) : ∀ s', s.recvPollData k tag ≠ (s', .pending) := by
  intro s' hp
  obtain ⟨a, ha, hst⟩ := get?_of_closed h
  obtain ⟨_, _, h3, _⟩ := recvPollData_pending ha hp
  rw [hst] at h
  exact ensureRecvOpen_of_closed h h3

/-- … and when END_STREAM had been received the buffered DATA is handed out first and then the end
    of the body is reported as a clean end (`None`), not as an error -/
theorem recvPollData_eos_end {s : Streams} {k : Nat} {tag : String}
    (h : (s.stream k).state.isRecvEndStream = true) (hq : (s.stream k).pendingRecv = []) :
    s.recvPollData k tag = (s, .none) := by
  unfold Streams.recvPollData Streams.scheduleRecv
  simp [hq, ensureRecvOpen_of_eos h]

theorem recvPollData_data {s : Streams} {k : Nat} {tag : String} {p : Bytes} {b : Bool} {rest : List REvent}
    (hq : (s.stream k).pendingRecv = .data p b :: rest) :
    (s.recvPollData k tag).2 = .data p b := by
  unfold Streams.recvPollData
  simp [hq]

/-- `poll_trailers` answers `Pending` after parking the caller, and only when the queue is empty on an
    open stream, or when something other than trailers (DATA not read yet) is at the front -/
theorem recvPollTrailers_pending {s s' : Streams} {k : Nat} {tag : String} {a : Stream}
    (ha : s.store.get? k = some a) (h : s.recvPollTrailers k tag = (s', .pending)) :
    (s'.stream k).recvTask = some tag ∧ s'.wakes = s.wakes ∧
    ((a.pendingRecv = [] ∧ a.state.ensureRecvOpen = .ok true) ∨ (∃ e rest, a.pendingRecv = e :: rest ∧ ∀ f, e ≠ .trailers f)) := by
  have hst : s.stream k = a := stream_eq_of_get? ha
  unfold Streams.recvPollTrailers at h
  simp only [hst] at h
  split at h
  · cases h
  · next e rest hne hq =>
    obtain ⟨rfl, _⟩ := Prod.mk.inj h
    rw [stream_modStream_same _ ha rfl]
    exact ⟨rfl, modStream_wakes _ _ _, Or.inr ⟨_, _, hq, fun f hf => hne f hf⟩⟩
  · next hq =>
    split at h
    · cases h
    · next s1 hs =>
      obtain ⟨rfl, _⟩ := Prod.mk.inj h
      obtain ⟨h1, h2, h3⟩ := scheduleRecv_pending ha hs
      exact ⟨h1, h3, Or.inl ⟨hq, h2⟩⟩
    · cases h

/-- on a closed stream `poll_trailers` waits only while unread events are buffered in front -/
theorem recvPollTrailers_closed {s : Streams} {k : Nat} {tag : String}
    (h : (s.stream k).state.isClosed = true) (hq : (s.stream k).pendingRecv = []) :
    ∀ s', s.recvPollTrailers k tag ≠ (s', .pending) := by
  intro s' hp
  obtain ⟨a, ha, hst⟩ := get?_of_closed h
  rw [hst] at h hq
  obtain ⟨_, _, h3 | ⟨e, rest, h3, _⟩⟩ := recvPollTrailers_pending ha hp
  · exact ensureRecvOpen_of_closed h h3.2
  · rw [hq] at h3; cases h3

/-- `poll_response` answers `Pending` only after parking the caller in `recv_task`, on a stream whose
    receive side is still open (whatever fuel the loop got) -/
theorem recvPollResponse_pending (n : Nat) {s s' : Streams} {k : Nat} {tag : String} {a : Stream}
    (ha : s.store.get? k = some a) (hn : a.pendingRecv.length < n)
    (h : Streams.recvPollResponse n s k tag = (s', .pending)) :
    (s'.stream k).recvTask = some tag ∧ (s'.stream k).state.ensureRecvOpen = .ok true ∧
    (s'.stream k).pendingRecv = [] ∧ s'.wakes = s.wakes := by
  induction n generalizing s a with
  | zero => omega
  | succ n ih =>
    have hst : s.stream k = a := stream_eq_of_get? ha
    unfold Streams.recvPollResponse at h
    simp only [hst] at h
    split at h
    · cases h
    · next st f rest hq =>
      have h1 := get?_modStream_same (fun st => { st with pendingRecv := rest }) ha rfl
      have := ih h1 (by simp only; rw [hq] at hn; simp at hn; omega) h
      rw [modStream_wakes] at this
      exact this
    · cases h
    · next hq =>
      split at h
      · cases h
      · cases h
      · next hr =>
        obtain ⟨rfl, _⟩ := Prod.mk.inj h
        rw [stream_modStream_same _ ha rfl]
        exact ⟨rfl, hr, hq, modStream_wakes _ _ _⟩

/-- on a closed stream `poll_response` is `Ready`: the response head if it is buffered, else the error -/
theorem recvPollResponse_closed (n : Nat) {s : Streams} {k : Nat} {tag : String} {a : Stream}
    (ha : s.store.get? k = some a) (hn : a.pendingRecv.length < n) (h : a.state.isClosed = true) :
    ∀ s', Streams.recvPollResponse n s k tag ≠ (s', .pending) := by
  intro s' hp
  obtain ⟨_, h2, _, _⟩ := recvPollResponse_pending n ha hn hp
  -- the state of stream `k` is not touched by `poll_response`
  have hstate : ∀ (n : Nat) (s s' : Streams) (a : Stream) (r : Streams.PollResponse), s.store.get? k = some a →
      Streams.recvPollResponse n s k tag = (s', r) → (s'.stream k).state = a.state := by
    intro n
    induction n with
    | zero => intro s s' a r ha h; unfold Streams.recvPollResponse at h; cases h; rw [stream_eq_of_get? ha]
    | succ n ih =>
      intro s s' a r ha h
      have hst : s.stream k = a := stream_eq_of_get? ha
      unfold Streams.recvPollResponse at h
      simp only [hst] at h
      split at h
      · obtain ⟨rfl, _⟩ := Prod.mk.inj h; rw [stream_modStream_same _ ha rfl]
      · next st f rest hq =>
        have h1 := get?_modStream_same (fun st => { st with pendingRecv := rest }) ha rfl
        have := ih _ _ { a with pendingRecv := rest } _ h1 h
        exact this
      · next rest _ _ _ =>
        obtain ⟨rfl, _⟩ := Prod.mk.inj h
        have h1 := get?_modStream_same (fun st => { st with pendingRecv := rest }) ha rfl
        have : ∀ m, ((s.modStream k fun st => { st with pendingRecv := rest }).panic m).stream k =
            (s.modStream k fun st => { st with pendingRecv := rest }).stream k := by
          intro m; unfold Streams.panic; split <;> rfl
        rw [this, stream_eq_of_get? h1]
      · split at h
        · obtain ⟨rfl, _⟩ := Prod.mk.inj h; rw [hst]
        · obtain ⟨rfl, _⟩ := Prod.mk.inj h; rw [hst]
        · obtain ⟨rfl, _⟩ := Prod.mk.inj h; rw [stream_modStream_same _ ha rfl]
  rw [hstate n s s' a _ ha hp] at h2
  exact ensureRecvOpen_of_closed h h2

-- ===================================================================== SendRequest::poll_ready / send_request

/-- `poll_ready` answers `Pending` only while its pending stream waits in `pending_open`, after
    parking the caller in the stream's `open_task` -/
theorem pollPendingOpen_pending {s s' : Streams} {p : Option Nat} {tag : String}
    (h : s.pollPendingOpen p tag = (s', .ok false)) :
    ∃ k, p = some k ∧ (s.stream k).isPendingOpen = true ∧ s.actions.connError = none ∧
      (∀ a, s.store.get? k = some a → (s'.stream k).openTask = some tag) ∧ s'.wakes = s.wakes := by
  unfold Streams.pollPendingOpen Streams.ensureNoConnError at h
  split at h
  · cases h
  · next hce =>
    split at hce
    · cases hce
    · next hnone =>
      split at h
      · cases h
      · split at h
        · next k =>
          split at h
          · next hpo =>
            obtain ⟨rfl, _⟩ := Prod.mk.inj h
            refine ⟨k, rfl, hpo, hnone, fun a ha => ?_, modStream_wakes _ _ _⟩
            rw [stream_modStream_same _ ha rfl]; rfl
          · cases h
        · cases h

/-- once the connection has an error (`recv_eof`, `handle_error`, GOAWAY received) `poll_ready` and
    `send_request` are `Ready(Err)`: no new work is accepted and nothing waits -/
theorem pollPendingOpen_connError {s : Streams} {e : PErr} (p : Option Nat) (tag : String)
    (h : s.actions.connError = some e) : s.pollPendingOpen p tag = (s, .error (.proto e)) := by
  unfold Streams.pollPendingOpen Streams.ensureNoConnError
  simp [h]

theorem sendRequest_connError {s : Streams} {e : PErr} (b : Bool) (f : List Hpack.Field) (eos : Bool) (p : Option Nat)
    (h : s.actions.connError = some e) : s.sendRequest b f eos p = (s, .error (.proto e)) := by
  unfold Streams.sendRequest Streams.ensureNoConnError
  simp [h]

end H2V.Lemmas.ConnWakeP
