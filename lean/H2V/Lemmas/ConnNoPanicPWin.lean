import H2V.Lemmas.ConnNoPanicPHist
import H2V.Lemmas.ConnRecvPReach
namespace H2V.Lemmas.ConnNoPanicP
open H2V H2V.Model H2V.Model.Conn H2V.Lemmas.ConnCountsP
open H2V.Lemmas.ConnResetP (Op run)

/-- the same operation in ConnRecvP's vocabulary -/
def toRecvOp : Op → ConnRecvP.Op
  | .recvHeaders h => .recvHeaders h
  | .recvData id p eos pad => .recvData id p eos pad
  | .recvReset id r => .recvReset id r
  | .recvWindowUpdate id inc => .recvWindowUpdate id inc
  | .recvPushPromise id h => .recvPushPromise id h
  | .handleError e => .handleError e
  | .recvGoAwayFrame l r d => .recvGoAwayFrame l r d
  | .recvGoAway l => .recvGoAway l
  | .recvEof c => .recvEof c
  | .innerSendReset id r => .innerSendReset id r
  | .setTargetConnectionWindow t => .setTargetConnectionWindow t
  | .applyRemoteSettings v b => .applyRemoteSettings v b
  | .applyLocalSettingsFrame v => .applyLocalSettings v
  | .pollComplete fuel w io tag => .pollComplete fuel w io tag
  | .pollSendPendingRefusal fuel w io tag => .pollSendPendingRefusal fuel w io tag
  | .clearExpiredResetStreams fuel => .clearExpiredResetStreams fuel
  | .wake t => .wake t
  | .clearWakes => .clearWakes
  | .panic m => .panic m
  | .cloneHandle => .cloneHandle
  | .dropHandle => .dropHandle
  | .sendRequest a b c d => .sendRequest a b c d
  | .pollPendingOpen p tag => .pollPendingOpen p tag
  | .nextIncoming => .nextIncoming
  | .recvTakeRequest k => .recvTakeRequest k
  | .cloneStreamRef k => .cloneStreamRef k
  | .dropStreamRef k => .dropStreamRef k
  | .refSendResponse k f eos => .refSendResponse k f eos
  | .refSendInformationalHeaders k f => .refSendInformationalHeaders k f
  | .refSendPushPromise p v f => .refSendPushPromise p v f
  | .refSendData k len eos => .refSendData k len eos
  | .refSendTrailers k f => .refSendTrailers k f
  | .refReserveCapacity k c => .refReserveCapacity k c
  | .pollCapacity k tag => .pollCapacity k tag
  | .refSendReset k r => .refSendReset k r
  | .pollReset k m tag => .pollReset k m tag
  | .recvPollResponse fuel k tag => .recvPollResponse fuel k tag
  | .recvPollInformational k tag => .recvPollInformational k tag
  | .refPollData k tag => .refPollData k tag
  | .recvPollTrailers k tag => .recvPollTrailers k tag
  | .refReleaseCapacity k n => .refReleaseCapacity k n
  | .refClearRecvBuffer k => .refClearRecvBuffer k

theorem toRecvOp_apply (s : Streams) (op : Op) : (toRecvOp op).apply s = op.apply s := by cases op <;> rfl

/-- ConnRecvP's connection-level receive-window invariant, for some configuration ghost -/
def JR (s : Streams) : Prop := ∃ g, ConnRecvP.Inv false g s

theorem JR_init {s : Streams} (h : ConnRecvP.Init s) : JR s := ⟨_, ConnRecvP.Inv.init h false⟩

theorem JR_step {s : Streams} (hj : JR s) (op : Op) (hv : (toRecvOp op).valid s) : JR (op.apply s) := by
  obtain ⟨g, hg⟩ := hj
  rw [← toRecvOp_apply]
  exact ⟨_, ((toRecvOp op).step_inv hg hv).1⟩

theorem JR.add_nonneg {s : Streams} (hj : JR s) :
    ∀ w, s.recv.flow.available.add s.recv.inFlightData = .ok w → 0 ≤ w.val := by
  obtain ⟨g, h⟩ := hj
  intro w hw
  have hb := h.cI_bound
  have hc := h.cons
  have hA := (H2V.Lemmas.Comp.inI32_iff _).1 h.aI32
  have ht := h.tHi
  have hm := h.hiMax
  simp only [ConnRecvP.cA, ConnRecvP.cI] at hb hc hA
  unfold Window.add checkedAdd at hw
  split at hw
  · next v hv =>
    cases hw
    split at hv
    · next hi =>
      cases hv
      have hi' := (H2V.Lemmas.Comp.inI32_iff _).1 hi
      show 0 ≤ s.recv.flow.available.val + u32AsI32 s.recv.inFlightData
      unfold u32AsI32 U32_MOD at hi' ⊢
      dsimp only at hi' ⊢
      have hmod : s.recv.inFlightData % 4294967296 = s.recv.inFlightData := Nat.mod_eq_of_lt hb.2
      rw [hmod] at hi' ⊢
      split at hi' <;> split <;> omega
    · cases hv
  · cases hw

theorem setTargetConnectionWindow_lt (s : Streams) (t : Nat)
    (hw : ∀ w, s.recv.flow.available.add s.recv.inFlightData = .ok w → 0 ≤ w.val) :
    LT [] s (s.setTargetConnectionWindow t).1 := by
  unfold Streams.setTargetConnectionWindow
  split
  · exact .refl _ _
  · next w heq =>
    have h0 := hw w heq
    split
    · next hn =>
      exfalso
      unfold Window.checkedSize at hn
      split at hn
      · omega
      · cases hn
    · lt_auto

/-- **`set_target_window_size` cannot panic**: `Window::checked_size`'s `assert!(self.0 >= 0)` ("negative Window") is
    dead because `available + in_flight_data` is the configured target (ConnRecvP's connection-level invariant) -/
theorem setTargetConnectionWindow_npi {E : Nat → Prop} {s : Streams} (hn : NPI E s) (hj : JR s) (t : Nat) :
    NPI E (s.setTargetConnectionWindow t).1 :=
  hn.lt (setTargetConnectionWindow_lt s t hj.add_nonneg).w (liveAll0 s) (setTargetConnectionWindow_ev (ρ := false) s t) noE
