import H2V.Lemmas.ConnPartPRstClass
import H2V.Lemmas.ConnCtlPViolStreams
/-
  ConnPartP, part 9 — C09: `Send::send_reset` by itself leaves the RST_STREAM owed, and a following
  `reset_on_recv_stream_err` on the same (now reset) stream keeps it owed.  That is the shape of
  `Send::recv_stream_window_update`: a WINDOW_UPDATE that overflows the stream's send window resets the
  stream FIRST (`send_reset(FLOW_CONTROL_ERROR)`) and then hands the stream error to the dispatcher.
-/
set_option linter.unusedSectionVars false
namespace H2V.Lemmas.ConnPartP
open H2V H2V.Model H2V.Model.Conn H2V.Lemmas.ConnResetP

theorem reclaimTail_frame (x : Streams) (id : Nat) :
    Evolves CoreEq (fun _ => True) x.store (x.reclaimAllCapacity id).store := by
  have h : Evolves CoreEq (fun _ => True) x.store x.store := Evolves.refl _
  ev

theorem dispatchTail_frame (x : Streams) (id : Nat) :
    Evolves CoreEq (fun _ => True) x.store ((x.enqueueResetExpiration id).modStreamW id Stream.notifyRecv).store := by
  have h : Evolves CoreEq (fun _ => True) x.store x.store := Evolves.refl _
  ev

/-- keys stay below `next_key` through `sendResetPre` and any continuation that inserts nothing above -/
theorem keysBelow_of_tail (s : Streams) (id : Nat) (r : Reason) (i : Initiator) (hkb : KeysBelow s.store) (fin : Streams)
    (ev : Evolves CoreEq (fun _ => True) (sendResetPre s id r i).store fin.store) :
    KeysBelow fin.store ∧ s.store.nextKey ≤ fin.store.nextKey := by
  obtain ⟨G, hG, hGk, _⟩ := sendResetPre_store s id r i
  rw [hG] at ev
  refine ⟨ev.keysBelow ?_, by have := ev.nk; rw [Store.nextKey_mod] at this; exact this⟩
  intro k st hk
  rw [Store.get?_mod' _ _ _ hGk k] at hk
  rw [Store.nextKey_mod]
  split at hk
  · next h =>
    cases hg : s.store.get? id with
    | none => rw [hg] at hk; cases hk
    | some x => rw [h]; exact hkb id x hg
  · exact hkb k st hk

/-- after `Send::send_reset` a send-ready stream is linked in `pending_send` -/
theorem sendSendReset_flag (x : Streams) (k : Nat) (r : Reason) (i : Initiator) (st : Stream)
    (hg : x.store.get? k = some st) (hr : st.state.isReset = false)
    (hne : (st.state.isClosed && (st.pendingSend.isEmpty && st.bufferedSendData == 0)) = false)
    (hrdy : st.isSendReady = true) :
    ∃ y, (x.sendSendReset k r i).store.get? k = some y ∧ y.isPendingSend = true := by
  have hs : x.stream k = st := stream_of_get? _ hg
  rw [sendSendReset_eq x k r i (by rw [hs]; exact hr) (by rw [hs]; exact hne), sendResetPre_eq_head]
  obtain ⟨x1, hx1, hr1⟩ : ∃ x1, (sendResetHead x k r i).store.get? k = some x1 ∧ Rdy st x1 := by
    rcases (y_sendResetHead k r i (ConnWakeP.GStep.refl x)).keep k st hg with ⟨f, _⟩ | h
    · exact f.elim
    · exact h
  obtain ⟨y, hy, hf⟩ := queueFrame_flag (s := sendResetHead x k r i) k (.reset r) x1 hx1 (by rw [hr1.isSendReady]; exact hrdy)
  rcases (y_reclaimAllCapacity k (ConnWakeP.GStep.refl ((sendResetHead x k r i).queueFrame k (.reset r)))).keep k y hy
    with ⟨f, _⟩ | ⟨y', hy', hyy⟩
  · exact f.elim
  · exact ⟨y', hy', hyy.isPendingSend hf⟩

/-- **`Send::send_reset(reason, init)`** on a stream that is not reset yet and not (closed with nothing
    unsent): the RST_STREAM is owed, the other streams are kept -/
theorem sendSendReset_owes (s : Streams) (k : Nat) (reason : Reason) (init : Initiator) (st : Stream)
    (hkb : KeysBelow s.store) (hg : s.store.get? k = some st) (hr : st.state.isReset = false)
    (hne : (st.state.isClosed && (st.pendingSend.isEmpty && st.bufferedSendData == 0)) = false) :
    OwesRst s (s.sendSendReset k reason init) k st reason init ∧ OthersKept s (s.sendSendReset k reason init) k := by
  have hev := ConnCountsP.sendSendReset_ev (ρ := true) s k reason init
  have hs : s.stream k = st := stream_of_get? _ hg
  have hcore : s.sendSendReset k reason init = (sendResetPre s k reason init).reclaimAllCapacity k :=
    sendSendReset_eq s k reason init (by rw [hs]; exact hr) (by rw [hs]; exact hne)
  obtain ⟨⟨st', h1, h2, h3, h4⟩, c2, c3⟩ := reset_spec_of_tail s k reason init st hkb hg
    (s.sendSendReset k reason init) (by rw [hcore]; exact reclaimTail_frame _ k)
  refine ⟨⟨st', h1, h2, h3, h4, fun hrdy => ?_⟩, c2, c3⟩
  obtain ⟨y, hy, hf⟩ := sendSendReset_flag s k reason init st hg hr hne hrdy
  have : y = st' := by rw [h1] at hy; cases hy; rfl
  subst this
  exact ⟨hf, fun hqok hp => mem_pendingSend_of_flag ((hev.qstep .pendingSend (by decide)).ok hp hqok) hy hf⟩

/-- **`send_reset` followed by `reset_on_recv_stream_err` on the same stream** (the WINDOW_UPDATE
    overflow path): the dispatcher finds the stream reset, queues nothing more, and the RST_STREAM of the
    first call stays owed -/
theorem sendReset_then_dispatch_owes (s : Streams) (k sid : Nat) (reason reason' : Reason) (init init' : Initiator)
    (st : Stream) (hkb : KeysBelow s.store) (hg : s.store.get? k = some st) (hr : st.state.isReset = false)
    (hne : (st.state.isClosed && (st.pendingSend.isEmpty && st.bufferedSendData == 0)) = false)
    (hq : (s.sendSendReset k reason init).counts.canIncNumLocalErrorResets = true) :
    ((s.sendSendReset k reason init).resetOnRecvStreamErr k (.error (.reset sid reason' init'))).2 = .ok () ∧
    OwesRst s ((s.sendSendReset k reason init).resetOnRecvStreamErr k (.error (.reset sid reason' init'))).1 k st reason init ∧
    OthersKept s ((s.sendSendReset k reason init).resetOnRecvStreamErr k (.error (.reset sid reason' init'))).1 k := by
  obtain ⟨⟨st1, g1, i1, e1, p1, f1⟩, o2, o3⟩ := sendSendReset_owes s k reason init st hkb hg hr hne
  obtain ⟨hkb1, hnk⟩ : KeysBelow (s.sendSendReset k reason init).store ∧
      s.store.nextKey ≤ (s.sendSendReset k reason init).store.nextKey := by
    have hs : s.stream k = st := stream_of_get? _ hg
    have hcore : s.sendSendReset k reason init = (sendResetPre s k reason init).reclaimAllCapacity k :=
      sendSendReset_eq s k reason init (by rw [hs]; exact hr) (by rw [hs]; exact hne)
    exact keysBelow_of_tail s k reason init hkb _ (by rw [hcore]; exact reclaimTail_frame _ k)
  have hev1 := ConnCountsP.sendSendReset_ev (ρ := true) s k reason init
  have hev2 := ConnCountsP.resetOnRecvStreamErr_ev (ρ := true) (s.sendSendReset k reason init) k
    (.error (.reset sid reason' init'))
  generalize s.sendSendReset k reason init = t at *
  rw [resetOnRecvStreamErr_ok t k sid reason' init' hq] at hev2 ⊢
  generalize hx : t.modCountsA "can_inc_num_local_error_resets" Counts.incNumLocalErrorResets = x at hev2 ⊢
  have hxs : x.store = t.store := by subst hx; exact modCountsA_store _ _ _
  have hgx : x.store.get? k = some st1 := by rw [hxs]; exact g1
  have hsx : x.stream k = st1 := stream_of_get? _ hgx
  -- the second `send_reset` finds the stream reset
  have hnop : x.sendSendReset k reason' init' = x := by
    apply (sendSendReset_no_rst x k reason' init').1
    rw [hsx, e1]; rfl
  have hcore : resetCore x k reason' init' = (x.enqueueResetExpiration k).modStreamW k Stream.notifyRecv := by
    unfold resetCore; rw [hnop]
  rw [hcore] at hev2 ⊢
  have ev : Evolves CoreEq (fun _ => True) t.store ((x.enqueueResetExpiration k).modStreamW k Stream.notifyRecv).store := by
    rw [← hxs]; exact dispatchTail_frame x k
  have hq1 : st1.pendingSend ≠ [] := by rw [p1]; simp
  refine ⟨rfl, ?_, ?_, ?_⟩
  · -- the reset stream
    rcases ev.fwd k st1 g1 (hkb1 k st1 g1) with ⟨st2, g2, c⟩ | ⟨st'', c, d⟩
    · refine ⟨st2, g2, c.id.trans i1, c.state.trans e1, c.pendingSend.trans p1, fun hrdy => ?_⟩
      obtain ⟨hf1, hmem1⟩ := f1 hrdy
      have hys : YS x ((x.enqueueResetExpiration k).modStreamW k Stream.notifyRecv) :=
        ConnWakeP.g_modStreamW k _ (rdy_notifyRecv _) (y_enqueueResetExpiration k (ConnWakeP.GStep.refl x))
      have hf2 : st2.isPendingSend = true := by
        rcases hys.keep k st1 hgx with ⟨f, _⟩ | ⟨y, hy, hyy⟩
        · exact f.elim
        · rw [g2] at hy; cases hy; exact hyy.isPendingSend hf1
      refine ⟨hf2, fun hqok hp => ?_⟩
      have hpt : t.panicked = none := by
        cases hpp : t.panicked with
        | none => rfl
        | some m =>
          have := (hev2.qstep .pendingSend (by decide)).mono (by rw [hpp]; rfl)
          rw [hp] at this; cases this
      have hq1' := (hev1.qstep .pendingSend (by decide)).ok hpt hqok
      exact mem_pendingSend_of_flag ((hev2.qstep .pendingSend (by decide)).ok hp hq1') g2 hf2
    · exfalso; apply hq1; rw [← c.pendingSend]; exact d.1
  · intro k' st'' hk hlt h'
    rcases ev.back k' st'' h' with ⟨y, hy, c⟩ | ⟨hge, _, _⟩
    · obtain ⟨st0, h0, c0⟩ := o2 k' y hk hlt hy
      exact ⟨st0, h0, c0.trans c⟩
    · exfalso; omega
  · intro k' st0 hk h0 hq'
    obtain ⟨y, hy, c⟩ := o3 k' st0 hk h0 hq'
    rcases ev.fwd k' y hy (hkb1 k' y hy) with ⟨st2, g2, c2⟩ | ⟨st'', c2, d⟩
    · exact ⟨st2, g2, c.trans c2⟩
    · exfalso; apply hq'; rw [← c.pendingSend, ← c2.pendingSend]; exact d.1

-- ===================================================================== the quota is not touched by `send_reset`
namespace LerSec
open H2V.Lemmas.ConnWakeP
/-- the quota of locally caused resets is as it was -/
def Ler (b : Bool) (s : Streams) : Prop := s.counts.canIncNumLocalErrorResets = b

section
variable {b : Bool} {s : Streams}
theorem ler_of_counts_eq {t : Streams} (h : Ler b s) (e : t.counts.canIncNumLocalErrorResets = s.counts.canIncNumLocalErrorResets) :
    Ler b t := e.trans h

@[grind ←] theorem panic_ler (m : String) (h : Ler b s) : Ler b (s.panic m) :=
  ler_of_counts_eq h (by unfold Streams.panic; split <;> rfl)
@[grind ←] theorem wake_ler (w : List String) (h : Ler b s) : Ler b (s.wake w) := ler_of_counts_eq h rfl
@[grind ←] theorem notifyTask_ler (h : Ler b s) : Ler b s.notifyTask :=
  ler_of_counts_eq h (by unfold Streams.notifyTask; split <;> rfl)
@[grind ←] theorem modPrio_ler (f : Prioritize → Prioritize) (h : Ler b s) : Ler b (s.modPrio f) := ler_of_counts_eq h rfl
@[grind ←] theorem setQ_ler (q : QName) (l : List Nat) (h : Ler b s) : Ler b (s.setQ q l) := by
  cases q <;> exact ler_of_counts_eq h rfl
@[grind ←] theorem modStream_ler (k : Nat) (f : Stream → Stream) (h : Ler b s) : Ler b (s.modStream k f) :=
  ler_of_counts_eq h (by unfold Streams.modStream; split; rfl; unfold Streams.panic; split <;> rfl)
@[grind ←] theorem modStreamW_ler (k : Nat) (f : Stream → Stream × List String) (h : Ler b s) : Ler b (s.modStreamW k f) :=
  ler_of_counts_eq h (by unfold Streams.modStreamW; split; rfl; unfold Streams.panic; split <;> rfl)
@[grind ←] theorem modCounts_ler (f : Counts → Counts)
    (hf : (f s.counts).canIncNumLocalErrorResets = s.counts.canIncNumLocalErrorResets) (h : Ler b s) :
    Ler b (s.modCounts f) := ler_of_counts_eq h hf
@[grind ←] theorem decNumResetStreams_ler (m : String) (h : Ler b s) : Ler b (s.modCountsA m Counts.decNumResetStreams) := by
  unfold Streams.modCountsA Counts.decNumResetStreams
  split
  · next c hc => split at hc
                 · cases hc; exact ler_of_counts_eq h rfl
                 · cases hc
  · exact panic_ler _ h
@[grind ←] theorem unlink_ler (id : Nat) (h : Ler b s) : Ler b { s with store := s.store.unlink id } := ler_of_counts_eq h rfl
@[grind ←] theorem remove_ler (k n : Nat) (h : Ler b s) : Ler b { s with store := s.store.remove k, recvBufferLeaked := n } :=
  ler_of_counts_eq h rfl
@[grind ←] theorem qPush_ler (q : QName) (k : Nat) (h : Ler b s) : Ler b (s.qPush q k).1 := by
  unfold Streams.qPush; tear_grind
@[grind ←] theorem qPop_ler (q : QName) (h : Ler b s) : Ler b (s.qPop q).1 := by
  unfold Streams.qPop; tear_grind
@[grind ←] theorem decNumStreams_ler (k : Nat) (h : Ler b s) : Ler b (s.decNumStreams k) := by
  have key : ∀ (t : Streams) (f : Counts → Counts),
      (∀ c, (f c).canIncNumLocalErrorResets = c.canIncNumLocalErrorResets) → Ler b t →
      Ler b ((t.modCounts f).modStream k fun st => { st with isCounted := false }) :=
    fun t f hf ht => modStream_ler _ _ (ler_of_counts_eq ht (hf _))
  unfold Streams.decNumStreams
  simp only
  generalize hs1 : (if (s.stream k).isCounted = true then s else s.panic "assertion failed: stream.is_counted") = s1
  have h1 : Ler b s1 := by
    subst hs1; split
    · exact h
    · exact panic_ler _ h
  split
  · refine key _ _ (fun _ => rfl) ?_
    split
    · exact h1
    · exact panic_ler _ h1
  · refine key _ _ (fun _ => rfl) ?_
    split
    · exact h1
    · exact panic_ler _ h1
@[grind ←] theorem transitionAfter_ler (k : Nat) (r : Bool) (h : Ler b s) : Ler b (s.transitionAfter k r) := by
  unfold Streams.transitionAfter; tear_grind
@[grind ←] theorem tryAssignCapacity_ler (k : Nat) (h : Ler b s) : Ler b (s.tryAssignCapacity k) := by
  unfold Streams.tryAssignCapacity; tear_grind
@[grind ←] theorem assignConnectionCapacityLoop_ler (n : Nat) (h : Ler b s) : Ler b (Streams.assignConnectionCapacityLoop n s) := by
  induction n generalizing s with
  | zero => unfold Streams.assignConnectionCapacityLoop; exact h
  | succ n ih => unfold Streams.assignConnectionCapacityLoop; tear_grind
@[grind ←] theorem assignConnectionCapacity_ler (inc : Nat) (h : Ler b s) : Ler b (s.assignConnectionCapacity inc) := by
  unfold Streams.assignConnectionCapacity; tear_grind
@[grind ←] theorem reclaimAllCapacity_ler (k : Nat) (h : Ler b s) : Ler b (s.reclaimAllCapacity k) := by
  unfold Streams.reclaimAllCapacity; tear_grind
@[grind ←] theorem clearQueue_ler (k : Nat) (h : Ler b s) : Ler b (s.clearQueue k) := by
  unfold Streams.clearQueue; tear_grind
@[grind ←] theorem scheduleSend_ler (k : Nat) (h : Ler b s) : Ler b (s.scheduleSend k) := by
  unfold Streams.scheduleSend; tear_grind
@[grind ←] theorem queueFrame_ler (k : Nat) (f : SFrame) (h : Ler b s) : Ler b (s.queueFrame k f) := by
  unfold Streams.queueFrame; tear_grind
/-- `Send::send_reset` does not touch the quota of locally caused resets -/
theorem sendSendReset_ler (k : Nat) (r : Reason) (i : Initiator) (h : Ler b s) : Ler b (s.sendSendReset k r i) := by
  unfold Streams.sendSendReset; tear_grind
end
end LerSec
open LerSec

theorem isSendClosed_of_isClosed (x : State) (h : x.isClosed = true) : x.isSendClosed = true := by
  unfold State.isClosed at h
  unfold State.isSendClosed
  cases hi : x.inner <;> simp_all

/-- **WINDOW_UPDATE overflowing a stream's send window** (RFC 9113 §6.9.1: stream error FLOW_CONTROL_ERROR):
    `recv_window_update` answers `Ok(())`, RST_STREAM(FLOW_CONTROL_ERROR) is owed on the stream, the other
    streams are kept -/
theorem recvWindowUpdate_overflow_owes (s : Streams) (id inc k : Nat) (st : Stream) (h0 : id ≠ 0)
    (hk : s.store.findKey? id = some k) (hg : s.store.get? k = some st) (hp : st.isPendingOpen = false)
    (hc : ¬ (st.state.isSendClosed = true ∧ st.bufferedSendData = 0))
    (ho : ¬ (inI32 (st.sendFlow.windowSize.val + u32AsI32 inc) = true ∧
            st.sendFlow.windowSize.val + u32AsI32 inc ≤ (Generated.Consts.MAX_WINDOW_SIZE : Int)))
    (hkb : KeysBelow s.store) (hr : st.state.isReset = false)
    (hq : s.counts.canIncNumLocalErrorResets = true) :
    (s.recvWindowUpdate id inc).2 = .ok () ∧
    OwesRst s (s.recvWindowUpdate id inc).1 k st FLOW_CONTROL_ERROR .library ∧
    OthersKept s (s.recvWindowUpdate id inc).1 k := by
  have hs : s.stream k = st := stream_of_get? _ hg
  rw [H2V.Lemmas.ConnCtlP.recvWindowUpdate_stream_overflow s id inc k h0 hk (by rw [hs]; exact hp)
    (by rw [hs]; exact hc) (by rw [hs]; exact ho)]
  have hne : (st.state.isClosed && (st.pendingSend.isEmpty && st.bufferedSendData == 0)) = false := by
    cases hcl : st.state.isClosed with
    | false => rfl
    | true =>
      have h1 := isSendClosed_of_isClosed _ hcl
      have h2 : st.bufferedSendData ≠ 0 := fun h => hc ⟨h1, h⟩
      simp [h2]
  exact sendReset_then_dispatch_owes s k id FLOW_CONTROL_ERROR FLOW_CONTROL_ERROR .library .library st hkb hg hr hne
    (sendSendReset_ler (b := true) k FLOW_CONTROL_ERROR .library hq)

end H2V.Lemmas.ConnPartP
