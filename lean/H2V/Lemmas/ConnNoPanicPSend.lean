import H2V.Lemmas.ConnNoPanicPTac
import H2V.Lemmas.ConnWakePTear
import H2V.Lemmas.CompState
/-
  C08 (no panic) — part 3: `LT` for the functions of prioritize.rs / send.rs that work on one stream
  (everything except the loops that release streams: `pop_frame`, `clear_pending_*`, `try_for_each`).
-/
namespace H2V.Lemmas.ConnNoPanicP
open H2V H2V.Model H2V.Model.Conn H2V.Lemmas.ConnCountsP
attribute [local irreducible] wrapSubU32 wrapSubUsize

theorem scheduleSend_lt (s : Streams) (k : Nat) : LT [k] s (s.scheduleSend k) := by
  unfold Streams.scheduleSend; lt_auto
theorem queueFrame_lt (s : Streams) (k : Nat) (f : SFrame) : LT [k] s (s.queueFrame k f) := by
  unfold Streams.queueFrame; lt_auto
theorem queueOpen_lt (s : Streams) (k : Nat) : LT [k] s (s.queueOpen k) := by
  unfold Streams.queueOpen; lt_auto
theorem tryAssignCapacity_lt (s : Streams) (k : Nat) : LT [k] s (s.tryAssignCapacity k) := by
  unfold Streams.tryAssignCapacity; lt_auto

-- ===================================================================== per-stream frames

/-- the fields of a stream that decide `is_closed` / `is_send_streaming` / `reset_at` -/
def coreOf (x : Stream) : State × Nat × List SFrame × Bool := (x.state, x.bufferedSendData, x.pendingSend, x.resetAt)

/-- no stream's core fields changed -/
def SP (s s' : Streams) : Prop := ∀ j, coreOf (s'.stream j) = coreOf (s.stream j)

theorem SP.refl (s : Streams) : SP s s := fun _ => rfl
theorem SP.trans {a b c : Streams} (h1 : SP a b) (h2 : SP b c) : SP a c := fun j => (h2 j).trans (h1 j)
theorem SP.of_store {s s' : Streams} (h : s'.store = s.store) : SP s s' := fun j => by unfold Streams.stream; rw [h]

theorem SP.setStream (s : Streams) (st' : Stream) (h : ∀ x, s.store.get? st'.key = some x → coreOf st' = coreOf x) :
    SP s (s.setStream st') := by
  intro j
  rcases setStream_stream s st' j with e | ⟨e, hj, hs⟩
  · rw [e]
  · rw [e]
    obtain ⟨x, hx⟩ := Option.isSome_iff_exists.mp hs
    rw [stream_of_get? hx]
    subst hj
    exact h x hx

theorem SP.modStream (s : Streams) (k : Nat) (f : Stream → Stream) (hk : ∀ x, (f x).key = x.key)
    (h : ∀ x, coreOf (f x) = coreOf x) : SP s (s.modStream k f) := by
  unfold Streams.modStream
  split
  · next st hst =>
    refine SP.setStream s _ ?_
    intro x hx
    rw [hk, get?_key hst, hst] at hx
    cases hx; exact h st
  · exact .of_store (panic_store _ _)

theorem SP.modStreamW (s : Streams) (k : Nat) (f : Stream → Stream × List String) (hk : ∀ x, (f x).1.key = x.key)
    (h : ∀ x, coreOf (f x).1 = coreOf x) : SP s (s.modStreamW k f) := by
  unfold Streams.modStreamW
  split
  · next st hst =>
    refine (SP.setStream s _ ?_).trans (.of_store rfl)
    intro x hx
    rw [hk, get?_key hst, hst] at hx
    cases hx; exact h st
  · exact .of_store (panic_store _ _)

theorem setQueued_core (x : Stream) (q : QName) (v : Bool) (h : q ≠ .pendingResetExpired) : coreOf (x.setQueued q v) = coreOf x := by
  cases q <;> first | rfl | exact absurd rfl h

theorem SP.qPush (s : Streams) (q : QName) (k : Nat) (h : q ≠ .pendingResetExpired) : SP s (s.qPush q k).1 := by
  unfold Streams.qPush; split
  · exact .refl _
  · exact (SP.modStream s k _ (fun x => by cases q <;> rfl) (fun x => setQueued_core x q true h)).trans (.of_store (setQ_store _ _ _))

theorem assignCapacity_core (x : Stream) (a b : Nat) : coreOf (x.assignCapacity a b).1 = coreOf x := by
  unfold Stream.assignCapacity Stream.notifyCapacity Stream.notifySend
  simp only []
  split
  · cases h1 : x.sendTask <;> cases h2 : x.openTask <;> rfl
  · rfl

theorem tryAssignCapacity_sp (s : Streams) (k : Nat) : SP s (s.tryAssignCapacity k) := by
  unfold Streams.tryAssignCapacity
  dsimp only
  split
  · exact .refl _
  split
  · exact .refl _
  split
  · exact .refl _
  have h1 : ∀ t : Streams, SP s t →
      SP s (if ((t.stream k).sendFlow.available.ltUsize (t.stream k).requestedSendCapacity && (t.stream k).sendFlow.hasUnavailable) = true
            then (t.qPush .pendingCapacity k).1 else t) := by
    intro t ht; split
    · exact ht.trans (SP.qPush _ _ _ (by decide))
    · exact ht
  have h2 : ∀ (t u : Streams), SP s u →
      SP s (if (decide ((t.stream k).bufferedSendData > 0) && (t.stream k).isSendReady) = true then (u.qPush .pendingSend k).1 else u) := by
    intro t u hu; split
    · exact hu.trans (SP.qPush _ _ _ (by decide))
    · exact hu
  refine h2 _ _ (h1 _ ?_)
  split
  · refine (SP.modStreamW s k _ ?_ (fun x => assignCapacity_core x _ _)).trans (.of_store rfl)
    intro x; exact (assignCapacity_inert x _ _).key
  · exact .refl _


theorem transitionAfter_noop {s : Streams} {k : Nat} {b : Bool} (hc : (s.stream k).isClosed = false)
    (hb : b = true → (s.stream k).resetAt = true) : s.transitionAfter k b = s := by
  unfold Streams.transitionAfter
  have h1 : (b && !(s.stream k).isPendingResetExpiration) = false := by
    cases hbb : b
    · rfl
    · simp [Stream.isPendingResetExpiration, hb hbb]
  have h2 : (s.stream k).isReleased = false := by unfold Stream.isReleased; simp [hc]
  simp only [h1, hc, h2, Bool.false_eq_true, if_false]

theorem isClosed_of_core {a b : Stream} (h : coreOf b = coreOf a) : b.isClosed = a.isClosed := by
  unfold coreOf at h
  simp only [Prod.mk.injEq] at h
  unfold Stream.isClosed; rw [h.1, h.2.1, h.2.2.1]
theorem resetAt_of_core {a b : Stream} (h : coreOf b = coreOf a) : b.resetAt = a.resetAt := by
  unfold coreOf at h
  simp only [Prod.mk.injEq] at h
  exact h.2.2.2

theorem assignConnectionCapacityLoop_lt (n : Nat) (s : Streams) : LT [] s (Streams.assignConnectionCapacityLoop n s) := by
  induction n generalizing s with
  | zero => unfold Streams.assignConnectionCapacityLoop; exact .refl _ _
  | succ n ih =>
    unfold Streams.assignConnectionCapacityLoop
    split
    · split
      · next s1 heq => exact LT.of_fst_eq heq (qPopCap_lt s)
      · next s1 id heq =>
        have h1 : LT [] s s1 := LT.of_fst_eq heq (qPopCap_lt s)
        dsimp only
        split
        · exact h1.trans (ih s1) (fun _ h => h)
        · next hc =>
          have hc' : ((s1.stream id).state.isSendStreaming || decide ((s1.stream id).bufferedSendData > 0)) = true := by
            cases hh : ((s1.stream id).state.isSendStreaming || decide ((s1.stream id).bufferedSendData > 0)) with
            | true => rfl
            | false => rw [hh] at hc; simp at hc
          have hsp := tryAssignCapacity_sp s1 id id
          have hnc : ((s1.tryAssignCapacity id).stream id).isClosed = false := by
            rw [isClosed_of_core hsp]; exact ConnWakeP.not_closed_of_streaming hc'
          rw [transitionAfter_noop hnc (fun hb => by rw [resetAt_of_core hsp]; exact hb)]
          refine LT.trans (ks' := []) ?_ (ih _) (fun _ h => h)
          exact ⟨h1.keys.trans (tryAssignCapacity_lt s1 id).keys, (tryAssignCapacity_lt s1 id).ids.trans h1.ids,
            h1.sid.trans (tryAssignCapacity_lt s1 id).sid, h1.ref.trans (tryAssignCapacity_lt s1 id).ref,
            h1.err.trans (tryAssignCapacity_lt s1 id).err,
            fun hl hq => (tryAssignCapacity_lt s1 id).ok
              (fun k hk => by rw [List.mem_singleton] at hk; subst hk; exact (qPopCap_live hq heq).2) (h1.ok hl hq)⟩
    · exact .refl _ _

theorem assignConnectionCapacity_lt (s : Streams) (inc : Nat) : LT [] s (s.assignConnectionCapacity inc) := by
  unfold Streams.assignConnectionCapacity; lt_auto

theorem reserveCapacity_lt (s : Streams) (k cap : Nat) : LT [k] s (s.reserveCapacity k cap) := by
  unfold Streams.reserveCapacity; lt_auto

theorem recvConnectionWindowUpdate_lt (s : Streams) (inc : Nat) : LT [] s (s.recvConnectionWindowUpdate inc).1 := by
  unfold Streams.recvConnectionWindowUpdate; lt_auto

theorem reclaimAllCapacity_lt (s : Streams) (k : Nat) : LT [k] s (s.reclaimAllCapacity k) := by
  unfold Streams.reclaimAllCapacity; lt_auto

theorem clearQueue_lt (s : Streams) (k : Nat) : LT [k] s (s.clearQueue k) := by
  unfold Streams.clearQueue; lt_auto

theorem sendOpenId_lt (s : Streams) : LT [] s s.sendOpenId.1 := by
  unfold Streams.sendOpenId; lt_auto

theorem sendHeaders_lt (s : Streams) (k : Nat) (eos : Bool) (f : List Hpack.Field) : LT [k] s (s.sendHeaders k eos f).1 := by
  unfold Streams.sendHeaders; lt_auto

theorem sendReserveLocal_lt (s : Streams) : LT [] s s.sendReserveLocal.1 := by
  unfold Streams.sendReserveLocal; exact sendOpenId_lt s

theorem sendPushPromise_lt (s : Streams) (p pk pid : Nat) (f : List Hpack.Field) : LT [p] s (s.sendPushPromise p pk pid f).1 := by
  unfold Streams.sendPushPromise; lt_auto

theorem sendInterimInformationalHeaders_lt (s : Streams) (k : Nat) (f : List Hpack.Field) :
    LT [k] s (s.sendInterimInformationalHeaders k f).1 := by
  unfold Streams.sendInterimInformationalHeaders; lt_auto

theorem sendSendReset_lt (s : Streams) (k : Nat) (r : Reason) (i : Initiator) : LT [k] s (s.sendSendReset k r i) := by
  unfold Streams.sendSendReset; lt_auto

theorem pollCapacity_lt (s : Streams) (k : Nat) (tag : String) : LT [k] s (s.pollCapacity k tag).1 := by
  unfold Streams.pollCapacity; lt_auto

theorem pollReset_lt (s : Streams) (k : Nat) (m : PollReset) (tag : String) : LT [k] s (s.pollReset k m tag).1 := by
  unfold Streams.pollReset; lt_auto

theorem sendRecvGoAway_lt (s : Streams) (l : Nat) : LT [] s (s.sendRecvGoAway l).1 := by
  unfold Streams.sendRecvGoAway; lt_auto

theorem sendHandleError_lt (s : Streams) (k : Nat) : LT [k] s (s.sendHandleError k) := by
  unfold Streams.sendHandleError; lt_auto

theorem sendMaybeResetNextStreamId_lt (s : Streams) (id : Nat) : LT [] s (s.sendMaybeResetNextStreamId id) := by
  unfold Streams.sendMaybeResetNextStreamId; lt_auto
/-- a panicking branch behind a light step: fine if it cannot be reached -/
theorem LT.panic_of {ks : List Nat} {s t : Streams} (m : String) (h : LT ks s t) (hf : LiveAll s ks → NPQ s → False) :
    LT ks s (t.panic m) :=
  ⟨h.keys.trans (SameKeys.panic' _ _), (by rw [panic_store]; exact h.ids), h.sid.trans (.of_store (panic_store _ _)),
   h.ref.trans (.of_store (panic_store _ _)), h.err.trans (panic_errSame _ _), fun hl hq => (hf hl hq).elim⟩

theorem state_of_core {a b : Stream} (h : coreOf b = coreOf a) : b.state = a.state := by
  unfold coreOf at h
  simp only [Prod.mk.injEq] at h
  exact h.1

/-- state-only frame -/
def SS (s s' : Streams) : Prop := ∀ j, (s'.stream j).state = (s.stream j).state
theorem SS.refl (s : Streams) : SS s s := fun _ => rfl
theorem SS.trans {a b c : Streams} (h1 : SS a b) (h2 : SS b c) : SS a c := fun j => (h2 j).trans (h1 j)
theorem SS.of_sp {s s' : Streams} (h : SP s s') : SS s s' := fun j => state_of_core (h j)
theorem SS.modStream (s : Streams) (k : Nat) (f : Stream → Stream) (hk : ∀ x, (f x).key = x.key)
    (h : ∀ x, (f x).state = x.state) : SS s (s.modStream k f) := by
  intro j
  unfold Streams.modStream
  split
  · next st hst =>
    rcases setStream_stream s (f st) j with e | ⟨e, hj, _⟩
    · rw [e]
    · rw [e, h]
      rw [hk, get?_key hst] at hj
      subst hj; rw [stream_of_get? hst]
  · rw [panic_stream]

theorem sendTrailers_lt (s : Streams) (k : Nat) (f : List Hpack.Field) : LT [k] s (s.sendTrailers k f).1 := by
  unfold Streams.sendTrailers
  split
  · exact .refl _ _
  · split
    · exact .refl _ _
    · next hss =>
      have hss' : (s.stream k).state.isSendStreaming = true := by
        cases h : (s.stream k).state.isSendStreaming with
        | true => rfl
        | false => rw [h] at hss; simp at hss
      obtain ⟨st', hst'⟩ := Option.isSome_iff_exists.mp (Comp.sendClose_some_of_isSendStreaming _ hss')
      simp only [hst']
      lt_auto

theorem prioSendData_lt (s : Streams) (k len : Nat) (eos : Bool) : LT [k] s (s.prioSendData k len eos).1 := by
  unfold Streams.prioSendData
  split
  · exact .refl _ _
  · dsimp only
    split
    · exact .refl _ _
    · next hss =>
      have hss' : (s.stream k).state.isSendStreaming = true := by
        cases h : (s.stream k).state.isSendStreaming with
        | true => rfl
        | false => rw [h] at hss; simp at hss
      have key : ∀ t : Streams, SS s t → (t.stream k).state.sendClose = none → False := fun t ht h => by
        rw [ht k] at h
        have := Comp.sendClose_some_of_isSendStreaming _ hss'
        rw [h] at this; cases this
      have h1 : SS s (s.modStream k fun st => { st with bufferedSendData := st.bufferedSendData + len }) :=
        SS.modStream _ _ _ (fun _ => rfl) (fun _ => rfl)
      split
      · split
        · lt_auto
        · next heq =>
          refine (key _ ?_ heq).elim
          split
          · refine SS.trans ?_ (SS.of_sp (tryAssignCapacity_sp _ _))
            refine SS.trans h1 (SS.modStream _ _ _ ?_ ?_)
            · intro _; rfl
            · intro _; rfl
          · exact h1
      · lt_auto

theorem claim_reserved_ok (f : FlowControl) (B : Nat) (hA : f.available.val ≤ 2147483647) (hB : f.available.asSize > B) :
    (f.claimCapacity (wrapSubU32 f.available.asSize (usizeAsU32 B))).2 = .ok () := by
  have hpos : ¬ f.available.val < 0 := by
    intro h; unfold Window.asSize at hB; rw [if_pos h] at hB; omega
  have ha : f.available.asSize = f.available.val.toNat := by unfold Window.asSize; rw [if_neg hpos]
  rw [ha] at hB ⊢
  generalize hv : f.available.val = A at *
  have hr : wrapSubU32 A.toNat (usizeAsU32 B) = A.toNat - B := by
    unfold wrapSubU32 usizeAsU32 U32_MOD; omega
  rw [hr]
  have hu : u32AsI32 (A.toNat - B) = ((A.toNat - B : Nat) : Int) := by
    unfold u32AsI32 U32_MOD
    have : (A.toNat - B) % 4294967296 = A.toNat - B := by omega
    simp only [this]
    rw [if_pos (by omega)]
  unfold FlowControl.claimCapacity Window.decreaseBy checkedSub
  rw [hv, hu]
  have : inI32 (A - ((A.toNat - B : Nat) : Int)) = true := by
    unfold inI32 I32_MIN I32_MAX
    simp only [Bool.and_eq_true, decide_eq_true_eq]
    omega
  simp only [this, if_true]

theorem modStream_lt' (s : Streams) (k : Nat) (f : Stream → Stream) (h : Inert (s.stream k) (f (s.stream k))) :
    LT [k] s (s.modStream k f) := by
  unfold Streams.modStream
  split
  · next st hst =>
    have := setStream_lt s k (f st) (by rw [stream_of_get? hst] at h; rw [stream_of_get? hst]; exact h)
    exact this
  · next hn =>
    exact LT.unreachable (panic_store _ _) (panic_errSame _ _)
      (fun hl _ => absurd (hl k (List.mem_cons_self ..)) (not_live_of_none hn))

/-- an `expect` on a `Result` that is `Ok` in every good state -/
theorem LT.guard_ok {ks : List Nat} {s : Streams} (r : FlowRes) (m : String) :
    (LiveAll s ks → NPQ s → r = .ok ()) → LT ks s (match r with | .ok _ => s | .error _ => s.panic m) := by
  intro h
  cases r with
  | ok _ => exact .refl _ _
  | error e => exact LT.unreachable (panic_store _ _) (panic_errSame _ _) (fun hl hq => by have := h hl hq; cases this)

theorem reclaimReservedCapacity_lt (s : Streams) (k : Nat) : LT [k] s (s.reclaimReservedCapacity k) := by
  unfold Streams.reclaimReservedCapacity
  dsimp only
  split
  · next hgt =>
    refine LT.trans (ks' := []) ?_ (assignConnectionCapacity_lt _ _) (fun _ h => absurd h List.not_mem_nil)
    have hav : LiveAll s [k] → NPQ s → (s.stream k).sendFlow.available.val ≤ 2147483647 := fun hl hq =>
      hq.av _ (get?_mem (hl k (List.mem_cons_self ..)).stream)
    have hg := LT.guard_ok (ks := [k]) (s := s)
      ((s.stream k).sendFlow.claimCapacity (wrapSubU32 (s.stream k).sendFlow.available.asSize (usizeAsU32 (s.stream k).bufferedSendData))).2
      "window size should be greater than reserved" (fun hl hq => claim_reserved_ok _ _ (hav hl hq) hgt)
    refine LT.trans hg (modStream_lt' _ _ _ ?_) (fun _ h => h)
    refine setSendFlow_inert _ _ ?_
    intro hle
    refine claimCapacity_le _ _ ?_
    have : ∀ (r : FlowRes) (m : String), ((match r with | .ok _ => s | .error _ => s.panic m).stream k) = s.stream k := by
      intro r m; cases r
      · exact panic_stream _ _ _
      · rfl
    rw [this] at hle; exact hle
  · exact .refl _ _

theorem scheduleImplicitReset_lt (s : Streams) (k : Nat) (r : Reason) : LT [k] s (s.scheduleImplicitReset k r) := by
  unfold Streams.scheduleImplicitReset; lt_auto

theorem incWindow_available (f : FlowControl) (n : Nat) : (f.incWindow n).1.available = f.available := by
  unfold FlowControl.incWindow; dsimp only; split
  · rfl
  · split <;> rfl

theorem decSendWindow_available (f : FlowControl) (n : Nat) : (f.decSendWindow n).1.available = f.available := by
  unfold FlowControl.decSendWindow; rfl

theorem prioRecvStreamWindowUpdate_lt (s : Streams) (k inc : Nat) : LT [k] s (s.prioRecvStreamWindowUpdate k inc).1 := by
  unfold Streams.prioRecvStreamWindowUpdate
  dsimp only
  split
  · exact .refl _ _
  · split
    · exact .refl _ _
    · exact .refl _ _
    · next fl _ heq =>
      refine LT.trans (modStream_lt' _ _ _ ?_) (tryAssignCapacity_lt _ _) (fun _ h => h)
      refine setSendFlow_inert _ _ (fun h => ?_)
      have : fl = ((s.stream k).sendFlow.incWindow inc).1 := by rw [heq]
      rw [this, incWindow_available]; exact h

theorem sendRecvStreamWindowUpdate_lt (s : Streams) (k sz : Nat) : LT [k] s (s.sendRecvStreamWindowUpdate k sz).1 := by
  unfold Streams.sendRecvStreamWindowUpdate; lt_auto

theorem decStreamWindow_lt (dec acc : Nat) (s : Streams) (k : Nat) : LT [k] s (Streams.decStreamWindow dec acc s k).1 := by
  unfold Streams.decStreamWindow
  dsimp only
  split
  · exact .refl _ _
  · split
    · exact .refl _ _
    · next fl _ heq =>
      have hfl : fl.available = (s.stream k).sendFlow.available := by
        have : fl = ((s.stream k).sendFlow.decSendWindow dec).1 := by rw [heq]
        rw [this, decSendWindow_available]
      split
      · split
        · refine modStream_lt' _ _ _ (setSendFlow_inert _ _ (fun h => ?_))
          rw [hfl]; exact h
        · next fl2 _ heq2 =>
          refine modStream_lt' _ _ _ (setSendFlow_inert _ _ (fun h => ?_))
          have : fl2 = (fl.claimCapacity (fl.available.asSize - fl.windowSz)).1 := by rw [heq2]
          rw [this]; exact claimCapacity_le _ _ (by rw [hfl]; exact h)
      · refine modStream_lt' _ _ _ (setSendFlow_inert _ _ (fun h => ?_))
        rw [hfl]; exact h
