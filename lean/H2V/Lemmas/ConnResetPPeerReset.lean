import H2V.Lemmas.ConnResetPDrop
import H2V.Lemmas.ConnResetPPeer
/-
  ConnResetP — `Inner::recv_reset` on a live stream: the peer's code is recorded on that stream and its
  unsent frames are discarded (C17).
-/
set_option linter.unusedSectionVars false
namespace H2V.Lemmas.ConnResetP
open H2V H2V.Model H2V.Model.Conn
set_option allowUnsafeReducibility true in
attribute [local reducible] Streams.stream Store.getD'

/-- the state `recv_reset` leaves on a stream that was not closed -/
def peerResetState (st : Stream) (code : Reason) : State :=
  ⟨.closed (if st.state.isRecvEndStream then .errorAfterEndStream (.reset st.id code .remote)
            else .error (.reset st.id code .remote))⟩

@[simp] theorem notifySend_key (x : Stream) : x.notifySend.1.key = x.key := (coreEq_notifySend x).key
@[simp] theorem notifyRecv_key (x : Stream) : x.notifyRecv.1.key = x.key := (coreEq_notifyRecv x).key
@[simp] theorem notifyPush_key (x : Stream) : x.notifyPush.1.key = x.key := (coreEq_notifyPush x).key

theorem recvRecvReset_store (s : Streams) (k : Nat) (code : Reason) (st : Stream)
    (hg : s.store.get? k = some st) (hpa : st.isPendingAccept = false) (hn : st.state.isClosed = false) :
    (s.recvRecvReset k code).2 = .ok () ∧
    ∃ y, (s.recvRecvReset k code).1.store.get? k = some y ∧ CoreEq { st with state := peerResetState st code } y ∧
      (s.recvRecvReset k code).1.store.nextKey = s.store.nextKey := by
  have hs : s.stream k = st := stream_of_get? _ hg
  unfold Streams.recvRecvReset
  have hpa' : (st.isPendingAccept = true) = False := by simp [hpa]
  simp only [hs, hpa', if_false]
  refine ⟨by first | rfl | trivial, ?_⟩
  simp only [crp_store]
  rw [Store.mod_mod _ _ _ _ (by intro x; simp) (by intro x; simp),
    Store.mod_mod _ _ _ _ (by intro x; simp) (by intro x; simp),
    Store.mod_mod _ _ _ _ (by intro x; simp) (by intro x; simp)]
  refine ⟨(({ st with state := st.state.recvReset st.id code st.isPendingSend } : Stream).notifySend.1.notifyRecv.1).notifyPush.1,
    ?_, ?_, by simp⟩
  · rw [Store.get?_mod' _ _ _ (by intro x; simp), if_pos rfl, hg]; rfl
  · have e : st.state.recvReset st.id code st.isPendingSend = peerResetState st code := by
      unfold peerResetState
      have := recvReset_state_open st.state st.id code st.isPendingSend hn
      generalize st.state.recvReset st.id code st.isPendingSend = x at this ⊢
      rcases x with ⟨i⟩; simp only at this; subst this; rfl
    rw [← e]
    exact ((coreEq_notifySend _).trans (coreEq_notifyRecv _)).trans (coreEq_notifyPush _)

theorem peerResetState_not_scheduled (st : Stream) (code : Reason) : (peerResetState st code).getScheduledReset = none := by
  unfold peerResetState State.getScheduledReset; cases st.state.isRecvEndStream <;> rfl

/-- **`Inner::recv_reset(id, code)` on a live stream**: the call succeeds; the stream (if it is still in
    the slab afterwards) is closed with exactly `Reset(id, code, Remote)` — `ErrorAfterEndStream` when the
    peer had already ended its side — and its `pending_send` is empty: every unsent frame is discarded. -/
theorem recvReset_records (s : Streams) (id : Nat) (code : Reason) (k : Nat) (st : Stream) (hkb : KeysBelow s.store)
    (hid : id ≠ 0) (hmax : ¬ id > s.recv.maxStreamId) (hf : s.store.findKey? id = some k)
    (hg : s.store.get? k = some st) (hpo : st.isPendingOpen = false) (hpa : st.isPendingAccept = false)
    (hn : st.state.isClosed = false) :
    (s.recvReset id code).2 = .ok () ∧
    ∀ st', (s.recvReset id code).1.store.get? k = some st' →
      st'.id = st.id ∧ st'.state = peerResetState st code ∧ st'.pendingSend = [] := by
  have hs : s.stream k = st := stream_of_get? _ hg
  obtain ⟨hok, y, hy, cy, hnk⟩ := recvRecvReset_store s k code st hg hpa hn
  unfold Streams.recvReset Streams.transition
  simp only [hid, hmax, hf, hs, hpo, if_false, Bool.false_eq_true]
  generalize s.recvRecvReset k code = r at hok hy hnk
  obtain ⟨sA, res⟩ := r
  simp only at hok hy hnk
  subst hok
  simp only
  have hyk : y.key = k := Store.get?_key hy
  have hkA : k < sA.store.nextKey := by rw [hnk]; exact hkb k st hg
  -- only what we need of KeysBelow for `sA`: the key `k`
  have hns : y.state.getScheduledReset = none := by rw [cy.state]; exact peerResetState_not_scheduled st code
  -- `sendHandleError` (same argument as `sendHandleError_frame`, with the key bound at hand)
  have h2 : (sA.clearQueue k).store.get? k =
      some { y with pendingSend := [], bufferedSendData := 0, requestedSendCapacity := 0 } := by
    rw [clearQueue_store, Store.get?_mod' _ _ _ (by intro; rfl), if_pos rfl, hy]; rfl
  have h3 : (sA.clearQueue k).store.nextKey = sA.store.nextKey := by rw [clearQueue_store]; simp
  have evC : Evolves CoreEq (fun _ => True) (sA.clearQueue k).store ((sA.clearQueue k).reclaimAllCapacity k).store :=
    reclaimAllCapacity_ev (Evolves.refl _) k
  have evD : Evolves CoreEq (fun _ => True) (sA.clearQueue k).store (sA.sendHandleError k).store := by
    unfold Streams.sendHandleError
    dsimp only
    split
    · split
      · next reason hsr =>
        exfalso
        cases hz : ((sA.clearQueue k).reclaimAllCapacity k).store.get? k with
        | none => rw [stream_of_none _ hz] at hsr; cases hsr
        | some z =>
          rw [stream_of_get? _ hz] at hsr
          rcases evC.back k z hz with ⟨z0, hz0, c⟩ | ⟨hge, _, _⟩
          · rw [h2] at hz0; cases hz0
            rw [c.state] at hsr
            simp only at hsr
            rw [hns] at hsr; cases hsr
          · rw [h3] at hge; omega
      · exact evC
    · exact evC
  refine ⟨by first | rfl | trivial, fun st' h' => ?_⟩
  have evF : Evolves CoreEq (fun _ => True) (sA.clearQueue k).store
      ((if ((sA.sendHandleError k).stream k).state.isClosed = true then sA.sendHandleError k
        else (sA.sendHandleError k).panic "assertion failed: stream.state.is_closed()").transitionAfter k
          st.isPendingResetExpiration).store := by
    have h := evD
    ev
  rcases evF.back k st' h' with ⟨z0, hz0, c⟩ | ⟨hge, _, _⟩
  · rw [h2] at hz0; cases hz0
    refine ⟨c.id.trans cy.id, ?_, c.pendingSend⟩
    rw [c.state]; exact cy.state
  · exfalso; rw [h3] at hge; omega

end H2V.Lemmas.ConnResetP
