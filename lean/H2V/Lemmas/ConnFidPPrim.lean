import H2V.Lemmas.ConnFidPStep
/-
  ConnFidP, part 3 — the primitive updates of `Streams` in accumulator form
  (`Tr P s0 s → Tr P s0 (prim s)`), registered as backward `grind` rules so that the lemma of a
  composite model function that only makes silent steps is `unfold f; fid_grind`
  (proof engineering after `ConnWakePPrim.lean`).  The labelled primitives (`queue_frame`,
  `clear_queue`, the pops, the receive-queue operations) are proved by hand in ConnFidPFnSend/Recv.
-/
namespace H2V.Lemmas.ConnFidP
open H2V H2V.Model H2V.Model.Conn H2V.Lemmas.ConnWakeP

/-- `Closed` is absorbing across a change of `State` -/
def ClMono (x y : State) : Prop := x.isClosed = true → y.isClosed = true

@[grind ←] theorem ClMono.refl (x : State) : ClMono x x := fun h => h
@[grind ←] theorem sendOpen_cl (x : State) (eos : Bool) : ClMono x (x.sendOpen eos).1 := (sendOpen_ok x eos).1
@[grind ←] theorem recvOpen_cl (x : State) (eos info : Bool) : ClMono x (x.recvOpen eos info).1 := (recvOpen_ok x eos info).1
@[grind ←] theorem reserveRemote_cl (x : State) : ClMono x (x.reserveRemote).1 := (reserveRemote_ok x).1
@[grind ←] theorem reserveLocal_cl (x : State) : ClMono x (x.reserveLocal).1 := (reserveLocal_ok x).1
@[grind ←] theorem recvClose_cl (x : State) : ClMono x (x.recvClose).1 := (recvClose_ok x).1
@[grind ←] theorem recvReset_cl (x : State) (sid : Nat) (r : Reason) (q : Bool) : ClMono x (x.recvReset sid r q) :=
  (recvReset_ok x sid r q).1
@[grind ←] theorem handleError_cl (x : State) (e : PErr) : ClMono x (x.handleError e) := (handleError_ok x e).1
@[grind ←] theorem recvEof_cl (x : State) : ClMono x x.recvEof := (recvEof_ok x).1
@[grind →] theorem sendClose_cl {x y : State} (h : x.sendClose = some y) : ClMono x y := (sendClose_ok h).1
@[grind ←] theorem setReset_cl (x : State) (sid : Nat) (r : Reason) (i : Initiator) : ClMono x (x.setReset sid r i) :=
  (setReset_ok x sid r i).1
@[grind ←] theorem setScheduledReset_cl (x : State) (r : Reason) : ClMono x (x.setScheduledReset r) :=
  (setScheduledReset_ok x r).1

/-- a silent change of one entry: key, id and both queues kept, `Closed` absorbing -/
structure Quiet (a b : Stream) : Prop where
  key : b.key = a.key
  id : b.id = a.id
  closed : ClMono a.state b.state
  send : b.pendingSend = a.pendingSend
  recv : b.pendingRecv = a.pendingRecv

@[grind =] theorem quiet_iff (a b : Stream) : Quiet a b ↔ (b.key = a.key ∧ b.id = a.id ∧ ClMono a.state b.state ∧
    b.pendingSend = a.pendingSend ∧ b.pendingRecv = a.pendingRecv) :=
  ⟨fun h => ⟨h.1, h.2, h.3, h.4, h.5⟩, fun ⟨h1, h2, h3, h4, h5⟩ => ⟨h1, h2, h3, h4, h5⟩⟩

theorem Quiet.es {a b : Stream} (h : Quiet a b) : ES none a b := ⟨h.key, h.id, h.closed, h.send, h.recv, trivial⟩
theorem Quiet.refl (a : Stream) : Quiet a a := ⟨rfl, rfl, fun h => h, rfl, rfl⟩
theorem Quiet.trans {a b c : Stream} (h1 : Quiet a b) (h2 : Quiet b c) : Quiet a c :=
  ⟨h2.key.trans h1.key, h2.id.trans h1.id, fun h => h2.closed (h1.closed h), h2.send.trans h1.send, h2.recv.trans h1.recv⟩

@[grind ←] theorem notifySend_quiet (a : Stream) : Quiet a a.notifySend.1 := by
  unfold Stream.notifySend
  cases a.sendTask <;> cases h : a.openTask <;> simp only [h] <;> exact ⟨rfl, rfl, fun h => h, rfl, rfl⟩
@[grind ←] theorem notifyRecv_quiet (a : Stream) : Quiet a a.notifyRecv.1 := by
  unfold Stream.notifyRecv; split <;> exact ⟨rfl, rfl, fun h => h, rfl, rfl⟩
@[grind ←] theorem notifyPush_quiet (a : Stream) : Quiet a a.notifyPush.1 := by
  unfold Stream.notifyPush; split <;> exact ⟨rfl, rfl, fun h => h, rfl, rfl⟩
@[grind ←] theorem notifyCapacity_quiet (a : Stream) : Quiet a a.notifyCapacity.1 := by
  unfold Stream.notifyCapacity
  exact Quiet.trans (b := { a with sendCapacityInc := true }) ⟨rfl, rfl, fun h => h, rfl, rfl⟩ (notifySend_quiet _)
@[grind ←] theorem assignCapacity_quiet (a : Stream) (c m : Nat) : Quiet a (a.assignCapacity c m).1 := by
  unfold Stream.assignCapacity
  simp only
  split
  · exact Quiet.trans (b := { a with sendFlow := (a.sendFlow.assignCapacity c).1 }) ⟨rfl, rfl, fun h => h, rfl, rfl⟩
      (notifyCapacity_quiet _)
  · exact ⟨rfl, rfl, fun h => h, rfl, rfl⟩
@[grind ←] theorem waitSend_quiet (a : Stream) (t : String) : Quiet a (a.waitSend t) := ⟨rfl, rfl, fun h => h, rfl, rfl⟩
@[grind ←] theorem waitOpen_quiet (a : Stream) (t : String) : Quiet a (a.waitOpen t) := ⟨rfl, rfl, fun h => h, rfl, rfl⟩
@[grind ←] theorem setQueued_quiet (a : Stream) (q : QName) (v : Bool) : Quiet a (a.setQueued q v) := by
  cases q <;> exact ⟨rfl, rfl, fun h => h, rfl, rfl⟩

@[grind ←] theorem setReset_quiet (a : Stream) (r : Reason) (i : Initiator) : Quiet a (a.setReset r i).1 := by
  unfold Stream.setReset
  simp only
  refine Quiet.trans (b := { a with state := a.state.setReset a.id r i }) ⟨rfl, rfl, setReset_cl _ _ _ _, rfl, rfl⟩ ?_
  exact (notifySend_quiet _).trans ((notifyPush_quiet _).trans (notifyRecv_quiet _))

/-- `Stream::send_data` through its clone (`Stream.sendData` itself must never be unfolded) -/
theorem sendDataC_quiet (capf : Stream → Nat → Nat) (a : Stream) (len m : Nat) :
    Quiet a (sendDataC capf a len m).1 := by
  rw [sendDataC_def]
  rcases a.sendFlow.sendData len with ⟨fl, r⟩
  simp only
  generalize hs1 : ({ a with sendFlow := fl, bufferedSendData := wrapSubUsize a.bufferedSendData len, requestedSendCapacity := wrapSubU32 a.requestedSendCapacity len } : Stream) = s1
  have h0 : Quiet a s1 := by subst hs1; exact ⟨rfl, rfl, fun h => h, rfl, rfl⟩
  by_cases hc : capf a m < capf s1 m
  · simp only [if_pos hc]; exact h0.trans (notifyCapacity_quiet _)
  · simp only [if_neg hc]; exact h0

theorem sendData_quiet (a : Stream) (len m : Nat) : Quiet a (a.sendData len m).1 := by
  rw [sendDataC.eq]; exact sendDataC_quiet _ _ _ _

theorem sendData_quiet' (a : Stream) (len m : Nat) : ∃ b w f, a.sendData len m = (b, w, f) ∧ Quiet a b := by
  have := sendData_quiet a len m
  rcases h : a.sendData len m with ⟨b, w, f⟩
  rw [h] at this
  exact ⟨b, w, f, rfl, this⟩

theorem decContentLength_quiet {a b : Stream} {n : Nat} (h : a.decContentLength n = some b) : Quiet a b := by
  unfold Stream.decContentLength at h
  split at h
  · split at h
    · cases h; exact ⟨rfl, rfl, fun h => h, rfl, rfl⟩
    · cases h
  · split at h
    · cases h
    · cases h; exact Quiet.refl _
  · cases h; exact Quiet.refl _
attribute [grind →] decContentLength_quiet

-- ===================================================================== accumulator forms

attribute [grind ←] Tr.refl

section acc
variable {P : Perm} {s0 s : Streams}

theorem Tr.of_store_eq {s' : Streams} (h : Tr P s0 s) (h1 : s'.store = s.store) (h2 : marker s' = marker s) : Tr P s0 s' :=
  h.tau (.of_store_eq h1 h2)

@[grind ←] theorem panic_acc (m : String) (h : Tr P s0 s) : Tr P s0 (s.panic m) := h.tau (.panic s m)
@[grind ←] theorem unsup_acc (m : String) (h : Tr P s0 s) : Tr P s0 (s.unsup m) :=
  h.of_store_eq (by unfold Streams.unsup; split <;> rfl) (by unfold Streams.unsup; split <;> rfl)
@[grind ←] theorem wake_acc (w : List String) (h : Tr P s0 s) : Tr P s0 (s.wake w) := h.of_store_eq rfl rfl
@[grind ←] theorem notifyTask_acc (h : Tr P s0 s) : Tr P s0 s.notifyTask :=
  h.of_store_eq (by unfold Streams.notifyTask; split <;> rfl) (by unfold Streams.notifyTask; split <;> rfl)
@[grind ←] theorem modPrio_acc (f : Prioritize → Prioritize)
    (hf : (f s.actions.send.prioritize).inFlightDataFrame = s.actions.send.prioritize.inFlightDataFrame)
    (h : Tr P s0 s) : Tr P s0 (s.modPrio f) := h.of_store_eq rfl hf
@[grind ←] theorem modSend_acc (f : Send → Send)
    (hf : (f s.actions.send).prioritize.inFlightDataFrame = s.actions.send.prioritize.inFlightDataFrame)
    (h : Tr P s0 s) : Tr P s0 (s.modSend f) := h.of_store_eq rfl hf
@[grind ←] theorem modRecv_acc (f : Recv → Recv) (h : Tr P s0 s) : Tr P s0 (s.modRecv f) := h.of_store_eq rfl rfl
@[grind ←] theorem modCounts_acc (f : Counts → Counts) (h : Tr P s0 s) : Tr P s0 (s.modCounts f) := h.of_store_eq rfl rfl
@[grind ←] theorem modCountsA_acc (m : String) (f : Counts → Option Counts) (h : Tr P s0 s) :
    Tr P s0 (s.modCountsA m f) := by
  unfold Streams.modCountsA; split
  · exact h.of_store_eq rfl rfl
  · exact panic_acc _ h
@[grind ←] theorem setQ_acc (q : QName) (l : List Nat) (h : Tr P s0 s) : Tr P s0 (s.setQ q l) := by
  cases q <;> exact h.of_store_eq rfl rfl
@[grind ←] theorem setCounts_acc (c : Counts) (h : Tr P s0 s) : Tr P s0 { s with counts := c } := h.of_store_eq rfl rfl
@[grind ←] theorem setRefs_acc (n : Nat) (h : Tr P s0 s) : Tr P s0 { s with refs := n } := h.of_store_eq rfl rfl
@[grind ←] theorem setConnError_acc (e : PErr) (h : Tr P s0 s) :
    Tr P s0 { s with actions := { s.actions with connError := some e } } := h.of_store_eq rfl rfl
@[grind ←] theorem setTask_acc (t : Option String) (h : Tr P s0 s) :
    Tr P s0 { s with actions := { s.actions with task := t } } := h.of_store_eq rfl rfl
@[grind ←] theorem setWakes_acc (w : List String) (h : Tr P s0 s) : Tr P s0 { s with wakes := w } := h.of_store_eq rfl rfl

/-- replacing an entry by a silent update of itself -/
theorem setStream_quiet_acc' (b : Stream) (hb : Quiet (s.stream b.key) b) (h : Tr P s0 s) : Tr P s0 (s.setStream b) := by
  cases hg : s.store.get? b.key with
  | none => rw [setStream_absent hg]; exact h
  | some a =>
    rw [stream_eq_of_get? hg] at hb
    exact h.tau (El.setStream hg hb.es (fun x _ => ES.rfl_none x) rfl (by intro _ _ e; cases e) (by intro _ e; cases e))

theorem stream_key' (s : Streams) (k : Nat) : (s.stream k).key = k := by
  unfold Streams.stream
  cases h : s.store.get? k with
  | none => rfl
  | some a => exact Store.get?_key h

theorem setStream_acc (k : Nat) (b : Stream) (hb : Quiet (s.stream k) b) (h : Tr P s0 s) :
    Tr P s0 (s.setStream b) := by
  have hk : b.key = k := by rw [hb.key, stream_key']
  subst hk; exact setStream_quiet_acc' b hb h
grind_pattern setStream_acc => Quiet (s.stream k) b, Tr P s0 (s.setStream b)

theorem setStream_wake_acc (k : Nat) (b : Stream) (w : List String) (hb : Quiet (s.stream k) b) (h : Tr P s0 s) :
    Tr P s0 ((s.setStream b).wake w) := wake_acc w (setStream_acc k b hb h)
grind_pattern setStream_wake_acc => Quiet (s.stream k) b, Tr P s0 ((s.setStream b).wake w)

@[grind ←] theorem modStream_acc (k : Nat) (f : Stream → Stream) (hf : Quiet (s.stream k) (f (s.stream k)))
    (h : Tr P s0 s) : Tr P s0 (s.modStream k f) := by
  unfold Streams.modStream
  split
  · next a ha => rw [stream_eq_of_get? ha] at hf; exact setStream_acc k _ (by rw [stream_eq_of_get? ha]; exact hf) h
  · exact panic_acc _ h

@[grind ←] theorem modStreamW_acc (k : Nat) (f : Stream → Stream × List String)
    (hf : Quiet (s.stream k) (f (s.stream k)).1) (h : Tr P s0 s) : Tr P s0 (s.modStreamW k f) := by
  unfold Streams.modStreamW
  split
  · next a ha =>
    rw [stream_eq_of_get? ha] at hf
    exact setStream_wake_acc k _ _ (by rw [stream_eq_of_get? ha]; exact hf) h
  · exact panic_acc _ h

@[grind ←] theorem unlink_acc (id : Nat) (h : Tr P s0 s) : Tr P s0 { s with store := s.store.unlink id } :=
  h.tau (.of_store_eq' (fun _ => rfl) rfl rfl)

/-- `Ptr::remove` together with the bookkeeping of the leaked receive buffer entries: the step `gone k` -/
@[grind ←] theorem remove_acc (k n : Nat) (hg : P.gone) (h : Tr P s0 s) :
    Tr P s0 { s with store := s.store.remove k, recvBufferLeaked := n } := by
  refine h.lbl (.gone k) ⟨Nat.le_refl _, ?_, ?_, rfl, (by intro _ _ e hk; cases e; simp [Lbl.key?] at hk), ?_⟩ hg
  · intro k' a ha
    show (∃ b, (s.store.remove k).get? k' = some b ∧ _) ∨ ((s.store.remove k).get? k' = none ∧ _)
    rw [Store.get?_remove]
    by_cases hk : k' = k
    · subst hk; exact Or.inr ⟨by simp, rfl⟩
    · exact Or.inl ⟨a, by simp [hk, ha], ES.gone_any k a⟩
  · intro k' b hn hs
    have : (s.store.remove k).get? k' = some b := hs
    rw [Store.get?_remove, hn] at this
    split at this <;> cases this
  · intro k' e
    cases e
    show (s.store.remove k).get? k = none
    rw [Store.get?_remove]; simp

@[grind ←] theorem unlinkRemove_acc (id k : Nat) (hg : P.gone) (h : Tr P s0 s) :
    Tr P s0 { s with store := (s.store.unlink id).remove k } := by
  have h1 := unlink_acc id h
  exact remove_acc k s.recvBufferLeaked hg h1

/-- `Store::insert` of an entry with empty queues -/
@[grind ←] theorem insert_acc (a : Stream) (ha1 : a.pendingSend = []) (ha2 : a.pendingRecv = []) (h : Tr P s0 s) :
    Tr P s0 { s with store := (s.store.insert a).1 } := by
  refine h.tau ⟨Nat.le_succ _, ?_, ?_, rfl, (by intro _ _ e; cases e), (by intro _ e; cases e)⟩
  · intro k x hx
    refine Or.inl ⟨x, ?_, ES.rfl_none x⟩
    show (s.store.insert a).1.get? k = some x
    rw [Store.get?_insert, hx]
  · intro k b hn hs
    have : (s.store.insert a).1.get? k = some b := hs
    rw [Store.get?_insert, hn] at this
    simp only at this
    split at this
    · next hk =>
      cases this
      exact ⟨Nat.le_of_eq hk.symm, by rw [hk]; exact Nat.lt_succ_self _, ha1, ha2⟩
    · cases this

@[grind =] theorem new_pendingSend (id a b : Nat) : (Stream.new id a b).pendingSend = [] := rfl
@[grind =] theorem new_pendingRecv (id a b : Nat) : (Stream.new id a b).pendingRecv = [] := rfl

end acc

/-- hide the wrapping `u32`/`usize` helpers behind variables (see ConnWakePStepSend) -/
macro "fid_opaque" : tactic => `(tactic|
  (try generalize wrapSubU32 = wsub32 at *
   try generalize wrapSubUsize = wsubsz at *
   try generalize wrapAddU32 = wadd32 at *
   try generalize usizeAsU32 = asu32 at *))

macro "fid_grind" : tactic => `(tactic| (fid_opaque; grind (gen := 60) (ematch := 40) (splits := 40)))

end H2V.Lemmas.ConnFidP
