import H2V.Lemmas.ConnFidPLocal
/-
  ConnFidP, part 10 — the send-side fidelity invariant and its preservation by every elementary step that is
  not on the write path.

  Ghost state `g` (per slab entry `k`):
      g.acc k   the message frames (HEADERS, DATA, PUSH_PROMISE) queued on `k` so far, in order  — "accepted"
      g.emi k   the frames / DATA pieces taken off the queue of `k` for the codec so far, in order — "emitted"
      g.cut k   the queue of `k` was cut (reset, error) or the entry removed
      g.weird   a reset of a stream still waiting to be opened found a DATA chunk of that stream in the codec
                (excluded by the queue ↔ flag consistency of the real code; not proved here, see NOTES)
  `h` = the DATA frame the codec holds (`Next::Data` / `last_data_frame`), whose unsent remainder `h.rest`
  comes back through `reclaim_frame`.

      out s h k = (remainder of the in-flight chunk of k, if the marker says so) ++ pending_send of k

  INVARIANT (`Inv.ref`):   g.emi k ++ msg (out s h k) ++ D   refines (by splitting)   g.acc k,
  with `D = []` as long as `k` was not cut: what was accepted is what was emitted, followed by what is still
  in flight / queued, followed (only after a reset) by a discarded SUFFIX — no hole, no reordering, no
  duplicate, END_STREAM on the last piece only.
-/
namespace H2V.Lemmas.ConnFidP
open H2V H2V.Model H2V.Model.Conn H2V.Lemmas.ConnWakeP

structure Ghost where
  acc : Nat → List SFrame := fun _ => []
  emi : Nat → List SFrame := fun _ => []
  cut : Nat → Bool := fun _ => false
  weird : Bool := false

def upd {α : Type} (f : Nat → α) (k : Nat) (x : α) : Nat → α := fun j => if j = k then x else f j
@[simp] theorem upd_same {α : Type} (f : Nat → α) (k : Nat) (x : α) : upd f k x k = x := by simp [upd]
theorem upd_other {α : Type} (f : Nat → α) {k j : Nat} (x : α) (h : j ≠ k) : upd f k x j = f j := by simp [upd, h]

/-- the remainder of the DATA chunk of entry `k` that the codec still holds -/
def inflight (s : Streams) (h : Option DataFrame) (k : Nat) : List SFrame :=
  match marker s, h with
  | .dataFrame _, some fr => if fr.key = k ∧ fr.rest > 0 then [.data fr.rest fr.eos] else []
  | _, _ => []

/-- everything of entry `k` that has been accepted and has not left yet -/
def out (s : Streams) (h : Option DataFrame) (k : Nat) : List SFrame := inflight s h k ++ sq s k

/-- `in_flight_data_frame` and the codec agree -/
structure Coupled (s : Streams) (h : Option DataFrame) : Prop where
  nothing : marker s = .nothing ↔ h = none
  data : ∀ j, marker s = .dataFrame j → ∃ fr, h = some fr ∧ fr.key = j

def KeysBelow (s : Streams) : Prop := ∀ k a, s.store.get? k = some a → k < s.store.nextKey

/-- ghost update of a labelled step taken in state `s` -/
def gstep (s : Streams) (l : Lbl) (g : Ghost) : Ghost :=
  match l with
  | .push k f => if isMsg f then { g with acc := upd g.acc k (g.acc k ++ [f]) } else g
  | .cut k n =>
    if (s.store.get? k).isSome then
      { g with cut := upd g.cut k true, weird := g.weird || (decide (n > 0) && decide (marker s = .dataFrame k)) }
    else g
  | .gone k => if (s.store.get? k).isSome then { g with cut := upd g.cut k true } else g
  | .pop k f => if isMsg f then { g with emi := upd g.emi k (g.emi k ++ [f]) } else g
  | _ => g

structure Inv (s : Streams) (h : Option DataFrame) (g : Ghost) : Prop where
  kb : KeysBelow s
  cp : Coupled s h
  inflLt : ∀ k, inflight s h k ≠ [] → k < s.store.nextKey
  ghostKey : ∀ k, s.store.nextKey ≤ k → g.acc k = [] ∧ g.emi k = [] ∧ g.cut k = false
  ref : ∀ k, ∃ D, Refine (g.emi k ++ msg (out s h k) ++ D) (g.acc k) ∧ (g.cut k = false → D = [])
  closed : ∀ k, g.cut k = true → ClosedAt s k
  infl : ∀ k, inflight s h k ≠ [] → (s.store.get? k).isSome = true ∨ g.cut k = true
  /-- an entry from which something was emitted exists, or was removed (and then counts as cut) -/
  live : ∀ k, g.emi k ≠ [] → (s.store.get? k).isSome = true ∨ g.cut k = true

-- ===================================================================== small facts

theorem El.keysBelow {l : Option Lbl} {s s' : Streams} (e : El l s s') (h : KeysBelow s) : KeysBelow s' := by
  intro k b hb
  cases ha : s.store.get? k with
  | some a => exact Nat.lt_of_lt_of_le (h k a ha) e.nk
  | none => exact (e.new k b ha hb).2.1

/-- an entry of `s'` was an entry of `s`, or is new (key not handed out before) -/
theorem El.back {l : Option Lbl} {s s' : Streams} (e : El l s s') {k : Nat} {b : Stream} (hb : s'.store.get? k = some b) :
    (∃ a, s.store.get? k = some a ∧ ES l a b) ∨ (s.store.get? k = none ∧ s.store.nextKey ≤ k) := by
  cases ha : s.store.get? k with
  | some a =>
    rcases e.keep k a ha with ⟨b', hb', es⟩ | ⟨hn, _⟩
    · rw [hb] at hb'; cases hb'; exact Or.inl ⟨a, rfl, es⟩
    · rw [hb] at hn; cases hn
  | none => exact Or.inr ⟨rfl, (e.new k b ha hb).1⟩

theorem inflight_of_marker_ne {s : Streams} {h : Option DataFrame} {k : Nat} (hm : ∀ j, marker s ≠ .dataFrame j) :
    inflight s h k = [] := by
  unfold inflight
  cases hmk : marker s with
  | dataFrame j => exact absurd hmk (hm j)
  | nothing => rfl
  | drop => rfl

theorem inflight_none (s : Streams) (k : Nat) : inflight s none k = [] := by
  unfold inflight; cases marker s <;> rfl

theorem inflight_ne_nil {s : Streams} {h : Option DataFrame} {k : Nat} (hi : inflight s h k ≠ []) :
    ∃ j fr, marker s = .dataFrame j ∧ h = some fr ∧ fr.key = k ∧ fr.rest > 0 ∧ inflight s h k = [.data fr.rest fr.eos] := by
  unfold inflight at hi ⊢
  cases hmk : marker s with
  | dataFrame j =>
    cases h with
    | none => rw [hmk] at hi; exact absurd rfl hi
    | some fr =>
      rw [hmk] at hi
      simp only at hi ⊢
      split at hi
      · next hc => exact ⟨j, fr, rfl, rfl, hc.1, hc.2, by simp [hc]⟩
      · exact absurd rfl hi
  | nothing => rw [hmk] at hi; exact absurd rfl hi
  | drop => rw [hmk] at hi; exact absurd rfl hi

/-- the in-flight remainder depends on the state only through the marker -/
theorem inflight_congr {s s' : Streams} {h : Option DataFrame} (k : Nat) (hm : marker s' = marker s) :
    inflight s' h k = inflight s h k := by
  unfold inflight; rw [hm]

theorem msg_take_drop (q : List SFrame) (n : Nat) : msg q = msg (q.take n) ++ msg (q.drop n) := by
  rw [← msg_append, List.take_append_drop]

end H2V.Lemmas.ConnFidP
