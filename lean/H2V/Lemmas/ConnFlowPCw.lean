import H2V.Lemmas.ConnFlowPHist
/-
  ConnFlowP, part 22 — the connection send window is touched by nothing but WINDOW_UPDATE on stream 0
  and `pop_frame`: `CW W t` (“the connection window of `t` is `W`”) is kept by every primitive and by
  the functions of `prioritize.rs` / `send.rs` (except `recv_connection_window_update`, `pop_frame`
  and what calls it).
-/
namespace H2V.Lemmas.ConnFlowP
open H2V H2V.Model H2V.Model.Conn H2V.Lemmas.Comp

/-- the connection send window of `t` is `W` -/
def CW (W : Window) (t : Streams) : Prop := t.prio.flow.windowSize = W

section
variable {W : Window} {t : Streams}

theorem CW.same {t' : Streams} (h : CW W t) (hp : t'.prio.flow.windowSize = t.prio.flow.windowSize) : CW W t' :=
  hp.trans h

theorem CW.panic (h : CW W t) (m : String) : CW W (t.panic m) := h.same (by rw [panic_prio])
theorem CW.unsup (h : CW W t) (m : String) : CW W (t.unsup m) := by
  refine h.same ?_; unfold Streams.unsup; split <;> rfl
theorem CW.wake (h : CW W t) (w : List String) : CW W (t.wake w) := h.same rfl
theorem CW.notifyTask (h : CW W t) : CW W t.notifyTask := by
  refine h.same ?_; unfold Streams.notifyTask; split <;> rfl
theorem CW.modRecv (h : CW W t) (f : Recv → Recv) : CW W (t.modRecv f) := h.same rfl
theorem CW.modCounts (h : CW W t) (f : Counts → Counts) : CW W (t.modCounts f) := h.same rfl
theorem CW.modCountsA (h : CW W t) (w : String) (f : Counts → Option Counts) : CW W (t.modCountsA w f) := by
  unfold Streams.modCountsA; split
  · exact h.same rfl
  · exact h.panic _
theorem CW.modSend' {f : Send → Send} (hf : ∀ sd, (f sd).prioritize = sd.prioritize) (h : CW W t) :
    CW W (t.modSend f) := by
  refine h.same ?_
  show (f t.actions.send).prioritize.flow.windowSize = _; rw [hf]; rfl
theorem CW.modPrio' {f : Prioritize → Prioritize} (hf : ∀ p, (f p).flow.windowSize = p.flow.windowSize)
    (h : CW W t) : CW W (t.modPrio f) := h.same (hf _)
theorem CW.setQ (h : CW W t) (q : QName) (l : List Nat) : CW W (t.setQ q l) := h.same (by cases q <;> rfl)
theorem CW.modStream (h : CW W t) (id : Nat) (f : Stream → Stream) : CW W (t.modStream id f) :=
  h.same (by rw [modStream_prio])
theorem CW.modStreamW (h : CW W t) (id : Nat) (f : Stream → Stream × List String) : CW W (t.modStreamW id f) :=
  h.same (by rw [modStreamW_prio])
theorem CW.setStream (h : CW W t) (st : Stream) : CW W (t.setStream st) := h.same rfl
theorem CW.withCounts (h : CW W t) (c : Counts) : CW W { t with counts := c } := h.same rfl
theorem CW.withRefs (h : CW W t) (n : Nat) : CW W { t with refs := n } := h.same rfl
theorem CW.withWakes (h : CW W t) (w : List String) : CW W { t with wakes := w } := h.same rfl
theorem CW.withConnError (h : CW W t) (e : Option PErr) :
    CW W { t with actions := { t.actions with connError := e } } := h.same rfl
theorem CW.withTask (h : CW W t) (e : Option String) :
    CW W { t with actions := { t.actions with task := e } } := h.same rfl
theorem CW.withStore (h : CW W t) (st : Store) : CW W { t with store := st } := h.same rfl
theorem CW.withStoreLeak (h : CW W t) (st : Store) (n : Nat) : CW W { t with store := st, recvBufferLeaked := n } :=
  h.same rfl
theorem CW.of_fst_eq {α : Type} {p : Streams × α} {t' : Streams} {r : α} (he : p = (t', r)) (h : CW W p.1) :
    CW W t' := by subst he; exact h

end

syntax "cw_peel" : tactic
macro_rules | `(tactic| cw_peel) => `(tactic| first
  | with_reducible apply CW.panic
  | with_reducible apply CW.unsup
  | with_reducible apply CW.wake
  | with_reducible apply CW.notifyTask
  | with_reducible apply CW.modRecv
  | with_reducible apply CW.modCounts
  | with_reducible apply CW.modCountsA
  | with_reducible apply CW.setQ
  | with_reducible apply CW.modStream
  | with_reducible apply CW.modStreamW
  | with_reducible apply CW.setStream
  | (guard_mk; with_reducible apply CW.withCounts)
  | (guard_mk; with_reducible apply CW.withRefs)
  | (guard_mk; with_reducible apply CW.withWakes)
  | (guard_mk; with_reducible apply CW.withConnError)
  | (guard_mk; with_reducible apply CW.withTask)
  | (guard_mk; with_reducible apply CW.withStoreLeak)
  | (guard_mk; with_reducible apply CW.withStore)
  | (with_reducible apply CW.modSend'; (· exact fun _ => rfl))
  | (with_reducible apply CW.modPrio'; (· first | exact fun _ => rfl | nowin))
  | apply_ih
  | (with_reducible apply CW.of_fst_eq; (· with_reducible assumption)))

macro "cw_auto" : tactic => `(tactic| repeat' (first
  | with_reducible assumption | (guard_not_mk; cw_peel) | (guard_mk; cw_peel) | split | dsimp only))
macro "cw_by" f:ident : tactic => `(tactic| (unfold $f; (try unfold Streams.transition); (try dsimp only); cw_auto))

section
variable {W : Window} {t : Streams}

theorem CW.qPush (h : CW W t) (q : QName) (id : Nat) : CW W (t.qPush q id).1 := by cw_by Streams.qPush
theorem CW.qPushFront (h : CW W t) (q : QName) (id : Nat) : CW W (t.qPushFront q id).1 := by cw_by Streams.qPushFront
theorem CW.qPop (h : CW W t) (q : QName) : CW W (t.qPop q).1 := by cw_by Streams.qPop
theorem CW.incNumSendStreams (h : CW W t) (id : Nat) : CW W (t.incNumSendStreams id) := by cw_by Streams.incNumSendStreams
theorem CW.incNumRecvStreams (h : CW W t) (id : Nat) : CW W (t.incNumRecvStreams id) := by cw_by Streams.incNumRecvStreams
theorem CW.decNumStreams (h : CW W t) (id : Nat) : CW W (t.decNumStreams id) := by cw_by Streams.decNumStreams
macro_rules | `(tactic| cw_peel) => `(tactic| first
  | with_reducible apply CW.qPush
  | with_reducible apply CW.qPushFront
  | with_reducible apply CW.qPop
  | with_reducible apply CW.incNumSendStreams
  | with_reducible apply CW.incNumRecvStreams
  | with_reducible apply CW.decNumStreams)
theorem CW.transitionAfter (h : CW W t) (id : Nat) (b : Bool) : CW W (t.transitionAfter id b) := by
  cw_by Streams.transitionAfter
macro_rules | `(tactic| cw_peel) => `(tactic| with_reducible apply CW.transitionAfter)

end

section
variable {W : Window} {t : Streams}

theorem CW.scheduleSend (h : CW W t) (id : Nat) : CW W (t.scheduleSend id) := by
  cw_by Streams.scheduleSend
macro_rules | `(tactic| cw_peel) => `(tactic| with_reducible apply CW.scheduleSend)

theorem CW.queueFrame (h : CW W t) (id : Nat) (f : SFrame) : CW W (t.queueFrame id f) := by
  cw_by Streams.queueFrame
macro_rules | `(tactic| cw_peel) => `(tactic| with_reducible apply CW.queueFrame)

theorem CW.queueOpen (h : CW W t) (id : Nat) : CW W (t.queueOpen id) := by
  cw_by Streams.queueOpen
macro_rules | `(tactic| cw_peel) => `(tactic| with_reducible apply CW.queueOpen)

theorem CW.clearQueue (h : CW W t) (id : Nat) : CW W (t.clearQueue id) := by
  cw_by Streams.clearQueue
macro_rules | `(tactic| cw_peel) => `(tactic| with_reducible apply CW.clearQueue)

theorem CW.clearPendingCapacity (fuel : Nat) : ∀ {t : Streams}, CW W t → CW W (Streams.clearPendingCapacity fuel t) := by
  induction fuel with
  | zero => intro t h; exact h
  | succ n ih => intro t h; cw_by Streams.clearPendingCapacity
macro_rules | `(tactic| cw_peel) => `(tactic| with_reducible apply CW.clearPendingCapacity)

theorem CW.clearPendingSend (fuel : Nat) : ∀ {t : Streams}, CW W t → CW W (Streams.clearPendingSend fuel t) := by
  induction fuel with
  | zero => intro t h; exact h
  | succ n ih => intro t h; cw_by Streams.clearPendingSend
macro_rules | `(tactic| cw_peel) => `(tactic| with_reducible apply CW.clearPendingSend)

theorem CW.clearPendingOpen (fuel : Nat) : ∀ {t : Streams}, CW W t → CW W (Streams.clearPendingOpen fuel t) := by
  induction fuel with
  | zero => intro t h; exact h
  | succ n ih => intro t h; cw_by Streams.clearPendingOpen
macro_rules | `(tactic| cw_peel) => `(tactic| with_reducible apply CW.clearPendingOpen)

theorem CW.popPendingOpen (h : CW W t) : CW W t.popPendingOpen.1 := by
  cw_by Streams.popPendingOpen
macro_rules | `(tactic| cw_peel) => `(tactic| with_reducible apply CW.popPendingOpen)

theorem CW.reclaimFrameInner (h : CW W t) (f : DataFrame) : CW W (t.reclaimFrameInner f).1 := by
  cw_by Streams.reclaimFrameInner
macro_rules | `(tactic| cw_peel) => `(tactic| with_reducible apply CW.reclaimFrameInner)

theorem CW.reclaimFrame (h : CW W t) (w : Writer) : CW W (t.reclaimFrame w).1 := by
  cw_by Streams.reclaimFrame
macro_rules | `(tactic| cw_peel) => `(tactic| with_reducible apply CW.reclaimFrame)

theorem CW.bufferOut (h : CW W t) (w : Writer) (f : Streams.OutFrame) : CW W (t.bufferOut w f).1 := by
  cw_by Streams.bufferOut
macro_rules | `(tactic| cw_peel) => `(tactic| with_reducible apply CW.bufferOut)

theorem CW.sendOpenId (h : CW W t) : CW W t.sendOpenId.1 := by
  cw_by Streams.sendOpenId
macro_rules | `(tactic| cw_peel) => `(tactic| with_reducible apply CW.sendOpenId)

theorem CW.sendHeaders (h : CW W t) (id : Nat) (eos : Bool) (f : List Hpack.Field) : CW W (t.sendHeaders id eos f).1 := by
  cw_by Streams.sendHeaders
macro_rules | `(tactic| cw_peel) => `(tactic| with_reducible apply CW.sendHeaders)

theorem CW.sendReserveLocal (h : CW W t) : CW W t.sendReserveLocal.1 := by
  cw_by Streams.sendReserveLocal
macro_rules | `(tactic| cw_peel) => `(tactic| with_reducible apply CW.sendReserveLocal)

theorem CW.sendPushPromise (h : CW W t) (p k i : Nat) (f : List Hpack.Field) : CW W (t.sendPushPromise p k i f).1 := by
  cw_by Streams.sendPushPromise
macro_rules | `(tactic| cw_peel) => `(tactic| with_reducible apply CW.sendPushPromise)

theorem CW.sendInterimInformationalHeaders (h : CW W t) (id : Nat) (f : List Hpack.Field) :
    CW W (t.sendInterimInformationalHeaders id f).1 := by
  cw_by Streams.sendInterimInformationalHeaders
macro_rules | `(tactic| cw_peel) => `(tactic| with_reducible apply CW.sendInterimInformationalHeaders)

theorem CW.pollCapacity (h : CW W t) (id : Nat) (tag : String) : CW W (t.pollCapacity id tag).1 := by
  cw_by Streams.pollCapacity
macro_rules | `(tactic| cw_peel) => `(tactic| with_reducible apply CW.pollCapacity)

theorem CW.pollReset (h : CW W t) (id : Nat) (m : PollReset) (tag : String) : CW W (t.pollReset id m tag).1 := by
  cw_by Streams.pollReset
macro_rules | `(tactic| cw_peel) => `(tactic| with_reducible apply CW.pollReset)

theorem CW.sendRecvGoAway (h : CW W t) (l : Nat) : CW W (t.sendRecvGoAway l).1 := by
  cw_by Streams.sendRecvGoAway
macro_rules | `(tactic| cw_peel) => `(tactic| with_reducible apply CW.sendRecvGoAway)

theorem CW.sendClearQueues (h : CW W t) : CW W t.sendClearQueues := by
  cw_by Streams.sendClearQueues
macro_rules | `(tactic| cw_peel) => `(tactic| with_reducible apply CW.sendClearQueues)

theorem CW.sendMaybeResetNextStreamId (h : CW W t) (id : Nat) : CW W (t.sendMaybeResetNextStreamId id) := by
  cw_by Streams.sendMaybeResetNextStreamId
macro_rules | `(tactic| cw_peel) => `(tactic| with_reducible apply CW.sendMaybeResetNextStreamId)


theorem CW.tryAssignCapacity (h : CW W t) (id : Nat) : CW W (t.tryAssignCapacity id) := by
  cw_by Streams.tryAssignCapacity
macro_rules | `(tactic| cw_peel) => `(tactic| with_reducible apply CW.tryAssignCapacity)

theorem CW.assignConnectionCapacityLoop (fuel : Nat) :
    ∀ {t : Streams}, CW W t → CW W (Streams.assignConnectionCapacityLoop fuel t) := by
  induction fuel with
  | zero => intro t h; exact h
  | succ n ih => intro t h; cw_by Streams.assignConnectionCapacityLoop
macro_rules | `(tactic| cw_peel) => `(tactic| with_reducible apply CW.assignConnectionCapacityLoop)

theorem CW.assignConnectionCapacity (h : CW W t) (n : Nat) : CW W (t.assignConnectionCapacity n) := by
  cw_by Streams.assignConnectionCapacity
macro_rules | `(tactic| cw_peel) => `(tactic| with_reducible apply CW.assignConnectionCapacity)

theorem CW.reserveCapacity (h : CW W t) (id c : Nat) : CW W (t.reserveCapacity id c) := by
  cw_by Streams.reserveCapacity
macro_rules | `(tactic| cw_peel) => `(tactic| with_reducible apply CW.reserveCapacity)

theorem CW.prioSendData (h : CW W t) (id len : Nat) (eos : Bool) : CW W (t.prioSendData id len eos).1 := by
  cw_by Streams.prioSendData
macro_rules | `(tactic| cw_peel) => `(tactic| with_reducible apply CW.prioSendData)

theorem CW.prioRecvStreamWindowUpdate (h : CW W t) (id inc : Nat) : CW W (t.prioRecvStreamWindowUpdate id inc).1 := by
  cw_by Streams.prioRecvStreamWindowUpdate
macro_rules | `(tactic| cw_peel) => `(tactic| with_reducible apply CW.prioRecvStreamWindowUpdate)

theorem CW.reclaimAllCapacity (h : CW W t) (id : Nat) : CW W (t.reclaimAllCapacity id) := by
  cw_by Streams.reclaimAllCapacity
macro_rules | `(tactic| cw_peel) => `(tactic| with_reducible apply CW.reclaimAllCapacity)

theorem CW.reclaimReservedCapacity (h : CW W t) (id : Nat) : CW W (t.reclaimReservedCapacity id) := by
  cw_by Streams.reclaimReservedCapacity
macro_rules | `(tactic| cw_peel) => `(tactic| with_reducible apply CW.reclaimReservedCapacity)

theorem CW.sendSendReset (h : CW W t) (id : Nat) (r : Reason) (i : Initiator) : CW W (t.sendSendReset id r i) := by
  cw_by Streams.sendSendReset
macro_rules | `(tactic| cw_peel) => `(tactic| with_reducible apply CW.sendSendReset)

theorem CW.scheduleImplicitReset (h : CW W t) (id : Nat) (r : Reason) : CW W (t.scheduleImplicitReset id r) := by
  cw_by Streams.scheduleImplicitReset
macro_rules | `(tactic| cw_peel) => `(tactic| with_reducible apply CW.scheduleImplicitReset)

theorem CW.sendTrailers (h : CW W t) (id : Nat) (f : List Hpack.Field) : CW W (t.sendTrailers id f).1 := by
  cw_by Streams.sendTrailers
macro_rules | `(tactic| cw_peel) => `(tactic| with_reducible apply CW.sendTrailers)

theorem CW.sendHandleError (h : CW W t) (id : Nat) : CW W (t.sendHandleError id) := by
  cw_by Streams.sendHandleError
macro_rules | `(tactic| cw_peel) => `(tactic| with_reducible apply CW.sendHandleError)

theorem CW.sendRecvStreamWindowUpdate (h : CW W t) (id inc : Nat) : CW W (t.sendRecvStreamWindowUpdate id inc).1 := by
  cw_by Streams.sendRecvStreamWindowUpdate
macro_rules | `(tactic| cw_peel) => `(tactic| with_reducible apply CW.sendRecvStreamWindowUpdate)

end

-- ===================================================================== for_each, SETTINGS

theorem CW.tryForEach {W : Window} (f : Streams → Nat → Streams × Option PErr)
    (hf : ∀ t id, CW W t → CW W (f t id).1) (fuel : Nat) :
    ∀ (i len : Nat) {t : Streams}, CW W t → CW W (Streams.tryForEach f fuel i len t).1 := by
  induction fuel with
  | zero => intro i len t h; exact h
  | succ n ih =>
    intro i len t h
    unfold Streams.tryForEach
    split
    · split
      · exact h.panic _
      · rename_i id _
        have := hf t id h
        split
        · rename_i heq; rw [heq] at this; exact this
        · rename_i heq; rw [heq] at this
          dsimp only
          split
          · exact ih _ _ this
          · exact ih _ _ this
    · exact h

theorem CW.storeTryForEach' {W : Window} {t : Streams} {f : Streams → Nat → Streams × Option PErr}
    (hf : ∀ t id, CW W t → CW W (f t id).1) (h : CW W t) : CW W (t.storeTryForEach f).1 := by
  unfold Streams.storeTryForEach; exact CW.tryForEach f hf _ _ _ h

theorem CW.storeForEach' {W : Window} {t : Streams} {f : Streams → Nat → Streams}
    (hf : ∀ t id, CW W t → CW W (f t id)) (h : CW W t) : CW W (t.storeForEach f) := by
  unfold Streams.storeForEach; exact CW.storeTryForEach' (fun t id ht => hf t id ht) h

macro_rules | `(tactic| cw_peel) => `(tactic| first
  | (with_reducible apply CW.storeTryForEach'; (· intro _ _ _; (try unfold Streams.transition); (try dsimp only); cw_auto))
  | (with_reducible apply CW.storeForEach'; (· intro _ _ _; (try unfold Streams.transition); (try dsimp only); cw_auto)))

theorem CW.decStreamWindow {W : Window} {t : Streams} (h : CW W t) (dec acc id : Nat) :
    CW W (Streams.decStreamWindow dec acc t id).1 := by
  cw_by Streams.decStreamWindow

theorem CW.tryForEachAcc {W : Window} (dec : Nat) (fuel : Nat) :
    ∀ (i len acc : Nat) {t : Streams}, CW W t →
      CW W (Streams.tryForEachAcc (Streams.decStreamWindow dec) fuel i len acc t).1 := by
  induction fuel with
  | zero => intro i len acc t h; exact h
  | succ n ih =>
    intro i len acc t h
    unfold Streams.tryForEachAcc
    split
    · split
      · exact h.panic _
      · rename_i id _
        have := h.decStreamWindow dec acc id
        split
        · rename_i heq; rw [heq] at this; exact this
        · rename_i heq; rw [heq] at this
          dsimp only
          split
          · exact ih _ _ _ this
          · exact ih _ _ _ this
    · exact h
macro_rules | `(tactic| cw_peel) => `(tactic| with_reducible apply CW.tryForEachAcc)

theorem CW.sendApplyRemoteSettings {W : Window} {t : Streams} (h : CW W t) (a b c : Option Nat) :
    CW W (t.sendApplyRemoteSettings a b c).1 := by
  cw_by Streams.sendApplyRemoteSettings
macro_rules | `(tactic| cw_peel) => `(tactic| with_reducible apply CW.sendApplyRemoteSettings)

end H2V.Lemmas.ConnFlowP
