import H2V.Lemmas.ConnNoPanicPAll2
import H2V.Lemmas.ConnNoPanicPWin2
import H2V.Lemmas.ConnNoPanicPAccAll
/-
  C08 (no panic) — everything together (stage 3): the server accept path (np-acc: invariant `J`; `next_incoming`,
  `take_request`; `recv_eof(true)` without hypothesis), `clearWakes`, and ConnRecvP's stream-level receive-window invariant
  (`JF`): 40 operations, connections without server push.
-/
namespace H2V.Lemmas.ConnNoPanicP
open H2V H2V.Model H2V.Model.Conn H2V.Lemmas.ConnCountsP
open H2V.Lemmas.ConnResetP (Op run)

/-- every operation is an `ApiStep` of ConnCountsP -/
theorem op_apiStepAll (s : Streams) (op : Op) : ApiStep s (op.apply s) := by
  cases op
  case recvHeaders h => exact .recvHeaders s h
  case recvData id p eos pad => exact .recvData s id p eos pad
  case recvReset id r => exact .recvReset s id r
  case recvWindowUpdate id inc => exact .recvWindowUpdate s id inc
  case recvPushPromise id h => exact .recvPushPromise s id h
  case handleError e => exact .handleError s e
  case recvGoAwayFrame l r d => exact .recvGoAwayFrame s l r d
  case recvGoAway l => exact .recvGoAway s l
  case recvEof b => exact .recvEof s b
  case innerSendReset id r => exact .innerSendReset s id r
  case setTargetConnectionWindow t => exact .setTargetConnectionWindow s t
  case applyRemoteSettings v b => exact .applyRemoteSettings s v b
  case applyLocalSettingsFrame v => exact .applyLocalSettingsFrame s v
  case pollComplete f w io t => exact .pollComplete f s w io t
  case pollSendPendingRefusal f w io t => exact .pollSendPendingRefusal f s w io t
  case clearExpiredResetStreams n => exact .clearExpiredResetStreams n s
  case wake t => exact .wake s t
  case clearWakes => exact .clearWakes s
  case panic m => exact .panic s m
  case cloneHandle => exact .cloneHandle s
  case dropHandle => exact .dropHandle s
  case sendRequest a b c d => exact .sendRequest s a b c d
  case pollPendingOpen p t => exact .pollPendingOpen s p t
  case nextIncoming => exact .nextIncoming s
  case recvTakeRequest k => exact .recvTakeRequest s k
  case cloneStreamRef k => exact .cloneStreamRef s k
  case dropStreamRef k => exact .dropStreamRef s k
  case refSendResponse k f e => exact .refSendResponse s k f e
  case refSendInformationalHeaders k f => exact .refSendInformationalHeaders s k f
  case refSendPushPromise p v f => exact .refSendPushPromise s p v f
  case refSendData k l e => exact .refSendData s k l e
  case refSendTrailers k f => exact .refSendTrailers s k f
  case refReserveCapacity k c => exact .refReserveCapacity s k c
  case pollCapacity k t => exact .pollCapacity s k t
  case refSendReset k r => exact .refSendReset s k r
  case pollReset k m t => exact .pollReset s k m t
  case recvPollResponse f k t => exact .recvPollResponse f s k t
  case recvPollInformational k t => exact .recvPollInformational s k t
  case refPollData k t => exact .refPollData s k t
  case recvPollTrailers k t => exact .recvPollTrailers s k t
  case refReleaseCapacity k n => exact .refReleaseCapacity s k n
  case refClearRecvBuffer k => exact .refClearRecvBuffer s k

/-- `ErrOK` travels backwards along every operation -/
theorem errOK_back_op {s : Streams} (hk : KeysOK s) (hn : NextLocal s) (op : Op) (he : ErrOK (op.apply s)) : ErrOK s :=
  ErrOK.backT ((op_apiStepAll s op).evT hk hn) he

theorem keys_step_op {s : Streams} (hk : KeysOK s) (hn : NextLocal s) (op : Op) : KeysOK (op.apply s) ∧ NextLocal (op.apply s) :=
  let e := (op_apiStepAll s op).evT hk hn
  ⟨e.keysOK hk, e.nx.nextLocal hn⟩

/-- handle keys: `take_request` and `poll_response` are handle calls too -/
def opKey3 : Op → Option Nat
  | .recvTakeRequest k => some k
  | .recvPollResponse _ k _ => some k
  | op => opKey2 op

/-- `next_incoming` hands out a handle -/
def opHandles3 (s : Streams) (H : List Nat) : Op → List Nat
  | .nextIncoming => match s.nextIncoming.2 with | some k => k :: H | none => H
  | op => opHandles2 s H op

/-- preconditions of stage 3 -/
def opPre4 (s : Streams) : Op → Prop
  | .nextIncoming => True
  | .recvTakeRequest k => ReqHead (s.stream k)
  | .clearWakes => True
  | .handleError e => NotRR e
  | .recvEof _ => True
  | .applyLocalSettingsFrame vals =>
      (∀ t, ConnRecvP.settingsIws vals = some t → t ≤ 2147483647) ∧ (s.applyLocalSettingsFrame vals).2 = .ok ()
  | op => opPre3 s op

/-- the invariant bundle of stage 3 -/
structure Good4 (s : Streams) (H : List Nat) : Prop where
  g3 : Good3 s H
  j : J s
  jf : JF s

theorem accKey_sub {op : Op} {k : Nat} (h : accKey op = some k) : opKey3 op = some k := by
  cases op <;> first | exact h | cases h

theorem clearWakes_npi {s : Streams} (h : NPI (fun _ => False) s) : NPI (fun _ => False) { s with wakes := [] } :=
  h.lt (ks := []) (LT.w (setMisc_lt s s.actions s.refs s.recvBufferLeaked [] s.unsupported rfl)) (liveAll0 s)
    (EvB.free (ρ := false) ⟨rfl, CStep.refl _, fun q => by cases q <;> rfl, fun h => h, NextOK.refl _ _⟩) noE

theorem opPre4_old {s : Streams} {op : Op} (h : opPre4 s op) (hj : J s)
    (h1 : op ≠ .nextIncoming) (h2 : ∀ k, op ≠ .recvTakeRequest k) (h3 : op ≠ .clearWakes) : opPre3 s op := by
  cases op <;> first
    | exact h
    | exact h.1
    | exact trivial
    | exact fun _ => hj.acc
    | exact absurd rfl h1
    | exact absurd rfl (h2 _)
    | exact absurd rfl h3

theorem okPre_of {s : Streams} {op : Op} (h : opPre4 s op) : okPre s op := by
  cases op <;> first | exact h.2 | exact trivial

theorem accPre2_of {s : Streams} {op : Op} (h : opPre4 s op) (hp : NoPush s) (hj : NoPPP s) : accPre2 s op := by
  cases op
  case handleError e => exact h
  case recvPushPromise id hd => exact recvPushPromise_nopush hp id hd
  case recvTakeRequest k => exact h
  case dropStreamRef k => exact hj.dropPPP k
  case panic m => exact h
  all_goals exact trivial

theorem valid_of4 {s : Streams} {op : Op} (h : opPre4 s op) : (toRecvOp op).valid s := by
  cases op
  case setTargetConnectionWindow t => exact h
  case applyLocalSettingsFrame v => exact h.1
  all_goals exact trivial

theorem flowPre_of4 {s : Streams} {op : Op} (h : opPre4 s op) : flowPre op := by
  cases op
  case recvWindowUpdate id inc => exact h
  case applyRemoteSettings v b => exact h
  all_goals exact trivial

/-- the generic components: they do not care which operation it is -/
theorem good4_generic {s : Streams} {H : List Nat} (g : Good4 s H) (op : Op) (hpre : opPre4 s op)
    (hv : (toRecvOp op).valid s) (hfl : flowPre op) (he : ErrOK s) :
    IBS (op.apply s) → NPI (fun _ => False) (op.apply s) → HOK (op.apply s) (opHandles3 s H op) →
    (∀ k, accKey op = some k → k ∈ H) → Good4 (op.apply s) (opHandles3 s H op) := fun hi hn hh hin =>
  ⟨⟨⟨hn, hh, hi, JR_step g.g3.good.jr op hv, safeInv_step g.g3.good.safe op hfl⟩, NoPPP_step g.g3.noppp g.g3.nopush op,
     NoPush_step g.g3.nopush op⟩,
   J_stepAll g.g3.good.npi g.g3.good.hok g.j op (accPre2_of hpre g.g3.nopush g.g3.noppp) hin,
   JF_step g.jf op hv he (okPre_of hpre)⟩

theorem good4_step {s : Streams} {H : List Nat} (g : Good4 s H) (op : Op) (hpre : opPre4 s op)
    (hin : ∀ k, opKey3 op = some k → k ∈ H) (he : ErrOK s) (he' : ErrOK (op.apply s)) :
    Good4 (op.apply s) (opHandles3 s H op) := by
  have hk := g.g3.good.npi.keys
  have hacc : ∀ k, accKey op = some k → k ∈ H := fun k h => hin k (accKey_sub h)
  by_cases h1 : op = .nextIncoming
  · subst h1
    obtain ⟨hn', _, hnone, hsome⟩ := nextIncoming_npi g.g3.good.npi g.j g.g3.good.hok
    refine good4_generic g .nextIncoming hpre trivial trivial he
      (g.g3.good.ibs.of_evF hk (nextIncoming_ev (ρ := false) s)) hn' ?_ hacc
    show HOK s.nextIncoming.1 (match s.nextIncoming.2 with | some k => k :: H | none => H)
    cases ho : s.nextIncoming.2 with
    | none => simp only []; rw [hnone ho]; exact g.g3.good.hok
    | some k => simp only []; exact (hsome k ho).2.2.1
  by_cases h2 : ∃ k, op = .recvTakeRequest k
  · obtain ⟨k, rfl⟩ := h2
    obtain ⟨x, hx, hc⟩ := g.g3.good.hok k (hin k rfl)
    have hpos := count_pos_of_mem (hin k rfl)
    have hr : (s.stream k).refCount > 0 := by rw [stream_of_get? hx]; omega
    obtain ⟨hn', _, _⟩ := recvTakeRequest_npi g.g3.good.npi g.j ⟨x, hx⟩ hr hpre
    exact good4_generic g (.recvTakeRequest k) hpre trivial trivial he
      (g.g3.good.ibs.of_evF hk (recvTakeRequest_ev (ρ := false) s k)) hn'
      (hok_generic hk g.g3.good.hok _ (by intro j e; cases e)) hacc
  by_cases h3 : op = .clearWakes
  · subst h3
    exact good4_generic g .clearWakes hpre trivial trivial he
      (g.g3.good.ibs.of_evF hk (EvB.free (ρ := false) ⟨rfl, CStep.refl _, fun q => by cases q <;> rfl, fun h => h, NextOK.refl _ _⟩))
      (clearWakes_npi g.g3.good.npi) (hok_generic hk g.g3.good.hok _ (by intro j e; cases e)) hacc
  -- the operations of stage 2
  have hold := opPre4_old hpre g.j h1 (fun k e => h2 ⟨k, e⟩) h3
  have hin2 : ∀ k, opKey2 op = some k → k ∈ H := by
    intro k hk'
    apply hin
    cases op <;> first | exact hk' | cases hk'
  have hh3 : opHandles3 s H op = opHandles2 s H op := by
    cases op <;> first | rfl | exact absurd rfl h1
  have g3' := good3_step g.g3 op hold hin2 he he'
  rw [hh3]
  exact ⟨g3', J_stepAll g.g3.good.npi g.g3.good.hok g.j op (accPre2_of hpre g.g3.nopush g.g3.noppp) hacc,
    JF_step g.jf op (valid_of4 hpre) he (okPre_of hpre)⟩

/-- histories of stage 3 (connections without server push) -/
inductive NReach : Streams → List Nat → Prop
  | init {s : Streams} : Init2 s → NoPush s → NReach s []
  | step {s : Streams} {H : List Nat} (op : Op) : NReach s H → opPre4 s op → (∀ k, opKey3 op = some k → k ∈ H) →
      NReach (op.apply s) (opHandles3 s H op)

theorem NReach.keys {s : Streams} {H : List Nat} (h : NReach s H) : KeysOK s ∧ NextLocal s := by
  induction h with
  | init hi _ => exact ⟨hi.blank.keysOK, hi.blank.next⟩
  | step op _ _ _ ih => exact keys_step_op ih.1 ih.2 op

/-- **No panic, handle discipline, 40 operations, connections without server push** -/
theorem nreach_good {s : Streams} {H : List Nat} (h : NReach s H) (he : ErrOK s) : Good4 s H := by
  induction h with
  | init hi hp =>
    exact ⟨⟨⟨blank_npi hi.blank hi.np hi.q, fun k hk => absurd hk List.not_mem_nil, IBS_blank hi.blank hi.q, JR_init hi.recv,
      ConnFlowP.Init.safe hi.flow⟩, NoPPP_blank hi.blank, hp⟩, J_blank hi.blank hi.q, JF_init hi.recv⟩
  | @step t _ op hr hpre hin ih =>
    have he0 : ErrOK t := errOK_back_op hr.keys.1 hr.keys.2 op he
    exact good4_step (ih he0) op hpre hin he0 he

/-- the request head `next_incoming` hands out is there for `take_request` -/
theorem nreach_accept {s : Streams} {H : List Nat} (h : NReach s H) (he : ErrOK s) {k : Nat} (hk : s.nextIncoming.2 = some k) :
    opPre4 s.nextIncoming.1 (.recvTakeRequest k) :=
  let g := nreach_good h he
  ((nextIncoming_npi g.g3.good.npi g.j g.g3.good.hok).2.2.2 k hk).2.2.2.2.2

/-- the server accept path in a reachable state -/
theorem nreach_accept_path {s : Streams} {H : List Nat} (h : NReach s H) (he : ErrOK s) :
    s.nextIncoming.1.panicked = none ∧
    ∀ k, s.nextIncoming.2 = some k → ((s.nextIncoming.1).recvTakeRequest k).1.panicked = none ∧
      ((s.nextIncoming.1).recvTakeRequest k).2.isSome = true := by
  have g := nreach_good h he
  obtain ⟨hn, hj, _, hs⟩ := nextIncoming_npi g.g3.good.npi g.j g.g3.good.hok
  refine ⟨hn.np, fun k hk => ?_⟩
  obtain ⟨_, _, _, hl, hr, hq⟩ := hs k hk
  have := recvTakeRequest_npi hn hj hl (by omega) hq
  exact ⟨this.1.np, this.2.2⟩

/-- witness: the stream layer of a new server connection -/
def wInitS : Streams :=
  { counts := { isServer := true },
    actions := { recv := { nextStreamId := some 1, flow := { windowSize := { val := 65535 }, available := { val := 65535 } } },
                 send := { nextStreamId := some 2,
                           prioritize := { flow := { windowSize := { val := 65535 }, available := { val := 65535 } } } } } }

theorem wInitS_init2 : Init2 wInitS :=
  ⟨⟨rfl, rfl, rfl, rfl, rfl, rfl, rfl, rfl, rfl, rfl, by intro x hx; cases hx; rfl⟩, rfl, fun q => by cases q <;> rfl,
   ⟨rfl, rfl, rfl, rfl, rfl⟩, ⟨rfl, by decide⟩⟩

/-- witness history: `GET /` on stream 1, accepted (`next_incoming`, `take_request`), answered with END_STREAM, handle
    dropped, wake log cleared, EOF with `clear_pending_accept` -/
def wOpsS : List Op :=
  [.recvHeaders cxReq, .nextIncoming, .recvTakeRequest 0, .refSendResponse 0 [] true, .dropStreamRef 0, .clearWakes, .recvEof true]

theorem NReach.step' {s : Streams} {H : List Nat} (op : Op) (h : NReach s H) (hpre : opPre4 s op)
    (hin : ∀ k, opKey3 op = some k → k ∈ H) {s' : Streams} {H' : List Nat} (es : s' = op.apply s)
    (eh : H' = opHandles3 s H op) : NReach s' H' := by subst es; subst eh; exact .step op h hpre hin

set_option maxRecDepth 8000 in
theorem wOpsS_nreach : NReach (run wInitS wOpsS) [] := by
  have r0 : NReach wInitS [] := .init wInitS_init2 (.inl rfl)
  have r1 : NReach (run wInitS [.recvHeaders cxReq]) [] :=
    r0.step' (.recvHeaders cxReq) (by show _ = none; decide) (by intro k h; cases h) rfl (by decide +kernel)
  have r2 : NReach (run wInitS [.recvHeaders cxReq, .nextIncoming]) [0] :=
    r1.step' .nextIncoming trivial (by intro k h; cases h) rfl (by decide +kernel)
  have hreq : opPre4 (run wInitS [.recvHeaders cxReq, .nextIncoming]) (.recvTakeRequest 0) :=
    nreach_accept r1 (by unfold ErrOK; decide +kernel) (by decide +kernel)
  have r3 : NReach (run wInitS [.recvHeaders cxReq, .nextIncoming, .recvTakeRequest 0]) [0] :=
    r2.step' (.recvTakeRequest 0) hreq (by intro k h; cases h; decide) rfl (by decide +kernel)
  have r4 : NReach (run wInitS [.recvHeaders cxReq, .nextIncoming, .recvTakeRequest 0, .refSendResponse 0 [] true]) [0] :=
    r3.step' (.refSendResponse 0 [] true) trivial (by intro k h; cases h; decide) rfl (by decide +kernel)
  have r5 : NReach (run wInitS [.recvHeaders cxReq, .nextIncoming, .recvTakeRequest 0, .refSendResponse 0 [] true,
      .dropStreamRef 0]) [] :=
    r4.step' (.dropStreamRef 0) trivial (by intro k h; cases h; decide) rfl (by decide +kernel)
  have r6 : NReach (run wInitS [.recvHeaders cxReq, .nextIncoming, .recvTakeRequest 0, .refSendResponse 0 [] true,
      .dropStreamRef 0, .clearWakes]) [] :=
    r5.step' .clearWakes trivial (by intro k h; cases h) rfl (by decide +kernel)
  exact r6.step' (.recvEof true) trivial (by intro k h; cases h) rfl (by decide +kernel)

/-- a server state with a request waiting to be accepted -/
theorem wOpsS1_nreach : NReach (run wInitS [.recvHeaders cxReq]) [] :=
  (NReach.init wInitS_init2 (.inl rfl)).step' (.recvHeaders cxReq) (by show _ = none; decide) (by intro k h; cases h) rfl
    (by decide +kernel)

set_option maxRecDepth 8000 in
theorem wOpsS1_facts : ErrOK (run wInitS [.recvHeaders cxReq]) ∧ (run wInitS [.recvHeaders cxReq]).nextIncoming.2 = some 0 :=
  ⟨by unfold ErrOK; decide +kernel, by decide +kernel⟩

set_option maxRecDepth 8000 in
theorem wOpsS_facts : ErrOK (run wInitS wOpsS) ∧ (run wInitS wOpsS).panicked = none := by
  refine ⟨by unfold ErrOK; decide +kernel, by decide +kernel⟩

end H2V.Lemmas.ConnNoPanicP
